"""C11 - three-phase power flow: structural clauses only.

Not decided: equality of the three-phase and the symmetric solution, convergence of the sequence iteration.
Decided (necessary conditions of "per-phase powers sum to the element's total" and "each phase satisfies nodal balance"):

 3PH-TABLES  the element types mapped into the per-phase bus powers (runpp_3ph._load_mapping) are the element types whose results
             are written and summed into res_bus_3ph (results_bus._get_p_q_results_3ph)
 3PH-SHARE   symmetric elements contribute one third per phase on the input side (_get_elements) and on the result side
             (_get_p_q_results_3ph, write_pq_results_to_element_3ph); both sides apply scaling, the in-service mask and the sign
             -1 exactly for *sgen
 3PH-PHASE   phase letters agree wherever a phase is selected: column p_<x>_mw / q_<x>_mvar for phase x on the input side, in the
             result writer and in get_p_q_b_3ph; the bus_pq columns written (pA,qA,pB,qB,pC,qC -> 0..5) are the columns read by
             _get_bus_results_3ph; rows 0,1,2 of the phase matrices go to the a,b,c result columns of lines and buses
 SEQ-MATRIX  the module-level symmetrical-component matrices are inverse to each other (constant folding of Tabc, T012 with
             a = exp(j120 deg)), and sequence_to_phase / phase_to_sequence use Tabc / T012 respectively
"""
import ast
import cmath
import math
import re

from ppsa.astutil import norm, dotted, fold, NOFOLD, inline_locals, names_in
from ppsa.selftest import Variant, replace_once, in_function

R3 = "pandapower.pf.runpp_3ph"
RB = "pandapower.results_bus"
RBR = "pandapower.results_branch"
AUX = "pandapower.auxiliary"


def _n(e, k=300):
    return norm(e, k).replace(" ", "").replace('"', "'")


def _list_assign(fn, name):
    for st in ast.walk(fn):
        if isinstance(st, ast.Assign) and len(st.targets) == 1 and isinstance(st.targets[0], ast.Name) and st.targets[0].id == name:
            v = fold(st.value)
            if v is not NOFOLD:
                return list(v), st
    return None, None


def rule_tables(ctx):
    R = "3PH-TABLES"
    ctx.rule(R, "element types in _load_mapping.load_elements == element types in _get_p_q_results_3ph (elements + elements_3ph): an "
                "element that is reported as bus demand but not mapped into the bus powers (or the reverse) breaks the per-phase balance")
    fm = ctx.repo.func(f"{R3}:_load_mapping")
    fr = ctx.repo.func(f"{RB}:_get_p_q_results_3ph")
    inp, st1 = _list_assign(fm.node, "load_elements")
    sym, st2 = _list_assign(fr.node, "elements")
    asy, st3 = _list_assign(fr.node, "elements_3ph")
    if inp is None or sym is None or asy is None:
        ctx.fail("3PH-TABLES: element lists not found (load_elements / elements / elements_3ph)")
    for t in sorted(set(inp) | set(sym) | set(asy)):
        ok = t in inp and (t in sym or t in asy)
        ctx.ob(R, f"{R3}::_load_mapping::{t}", ok,
               f"{t}: mapped and reported" if ok else
               (f"{t} is reported in res_bus_3ph but not mapped into the per-phase bus powers" if t not in inp else
                f"{t} is mapped into the bus powers but its results are not summed into res_bus_3ph"), fm.loc(st1) if t not in inp else fr.loc(st2))
    # the input side treats exactly the symmetric result elements as symmetric
    fe = ctx.repo.func(f"{R3}:_get_elements")
    symtest = None
    for n in ast.walk(fe.node):
        if isinstance(n, ast.If) and any("/3" in _n(x) for x in ast.walk(n) if isinstance(x, ast.BinOp)) and "element" in _n(n.test):
            symtest = n.test
            break
    handled = set()
    if symtest is not None:
        for c in ast.walk(symtest):
            if isinstance(c, ast.Constant) and isinstance(c.value, str):
                handled.add(c.value)
    ctx.ob(R, f"{R3}::_get_elements::symmetric-set", handled == set(sym), f"symmetric on the input side: {sorted(handled)}; on the result side: {sorted(sym)}", fe.loc())
    ctx.require_min(R, 5)


def rule_share(ctx):
    R = "3PH-SHARE"
    ctx.rule(R, "one third per phase for symmetric elements, times scaling, times sign (-1 exactly for element types ending in sgen), "
                "restricted to in-service rows, on the input side and on the result side")
    fe = ctx.repo.func(f"{R3}:_get_elements")
    sign = next((st for st in fe.node.body if isinstance(st, ast.Assign) and _n(st.targets[0]) == "sign"), None)
    ok = sign is not None and _n(sign.value) in ("-1ifelement.endswith('sgen')else1",)
    ctx.ob(R, f"{R3}::_get_elements::sign", ok, f"sign = {_n(sign.value) if sign else '?'}", fe.loc())
    act = next((st for st in ast.walk(fe.node) if isinstance(st, ast.Assign) and _n(st.targets[0]) == "active"), None)
    ok = act is not None and "net['_is_elements'][element]" in _n(act.value) and "==typ" in _n(act.value)
    ctx.ob(R, f"{R3}::_get_elements::active", ok, f"active = {_n(act.value) if act else '?'}", fe.loc())
    n = 0
    for c in ast.walk(fe.node):
        if isinstance(c, ast.Call) and _n(c.func) == "np.hstack" and c.args and isinstance(c.args[0], ast.List) and len(c.args[0].elts) == 2:
            key = _n(c.args[0].elts[0])
            val = c.args[0].elts[1]
            m = re.match(r"params\['([pq])'\+phase\+typ\]", key)
            if not m:
                continue
            n += 1
            t = _n(val)
            names = {x.id for x in ast.walk(val) if isinstance(x, ast.Name)}
            symmetric = "/3" in t
            ok = {"vl", "sign", "active"} <= names and ("elm[active," in t)
            ctx.ob(R, f"{R3}::_get_elements::{m.group(1)}{'-sym' if symmetric else '-asym'}#{n}", ok,
                   f"{key} += {t}" if ok else f"`{t}`: scaling (vl), sign or the active mask is missing", fe.loc(c))
    if n < 4:
        ctx.fail(f"3PH-SHARE: only {n} power contributions found in _get_elements (confirmed: 4)")
    # result side
    fr = ctx.repo.func(f"{RB}:_get_p_q_results_3ph")
    loops = [x for x in fr.node.body if isinstance(x, ast.For)]
    if len(loops) < 2:
        ctx.fail("_get_p_q_results_3ph: the two element loops were not found")
    for li, lp in enumerate(loops[:2]):
        sg = next((st for st in lp.body if isinstance(st, ast.Assign) and _n(st.targets[0]) == "sign"), None)
        ok = sg is not None and _n(sg.value) in ("-1ifelementin['sgen','asymmetric_sgen']else1", "-1ifelement.endswith('sgen')else1")
        ctx.ob(R, f"{RB}::_get_p_q_results_3ph::sign{li}", ok, f"sign = {_n(sg.value) if sg else '?'}", fr.loc(lp))
        for st in ast.walk(lp):
            if isinstance(st, ast.Assign) and isinstance(st.targets[0], ast.Name) and st.targets[0].id in ("pA", "pB", "pC", "qA", "qB", "qC") \
                    and isinstance(st.value, ast.Call) and _n(st.value.func) == "np.hstack":
                tgt = st.targets[0].id
                val = st.value.args[0].elts[1]
                if isinstance(val, ast.IfExp):
                    val = val.body
                t = _n(val)
                if li == 0:
                    ok = t == f"sign*{tgt[0]}_el/3"
                else:
                    ok = t == f"sign*{tgt[0]}_el_{tgt[1]}"
                ctx.ob(R, f"{RB}::_get_p_q_results_3ph::{tgt}-{'sym' if li == 0 else 'asym'}", ok, f"{tgt} += {t}", fr.loc(st))
    fw = ctx.repo.func(f"{RB}:write_pq_results_to_element_3ph")
    k = 0
    for st in ast.walk(fw.node):
        if isinstance(st, ast.Assign) and isinstance(st.targets[0], ast.Subscript) and isinstance(st.value, ast.IfExp):
            col = fold(st.targets[0].slice)
            if not isinstance(col, str):
                continue
            m = re.fullmatch(r"([pq])_([abc])_(mw|mvar)", col)
            if not m:
                continue
            k += 1
            tot = "p_mw" if m.group(1) == "p" else "q_mvar"
            sym, asym, test = _n(st.value.body), _n(st.value.orelse), _n(st.value.test)
            ok = sym == f"list(el_data['{tot}'].values/3*scaling*element_in_service)" and asym == f"list(el_data['{col}'].values*scaling*element_in_service)" \
                and test == "elementin['load','sgen']"
            ctx.ob(R, f"{RB}::write_pq_results_to_element_3ph::{col}", ok, f"{col} = {sym} if {test} else {asym}", fw.loc(st))
    if k < 6:
        ctx.fail(f"write_pq_results_to_element_3ph: only {k} per-phase stores found (confirmed: 6)")


def rule_phase(ctx):
    R = "3PH-PHASE"
    ctx.rule(R, "phase letters and positions agree: p[phase]/q[phase] dictionaries map x -> p_x_mw / q_x_mvar; get_p_q_b_3ph returns "
                "(pA,qA,pB,qB,pC,qC) from the same-letter columns; bus_pq columns 0..5 = (pA,qA,pB,qB,pC,qC) are read back as "
                "p_a,q_a,p_b,q_b,p_c,q_c; rows 0,1,2 of phase matrices go to a,b,c columns; Sabc stacks a,b,c")
    fe = ctx.repo.func(f"{R3}:_get_elements")
    for st in ast.walk(fe.node):
        if isinstance(st, ast.Assign) and isinstance(st.targets[0], ast.Name) and st.targets[0].id in ("p", "q") and isinstance(st.value, ast.Dict):
            pq = st.targets[0].id
            unit = "mw" if pq == "p" else "mvar"
            got = {k.value: _n(v) for k, v in zip(st.value.keys, st.value.values) if isinstance(k, ast.Constant)}
            want = {x: f"net[element].columns.get_loc('{pq}_{x}_{unit}')" for x in "abc"}
            ctx.ob(R, f"{R3}::_get_elements::{pq}-columns", got == want, f"{pq} = {got}", fe.loc(st))
    fm = ctx.repo.func(f"{R3}:_load_mapping")
    for name, typ in (("Sabc_del", "delta"), ("Sabc_wye", "wye")):
        st = next((s for s in ast.walk(fm.node) if isinstance(s, ast.Assign) and _n(s.targets[0]) == name), None)
        want = f"np.vstack((params['Sa{typ}'],params['Sb{typ}'],params['Sc{typ}']))"
        ctx.ob(R, f"{R3}::_load_mapping::{name}", st is not None and _n(st.value) == want, f"{name} = {_n(st.value) if st else '?'}", fm.loc())
    ph, _ = _list_assign(fm.node, "phases")
    ctx.ob(R, f"{R3}::_load_mapping::phases", ph == ["a", "b", "c"], f"phases = {ph}", fm.loc())
    fg = ctx.repo.func(f"{RB}:get_p_q_b_3ph")
    asg = {_n(st.targets[0]): _n(st.value.body if isinstance(st.value, ast.IfExp) else st.value) for st in fg.node.body if isinstance(st, ast.Assign)}
    ok = all(asg.get(f"{pq}{X}") == f"net[res_]['{pq}_{X.lower()}_{'mw' if pq == 'p' else 'mvar'}']" for pq in "pq" for X in "ABC")
    ret = next((_n(x.value) for x in ast.walk(fg.node) if isinstance(x, ast.Return)), "")
    ctx.ob(R, f"{RB}::get_p_q_b_3ph::columns", ok and ret in ("(pA,qA,pB,qB,pC,qC,b)", "pA,qA,pB,qB,pC,qC,b"), f"{asg}; returns {ret}", fg.loc())
    fr = ctx.repo.func(f"{RB}:_get_p_q_results_3ph")
    unpack = next((st for st in ast.walk(fr.node) if isinstance(st, ast.Assign) and isinstance(st.targets[0], ast.Tuple) and "get_p_q_b_3ph" in _n(st.value)), None)
    ok = unpack is not None and _n(unpack.targets[0]).strip("()") == "p_el_A,q_el_A,p_el_B,q_el_B,p_el_C,q_el_C,bus_el"
    ctx.ob(R, f"{RB}::_get_p_q_results_3ph::unpack", ok, _n(unpack.targets[0]) if unpack is not None else "?", fr.loc())
    grp = next((st for st in ast.walk(fr.node) if isinstance(st, ast.Assign) and "_sum_by_group_nvals" in _n(st.value)), None)
    ok = grp is not None and _n(grp.targets[0]).strip("()") == "b_pp,vp_A,vq_A,vp_B,vq_B,vp_C,vq_C" and \
        [_n(a) for a in grp.value.args[1:]] == ["pA", "qA", "pB", "qB", "pC", "qC"]
    ctx.ob(R, f"{RB}::_get_p_q_results_3ph::grouped", ok, _n(grp) if grp is not None else "?", fr.loc())
    cols = {}
    for st in ast.walk(fr.node):
        if isinstance(st, ast.Assign) and _n(st.targets[0]).startswith("bus_pq[b_ppc,"):
            cols[int(_n(st.targets[0])[len("bus_pq[b_ppc,"):-1])] = _n(st.value)
    ctx.ob(R, f"{RB}::_get_p_q_results_3ph::bus_pq-columns", cols == {0: "vp_A", 1: "vq_A", 2: "vp_B", 3: "vq_B", 4: "vp_C", 5: "vq_C"}, f"{cols}", fr.loc())
    fb = ctx.repo.func(f"{RB}:_get_bus_results_3ph")
    got = {}
    for st in ast.walk(fb.node):
        if isinstance(st, ast.Assign) and isinstance(st.targets[0], ast.Subscript) and "bus_pq[:," in _n(st.value):
            got[fold(st.targets[0].slice)] = _n(st.value)
    want = {"p_a_mw": "bus_pq[:,0]", "q_a_mvar": "bus_pq[:,1]", "p_b_mw": "bus_pq[:,2]", "q_b_mvar": "bus_pq[:,3]", "p_c_mw": "bus_pq[:,4]", "q_c_mvar": "bus_pq[:,5]"}
    ctx.ob(R, f"{RB}::_get_bus_results_3ph::columns", got == want, f"{got}", fb.loc())
    # rows 0,1,2 -> a,b,c in every `net["res_*_3ph"]["<name>_<x>_..."] = M[k, :]` store of the 3ph result writers
    n = 0
    for mod, fn in ((RBR, "_get_line_results_3ph"), (RBR, "_get_trafo_results_3ph"), (RB, "_get_bus_v_results_3ph")):
        fi = ctx.repo.try_func(f"{mod}:{fn}")
        if fi is None:
            continue
        for st in ast.walk(fi.node):
            if not (isinstance(st, ast.Assign) and isinstance(st.targets[0], ast.Subscript)):
                continue
            col = fold(st.targets[0].slice)
            if not isinstance(col, str):
                continue
            m = re.search(r"(?:^|_)([abc])_", col)
            rows = [int(x.slice.elts[0].value) for x in ast.walk(st.value) if isinstance(x, ast.Subscript) and isinstance(x.slice, ast.Tuple)
                    and len(x.slice.elts) == 2 and isinstance(x.slice.elts[0], ast.Constant) and isinstance(x.slice.elts[0].value, int)
                    and isinstance(x.slice.elts[1], ast.Slice)]
            if not m or not rows:
                continue
            n += 1
            ok = set(rows) == {"abc".index(m.group(1))}
            ctx.ob(R, f"{mod}::{fn}::{col}", ok, f"{col} = {_n(st.value, 70)}" if ok else f"column {col} (phase {m.group(1)}) takes row {rows} of the phase matrix", fi.loc(st))
    if n < 40:
        ctx.fail(f"3PH-PHASE: only {n} per-phase result stores found (confirmed: > 40 in line, trafo and bus voltage writers)")


class _Const:
    """constant folding of the module-level symmetrical-component constants of pandapower.auxiliary"""

    def __init__(self, mod):
        self.mod = mod
        self.env = {}

    def ev(self, e, local=None):
        local = local or {}
        if isinstance(e, ast.Constant):
            return e.value
        if isinstance(e, ast.Name):
            if e.id in local:
                return local[e.id]
            if e.id in self.env:
                return self.env[e.id]
            if e.id in self.mod.assigns:
                self.env[e.id] = self.ev(self.mod.assigns[e.id])
                return self.env[e.id]
            raise ValueError(e.id)
        if isinstance(e, ast.UnaryOp) and isinstance(e.op, ast.USub):
            return -self.ev(e.operand, local)
        if isinstance(e, ast.BinOp):
            a, b = self.ev(e.left, local), self.ev(e.right, local)
            if isinstance(e.op, ast.Mult):
                return a * b
            if isinstance(e.op, ast.Add):
                return a + b
            if isinstance(e.op, ast.Sub):
                return a - b
            if isinstance(e.op, ast.Div):
                return self._div(a, b)
            if isinstance(e.op, ast.Pow):
                return a ** b
        if isinstance(e, (ast.List, ast.Tuple)):
            return [self.ev(x, local) for x in e.elts]
        if isinstance(e, ast.Call):
            f = dotted(e.func) or ""
            args = [self.ev(a, local) for a in e.args]
            if f in ("np.exp", "numpy.exp", "exp"):
                return cmath.exp(args[0])
            if f in ("np.deg2rad", "numpy.deg2rad", "deg2rad"):
                return math.radians(args[0])
            if f in ("np.array", "numpy.array", "array", "np.asarray"):
                return args[0]
            if f in ("np.divide", "numpy.divide"):
                return self._div(args[0], args[1])
            if f in ("np.multiply", "numpy.multiply"):
                return self._map(args[0], lambda x: x * args[1])
            fi = self.mod.functions.get(f)
            if fi is not None:
                params = [a.arg for a in fi.node.args.args]
                ret = next(x for x in ast.walk(fi.node) if isinstance(x, ast.Return))
                return self.ev(ret.value, dict(zip(params, args)))
        raise ValueError(ast.unparse(e)[:60])

    def _map(self, a, f):
        return [self._map(x, f) for x in a] if isinstance(a, list) else f(a)

    def _div(self, a, b):
        return self._map(a, lambda x: x / b)


def rule_matrix(ctx):
    R = "SEQ-MATRIX"
    ctx.rule(R, "Tabc . T012 = identity (3x3, constant folding with a = exp(j 2pi/3)); first column of Tabc is all ones (zero sequence); "
                "sequence_to_phase multiplies with Tabc and phase_to_sequence with T012")
    mod = ctx.repo.module(AUX)
    c = _Const(mod)
    try:
        A = c.ev(ast.Name(id="Tabc", ctx=ast.Load()))
        B = c.ev(ast.Name(id="T012", ctx=ast.Load()))
    except Exception as e:   # noqa
        ctx.fail(f"SEQ-MATRIX: Tabc / T012 could not be folded ({e})")
        return
    ok = isinstance(A, list) and isinstance(B, list) and len(A) == 3 and len(B) == 3 and all(len(r) == 3 for r in A + B)
    err = None
    if ok:
        P = [[sum(A[i][k] * B[k][j] for k in range(3)) for j in range(3)] for i in range(3)]
        err = max(abs(P[i][j] - (1 if i == j else 0)) for i in range(3) for j in range(3))
        ok = err < 1e-12
    ctx.ob(R, f"{AUX}::<module>::Tabc.T012", ok, f"max |Tabc.T012 - I| = {err}", mod.relpath)
    if isinstance(A, list) and len(A) == 3:
        a = cmath.exp(2j * math.pi / 3)
        want = [[1, 1, 1], [1, a * a, a], [1, a, a * a]]
        e2 = max(abs(A[i][j] - want[i][j]) for i in range(3) for j in range(3))
        ctx.ob(R, f"{AUX}::<module>::Tabc", e2 < 1e-12, f"Tabc = [[1,1,1],[1,a^2,a],[1,a,a^2]] up to {e2:.1e} (phase b lags phase a by 120 deg in the positive sequence)", mod.relpath)
    for fn, M in (("sequence_to_phase", "Tabc"), ("phase_to_sequence", "T012")):
        fi = ctx.repo.func(f"{AUX}:{fn}")
        ret = next((_n(x.value) for x in ast.walk(fi.node) if isinstance(x, ast.Return)), "")
        arg = fi.node.args.args[0].arg
        ctx.ob(R, f"{AUX}::{fn}::matrix", ret in (f"np.asarray(np.matmul({M},{arg}))", f"np.matmul({M},{arg})", f"np.asarray({M}@{arg})"), f"returns {ret}", fi.loc())


def rule_grouping(ctx):
    R = "3PH-GROUP"
    ctx.rule(R, "_load_mapping sums the per-phase powers by ppc bus: the bus numbers are passed through the bus lookup BEFORE _sum_by_group "
                "(buses fused by a closed bus-bus switch share a ppc bus and must add up, the later store keeps one value per index); "
                "_add_ext_grid_sc_impedance returns the admittances it stored (grouped by bus, in the order of the slack buses)")
    fm = ctx.repo.func(f"{R3}:_load_mapping")
    calls = [c for c in ast.walk(fm.node) if isinstance(c, ast.Call) and (dotted(c.func) or "").endswith("_sum_by_group")]
    if not calls:
        ctx.fail("_load_mapping: _sum_by_group call not found")
    for c in calls:
        key = _n(c.args[0])
        lk = [st for st in ast.walk(fm.node) if isinstance(st, ast.Assign) and _n(st.targets[0]) == key and "bus_lookup[" in _n(st.value)]
        ok = bool(lk) and all(st.lineno < c.lineno for st in lk)
        ctx.ob(R, f"{R3}::_load_mapping::lookup-before-group", ok,
               f"{key} = bus_lookup[...] precedes _sum_by_group({key}, ...)" if ok else
               f"_sum_by_group groups by `{key}`, which is not (yet) mapped through the bus lookup: loads at buses that are fused into one ppc bus "
               "overwrite each other", fm.loc(c))
    fe = ctx.repo.func("pandapower.build_bus:_add_ext_grid_sc_impedance")
    stores = {}
    for st in ast.walk(fe.node):
        if isinstance(st, ast.Assign) and isinstance(st.targets[0], ast.Subscript) and _n(st.targets[0]).startswith("ppc['bus'][buses,"):
            stores[_n(st.targets[0])[len("ppc['bus'][buses,"):-1]] = _n(st.value)
    ret = next((x.value for x in ast.walk(fe.node) if isinstance(x, ast.Return) and isinstance(x.value, ast.Tuple)), None)
    got = [_n(e) for e in ret.elts] if ret is not None else []
    ok = len(got) == 2 and got[0] == stores.get("GS") and got[1] == stores.get("BS")
    ctx.ob(R, "pandapower.build_bus::_add_ext_grid_sc_impedance::returns-stored", ok,
           f"returns ({', '.join(got)}) = values stored at ppc['bus'][buses, GS/BS]" if ok else
           f"returns ({', '.join(got)}) but stores GS={stores.get('GS')}, BS={stores.get('BS')}: runpp_3ph subtracts the returned values at the sorted slack "
           "buses", fe.loc())


def rule_line_base(ctx):
    R = "3PH-BASE"
    ctx.rule(R, "in the positive- and zero-sequence line models every per-unit parameter (BR_R, BR_X, BR_B, BR_G) is formed with the "
                "local `baseR`, which carries the factor 3 of the pf_3ph mode: an impedance base written out by hand is the "
                "single-phase-equivalent one and scales that parameter by 3 in runpp_3ph only; the zero-sequence BR_STATUS of a line "
                "is written in every mode (an out-of-service line must not conduct in the zero-sequence network of runpp_3ph)")
    n = 0
    for fq in ("pandapower.build_branch:_calc_line_parameter", "pandapower.pd2ppc_zero:_add_line_sc_impedance_zero"):
        fi = ctx.repo.func(fq)
        has_mode_base = any(isinstance(st, (ast.Assign, ast.If)) and "baseR" in ast.unparse(st) and "pf_3ph" in ast.unparse(st) for st in ast.walk(fi.node))
        if not has_mode_base:
            ctx.fail(f"{fq}: mode dependent baseR not found")
        for st in ast.walk(fi.node):
            if not (isinstance(st, ast.Assign) and isinstance(st.targets[0], ast.Subscript)):
                continue
            col = ast.unparse(st.targets[0].slice).split(",")[-1].strip(" ()")
            if col not in ("BR_R", "BR_X", "BR_B", "BR_G"):
                continue
            v = inline_locals(fi.node, st.value, keep=("baseR", "base_kv", "length_km", "length", "parallel", "line"))
            if "per_km" not in ast.unparse(v):
                continue
            n += 1
            ok = "baseR" in names_in(v) and "sn_mva" not in ast.unparse(v)
            ctx.ob(R, f"{fi.module.name}::{fi.qualname}::{col}", ok, f"{col} is normalised with baseR" if ok else
                   f"`{_n(st, 60)}` = `{_n(v, 100)}` does not use the mode dependent baseR: in pf_3ph mode the parameter is three times too "
                   "large (or small), a balanced runpp_3ph no longer reproduces runpp", fi.loc(st))
    if n < 7:
        ctx.fail(f"3PH-BASE: only {n} per-unit line parameters found (confirmed: 4 + 3)")
    fz = ctx.repo.func("pandapower.pd2ppc_zero:_add_line_sc_impedance_zero")
    status = [st for st in ast.walk(fz.node) if isinstance(st, ast.Assign) and "BR_STATUS" in ast.unparse(st.targets[0])]
    top = [st for st in fz.node.body if st in status]
    ctx.ob(R, "pandapower.pd2ppc_zero::_add_line_sc_impedance_zero::BR_STATUS", bool(top),
           "the in_service flag is written unconditionally" if top else
           ("the BR_STATUS store sits inside a conditional block" if status else "no BR_STATUS store") +
           ": in the modes that skip it an out-of-service line keeps the default status 1 in the zero-sequence network", fz.loc(status[0]) if status else fz.loc())


def run(ctx):
    rule_line_base(ctx)
    ctx.assume("decides the bookkeeping of the three-phase power flow (element tables, per-phase shares, phase letters / positions, the "
               "constant transformation matrices); the numerical agreement with the symmetric power flow is not decided")
    rule_tables(ctx)
    rule_share(ctx)
    rule_phase(ctx)
    rule_matrix(ctx)
    rule_grouping(ctx)


def variants_r5(V):
    bb = "pandapower/build_branch.py"
    pz = "pandapower/pd2ppc_zero.py"
    return [
        V("line conductance with a hand-written base", bb, in_function("_calc_line_parameter", replace_once('g = line["g_us_per_km"].values * 1e-6 * baseR * length_km * parallel', 'g = line["g_us_per_km"].values * 1e-6 * np.square(base_kv) / net.sn_mva * length_km * parallel')), "_calc_line_parameter::BR_G"),
        V("zero-sequence line status only in sc mode", pz, in_function("_add_line_sc_impedance_zero", lambda s: s.replace('    ppc["branch"][f:t, BR_STATUS] = line["in_service"].astype(np.int64)\n', '', 1).replace('    ppc["branch"][f:t, BR_X] = line["x0_ohm_per_km"]', '        ppc["branch"][f:t, BR_STATUS] = line["in_service"].astype(np.int64)\n    ppc["branch"][f:t, BR_X] = line["x0_ohm_per_km"]', 1)), "BR_STATUS"),
    ]


def variants(repo):
    r3 = "pandapower/pf/runpp_3ph.py"
    rb = "pandapower/results_bus.py"
    rbr = "pandapower/results_branch.py"
    aux = "pandapower/auxiliary.py"
    V = Variant
    return [
        V("phase powers grouped before the bus lookup", r3, lambda s: s.replace("                params['b'+phase+typ] = bus_lookup[params['b'+typ]]\n                params['b'+phase+typ], params['P'+phase+typ],\\\n                    params['Q'+phase+typ] = _sum_by_group(params['b'+phase+typ],", "                params['b'+phase+typ], params['P'+phase+typ],\\\n                    params['Q'+phase+typ] = _sum_by_group(params['b'+typ],", 1), "lookup-before-group"),
        V("ext grid admittances returned per element", "pandapower/build_bus.py", replace_once("    return gs * ppc['baseMVA'], bs * ppc['baseMVA']", "    return y_grid.real * ppc['baseMVA'], y_grid.imag * ppc['baseMVA']"), "returns-stored"),
        V("storage reported but not mapped", r3, replace_once("load_elements = ['load', 'asymmetric_load', 'sgen', 'asymmetric_sgen', 'storage']", "load_elements = ['load', 'asymmetric_load', 'sgen', 'asymmetric_sgen']"), "_load_mapping::storage"),
        V("storage mapped as asymmetric", r3, replace_once("if element in ('load', 'sgen', 'storage'):", "if element in ('load', 'sgen'):"), "symmetric-set"),
        V("input without scaling", r3, replace_once("elm[active, p_mw]/3 * vl * sign])", "elm[active, p_mw]/3 * sign])"), "_get_elements::p-sym"),
        V("asymmetric q without sign", r3, replace_once("elm[active, q[phase]] * vl * sign])", "elm[active, q[phase]] * vl])"), "_get_elements::q-asym"),
        V("sign for loads", r3, in_function("_get_elements", replace_once('sign = -1 if element.endswith("sgen") else 1', 'sign = -1 if element.endswith("gen") or element == "load" else 1')), "_get_elements::sign"),
        V("phase c column from b", r3, replace_once("'c': net[element].columns.get_loc(\"q_c_mvar\")", "'c': net[element].columns.get_loc(\"q_b_mvar\")"), "q-columns"),
        V("result share not a third", rb, in_function("_get_p_q_results_3ph", replace_once("pB = np.hstack([pB, sign * p_el/3])", "pB = np.hstack([pB, sign * p_el/2])")), "pB-sym"),
        V("asymmetric result phases crossed", rb, in_function("_get_p_q_results_3ph", replace_once("pC = np.hstack([pC, sign * p_el_C])", "pC = np.hstack([pC, sign * p_el_B])")), "pC-asym"),
        V("bus_pq columns crossed", rb, in_function("_get_p_q_results_3ph", replace_once("bus_pq[b_ppc, 3] = vq_B", "bus_pq[b_ppc, 3] = vp_B")), "bus_pq-columns"),
        V("bus results read wrong column", rb, in_function("_get_bus_results_3ph", replace_once('net["res_bus_3ph"]["p_b_mw"] = bus_pq[:, 2]', 'net["res_bus_3ph"]["p_b_mw"] = bus_pq[:, 1]')), "_get_bus_results_3ph::columns"),
        V("element result without in-service mask", rb, in_function("write_pq_results_to_element_3ph", replace_once("else list(el_data[\"p_b_mw\"].values * scaling * element_in_service)", "else list(el_data[\"p_b_mw\"].values * scaling)")), "write_pq_results_to_element_3ph::p_b_mw"),
        V("line result phase rows crossed", rbr, replace_once('net["res_line_3ph"]["p_b_to_mw"] = Pabct_mw[1, :].flatten()', 'net["res_line_3ph"]["p_b_to_mw"] = Pabct_mw[2, :].flatten()'), "p_b_to_mw"),
        V("T012 without one third", aux, replace_once("        [1, asq, a]\n    ]), 3)", "        [1, asq, a]\n    ]), 1)"), "Tabc.T012"),
        V("a and a^2 swapped in both matrices", aux, replace_once("a = phase_shift_unit_operator(120)\nasq = phase_shift_unit_operator(-120)", "a = phase_shift_unit_operator(-120)\nasq = phase_shift_unit_operator(120)"), "<module>::Tabc"),
        V("phase_to_sequence with Tabc", aux, replace_once("return np.asarray(np.matmul(T012, Xabc))", "return np.asarray(np.matmul(Tabc, Xabc))"), "phase_to_sequence"),
        V("twin: sign via membership", rb, in_function("_get_p_q_results_3ph", lambda s: s.replace("sign = -1 if element in ['sgen', 'asymmetric_sgen'] else 1", 'sign = -1 if element.endswith("sgen") else 1')), None),
    ] + variants_r5(Variant)
