"""C31 - tabular tap dependency uses each transformer's own table row: structural clauses.

Decided:
 * KEYCOLLAPSE  a frame produced by merge(..., on=[k1, k2]) is unique on (k1, k2); a lookup
                dict(zip(frame[k1], frame[v])) built from it is keyed on a strict subset of the merge keys
                and collapses rows: two transformers that share a characteristic id at different tap
                positions get the same row
 * ALIASWRITE   no in-place write through a view of net.trafo / net.trafo3w in the table lookup (shared with C08)
 * ROW-DEP      the ratio / angle / vk / vkr taken from the table depend on tap_pos and on
                id_characteristic_table of the transformer table
Not decided: numerical equivalence with directly entered values.
"""
import ast

from ppsa import facts
from ppsa.astutil import fold, NOFOLD, kwarg, dotted, norm, names_in
from ppsa.selftest import Variant, replace_once, in_function

BB = "pandapower.build_branch"


def _zip_key_columns(fn, frame_names, zipnode):
    """column names of the key side of dict(zip(K, V)); K may itself be zip(frame[a], frame[b])."""
    if not (isinstance(zipnode, ast.Call) and dotted(zipnode.func) == "zip" and len(zipnode.args) == 2):
        return None
    k = zipnode.args[0]
    cols = []

    def col(n):
        if isinstance(n, ast.Subscript) and isinstance(n.value, ast.Name) and n.value.id in frame_names and isinstance(n.slice, ast.Constant):
            return n.slice.value
        return None
    if isinstance(k, ast.Call) and dotted(k.func) == "zip":
        for a in k.args:
            c = col(a)
            if c is None:
                return None
            cols.append(c)
        return cols
    c = col(k)
    return [c] if c is not None else None


def rule_keycollapse(ctx, modules):
    R = "KEYCOLLAPSE"
    ctx.rule(R, "a dict(zip(F[k], F[v])) built from a frame F = A.merge(B, on=[k1, ..., kn]) must be keyed on all merge keys")
    n = 0
    for mn in modules:
        m = ctx.repo.module(mn)
        for fi in m.functions.values():
            merged = {}
            for node in ast.walk(fi.node):
                if isinstance(node, ast.Assign) and len(node.targets) == 1 and isinstance(node.targets[0], ast.Name) \
                        and isinstance(node.value, ast.Call) and isinstance(node.value.func, ast.Attribute) and node.value.func.attr == "merge":
                    on = kwarg(node.value, "on")
                    keys = fold(on) if on is not None else NOFOLD
                    if keys is not NOFOLD and isinstance(keys, (list, tuple)) and len(keys) >= 2:
                        merged[node.targets[0].id] = list(keys)
            if not merged:
                continue
            for node in ast.walk(fi.node):
                if isinstance(node, ast.Call) and dotted(node.func) == "dict" and len(node.args) == 1:
                    cols = _zip_key_columns(fi.node, set(merged), node.args[0])
                    if cols is None:
                        continue
                    frame = None
                    for a in ast.walk(node.args[0]):
                        if isinstance(a, ast.Name) and a.id in merged:
                            frame = a.id
                    if frame is None:
                        continue
                    n += 1
                    keys = merged[frame]
                    ok = set(keys) <= set(cols)
                    ctx.ob(R, f"{mn}::{fi.qualname}::{norm(node, 70)}", ok,
                           f"lookup keyed on {cols} from a frame merged on {keys}" + ("" if ok else
                           f": rows that differ only in {sorted(set(keys) - set(cols))} collapse, every transformer with the same "
                           f"{cols[0]} gets the row of the last one"), fi.loc(node))
    return n


def run(ctx):
    ctx.assume("decides the key structure of the table lookups and the dependence of the looked-up values, not the numerical result")
    mods = [BB]
    if ctx.tier == "thorough":
        mods = ctx.repo.module_names()
    n = rule_keycollapse(ctx, mods)
    if n < 3:
        ctx.fail(f"KEYCOLLAPSE: only {n} lookups built from merged frames found (confirmed: 3)")

    R2 = "ALIASWRITE"
    ctx.rule(R2, "the table lookup does not write through a view of net.trafo / net.trafo3w")
    R3 = "ROW-DEP"
    ctx.rule(R3, "values taken from trafo_characteristic_table depend on tap_pos and id_characteristic_table of the transformer table")
    tab = lambda t: facts.AV(facts.E, "table", ("net", frozenset([t])), None, facts.E, frozenset(["net." + t]))
    it, fr = facts.analyse(ctx.repo, f"{BB}:_get_vk_values_from_table",
                           args={"trafo_df": tab("trafo"), "trafo_characteristic_table": tab("trafo_characteristic_table")}, schema_cols=True)
    bad = [s for s in it.stores if s.through_view and s.path.startswith("net.trafo")]
    ctx.ob(R2, f"{BB}::_get_vk_values_from_table::view-write", not bad,
           "vk/vkr are written into a private copy" if not bad else f"in-place write through a view of {bad[0].path}", bad[0].fn.loc(bad[0].node) if bad else "pandapower/build_branch.py")
    ret = fr.ret
    items = ret.data if ret.kind in ("tuple", "list") else [ret]
    deps = set()
    for x in items:
        deps |= facts.deps_of(x)
    for need in ("net.trafo.tap_pos", "net.trafo.id_characteristic_table", "net.trafo_characteristic_table.vk_percent",
                 "net.trafo_characteristic_table.vkr_percent", "net.trafo.tap_dependency_table"):
        ctx.ob(R3, f"{BB}::_get_vk_values_from_table::{need}", need in deps, f"vk/vkr values depend on {need}", "pandapower/build_branch.py")
    it2, fr2 = facts.analyse(ctx.repo, f"{BB}:_calc_tap_from_dataframe", args={"trafo_df": tab("trafo")},
                             options={"mode": "pf", "calculate_voltage_angles": True}, schema_cols=True)
    r2 = fr2.ret
    if r2.kind != "tuple" or len(r2.data) != 3:
        ctx.fail("_calc_tap_from_dataframe: return value not recognised")
    for i, nm in ((0, "vn_hv"), (1, "vn_lv"), (2, "shift")):
        d = facts.deps_of(r2.data[i])
        for need in ("net.trafo.tap_pos", "net.trafo.id_characteristic_table",
                     "net.trafo_characteristic_table.voltage_ratio" if i < 2 else "net.trafo_characteristic_table.angle_deg"):
            ctx.ob(R3, f"{BB}::_calc_tap_from_dataframe::{nm}:{need}", need in d, f"{nm} depends on {need}", "pandapower/build_branch.py")
    rule_table_masks(ctx)


def rule_keyed_assignment(ctx, R):
    """the rows of the merged frame come in the order of the characteristic table, the transformers in the order of their own table:
    a column of the merged frame may reach the transformers only through a lookup keyed by (id, step)"""
    n = 0
    for fn in ("_get_vk_values_from_table", "_calc_tap_from_dataframe"):
        fi = ctx.repo.func(f"{BB}:{fn}")
        for st in ast.walk(fi.node):
            if not isinstance(st, ast.Assign):
                continue
            cols = [x for x in ast.walk(st.value) if isinstance(x, ast.Subscript) and isinstance(x.value, ast.Name) and x.value.id == "filtered_df"]
            if not cols:
                continue
            n += 1
            v = st.value
            keyed = isinstance(v, ast.Call) and isinstance(v.func, ast.Name) and v.func.id == "dict" and "zip(" in ast.unparse(v)
            ctx.ob(R, f"{BB}::{fn}::merged-column:{norm(st.targets[0], 30)}", keyed,
                   f"{norm(st.targets[0], 30)} is a lookup keyed by the merge keys" if keyed else
                   f"`{norm(st, 100)}` takes a column of the merged frame positionally: its rows are in characteristic-table order, not in transformer "
                   "order - permuting the table rows (or the transformers) changes which transformer gets which value", fi.loc(st))
    if n < 3:
        ctx.fail(f"KEYED: only {n} uses of the merged characteristic frame found (confirmed: 3 mappings)")


def rule_table_masks(ctx):
    """which transformers go through the table and with which sign"""
    from ppsa.astutil import names_in
    R = "TABLE-MASK"
    ctx.rule(R, "_calc_tap_from_dataframe: the masks of the formula-based tap changers (tap_ideal, tap_complex) are both restricted to "
                "transformers without a table (tap_no_table), so a table transformer gets the table values only; the table angle is applied "
                "with the direction of the tapped side (assignment of `shift` depends on `direction`); _get_vk_values_from_table looks up "
                "every transformer with tap_dependency_table (mask independent of the tap position, like the ratio / angle lookup)")
    fi = ctx.repo.func(f"{BB}:_calc_tap_from_dataframe")
    for name in ("tap_ideal", "tap_complex"):
        # (the legacy branch for nets without tap_changer_type has no table at all: only the assignments from tap_changer_type count)
        sts = [n for n in ast.walk(fi.node) if isinstance(n, ast.Assign) and len(n.targets) == 1 and isinstance(n.targets[0], ast.Name) and n.targets[0].id == name
               and "tap_changer_type" in names_in(n.value)]
        if not sts:
            ctx.fail(f"_calc_tap_from_dataframe: assignment of {name} not found")
        for st in sts:
            ok = "tap_no_table" in names_in(st.value)
            ctx.ob(R, f"{BB}::_calc_tap_from_dataframe::{name}", ok,
                   f"{name} restricted to transformers without a table" if ok else
                   f"`{norm(st, 90)}` also selects table transformers: they get the table angle plus the formula angle", fi.loc(st))
    # table shift sign
    loops = [n for n in ast.walk(fi.node) if isinstance(n, ast.For) and "direction" in {x.id for x in ast.walk(n.target) if isinstance(x, ast.Name)}]
    k = 0
    for lp in loops:
        shifts = []
        def scan(body, guarded):
            for st in body:
                if isinstance(st, ast.If):
                    g = guarded or "direction" in names_in(st.test)
                    scan(st.body, g)
                    scan(st.orelse, g)
                elif isinstance(st, (ast.For, ast.While)):
                    scan(st.body, guarded)
                elif isinstance(st, ast.Assign) and len(st.targets) == 1 and isinstance(st.targets[0], ast.Name) and st.targets[0].id == "shift" \
                        and "shift_mapping" in names_in(st.value):
                    shifts.append((st, guarded or "direction" in names_in(st.value)))
        scan(lp.body, False)
        for st, dep in shifts:
            k += 1
            ctx.ob(R, f"{BB}::_calc_tap_from_dataframe::table-shift#{k}", dep,
                   "table angle assigned under / with the direction of the tapped side" if dep else
                   f"`{norm(st, 90)}` does not depend on `direction`: a tap changer on the lv side gets the table angle with the hv sign", fi.loc(st))
    if k < 1:
        ctx.fail("_calc_tap_from_dataframe: assignment of the table shift not found")
    rule_keyed_assignment(ctx, R)
    # which transformers go through the table: every one with tap_dependency_table, whatever its tap changer type
    from ppsa.astutil import inline_locals
    from ppsa import facts as _f
    dom = set(_f.schema_of(ctx.repo).columns["trafo"]["tap_changer_type"].isin or [])
    tt = [n for n in ast.walk(fi.node) if isinstance(n, ast.Assign) and len(n.targets) == 1 and isinstance(n.targets[0], ast.Name) and n.targets[0].id == "tap_table"
          and "tap_dependency_table" in names_in(n.value)]
    for st in tt:
        e = inline_locals(fi.node, st.value, keep=("tap_dependency_table", "tap_changer_type"))
        consts = {c.value for c in ast.walk(e) if isinstance(c, ast.Constant) and isinstance(c.value, str)}
        ok = not (consts & dom) or dom <= consts
        ctx.ob(R, f"{BB}::_calc_tap_from_dataframe::tap_table", ok,
               "every transformer with tap_dependency_table goes through the table" if ok else
               f"`tap_table = {norm(e, 110)}` admits only the types {sorted(consts & dom)}: a table transformer of type {sorted(dom - consts)} skips the "
               "ratio / angle lookup while its vk / vkr still come from the table", fi.loc(st))
    if not tt:
        ctx.fail("_calc_tap_from_dataframe: tap_table mask not found")
    f3 = ctx.repo.func(f"{BB}:_calculate_3w_tap_changers")
    sp = [n for n in ast.walk(f3.node) if isinstance(n, ast.Assign) and len(n.targets) == 1 and isinstance(n.targets[0], ast.Name) and n.targets[0].id == "at_star_point"]
    if not sp:
        ctx.fail("_calculate_3w_tap_changers: at_star_point not found")
    for st in sp:
        t = ast.unparse(st.value)
        ok = "tap_dependency_table" not in t and "tap_at_star_point" in (t + " " + " ".join(ast.unparse(x.value) for x in sp))
        ctx.ob(R, f"{BB}::_calculate_3w_tap_changers::star-point-mask", "tap_dependency_table" not in t,
               "the tap side of every star-point tap changer is flipped, table based or not" if "tap_dependency_table" not in t else
               f"`at_star_point = {t[:90]}` leaves table transformers out: _calc_tap_from_dataframe still inverts their table ratio, now on the wrong winding",
               f3.loc(st))
    fv = ctx.repo.func(f"{BB}:_get_vk_values_from_table")
    ms = [n for n in ast.walk(fv.node) if isinstance(n, ast.Assign) and len(n.targets) == 1 and isinstance(n.targets[0], ast.Name) and n.targets[0].id == "mask"]
    if not ms:
        ctx.fail("_get_vk_values_from_table: mask not found")
    for st in ms:
        nm = names_in(st.value)
        ok = "tap_dependency_table" in nm and not (nm & {"tap_pos", "tap_neutral", "tap_diff"})
        ctx.ob(R, f"{BB}::_get_vk_values_from_table::mask", ok,
               "vk / vkr looked up for every table transformer" if ok else
               f"`{norm(st, 90)}` excludes transformers by tap position: the ratio / angle lookup and the vk / vkr lookup no longer cover the same rows", fv.loc(st))


def variants(repo):
    bb = "pandapower/build_branch.py"
    V = Variant
    return [
        V("vk taken in table order", bb, in_function("_get_vk_values_from_table", lambda s: s.replace("            vk_new = [vk_mapping.get(key, 1) for key in zip(cleaned_id_characteristic, cleaned_step)]\n", "            vk_new = filtered_df[vk_var].values\n", 1)), "merged-column"),
        V("tabular type skips the table lookup", bb, in_function("_calc_tap_from_dataframe", lambda s: s.replace("            tap_table = np.logical_and(tap_dependency_table, tap_changer_type is not None)\n", "            tap_table = np.logical_and(tap_dependency_table, np.isin(tap_changer_type, (\"Ratio\", \"Symmetrical\", \"Ideal\")))\n", 1)), "tap_table"),
        V("star-point flip not for table transformers", bb, in_function("_calculate_3w_tap_changers", replace_once("    at_star_point = t3.tap_at_star_point.values\n", "    at_star_point = t3.tap_at_star_point.values.astype(bool) & ~t3.tap_dependency_table.fillna(False).values.astype(bool)\n")), "star-point-mask"),
        V("ideal formula also for table transformers", bb, replace_once('tap_ideal = np.logical_and(tap_changer_type == "Ideal", tap_no_table)', 'tap_ideal = tap_changer_type == "Ideal"'), "TABLE-MASK"),
        V("table angle without the lv sign", bb, in_function("_calc_tap_from_dataframe", lambda s: s.replace("                        shift = [-shift_mapping.get(key, 1) for key in id_step]", "                        shift = [shift_mapping.get(key, 1) for key in id_step]", 1).replace("                    if direction == 1:\n                        ratio = [voltage_mapping.get(key, 1) for key in id_step]\n                        shift = [shift_mapping.get(key, 1) for key in id_step]\n                    else:\n                        ratio = [voltage_mapping.get(key, 1) for key in id_step]\n                        shift = [shift_mapping.get(key, 1) for key in id_step]\n", "                    ratio = [voltage_mapping.get(key, 1) for key in id_step]\n                    shift = [shift_mapping.get(key, 1) for key in id_step]\n", 1)), "table-shift"),
        V("vk lookup skipped at the neutral position", bb, in_function("_get_vk_values_from_table", lambda s: s.replace("            mask = tap_dependency_table\n", "            mask = tap_dependency_table & (tap_pos != get_trafo_values(trafo_df, \"tap_neutral\"))\n", 1)), "_get_vk_values_from_table::mask"),
        V("vk lookup keyed by id only", bb, in_function("_get_vk_values_from_table", lambda s: s.replace("dict(zip(zip(filtered_df['id_characteristic'], filtered_df['step']), filtered_df[vk_var]))", "dict(zip(filtered_df['id_characteristic'], filtered_df[vk_var]))", 1)), "KEYCOLLAPSE"),
        V("ratio lookup keyed by id only", bb, in_function("_calc_tap_from_dataframe", lambda s: s.replace("dict(zip(zip(filtered_df['id_characteristic'], filtered_df['step']), filtered_df['voltage_ratio']))", "dict(zip(filtered_df['id_characteristic'], filtered_df['voltage_ratio']))", 1)), "KEYCOLLAPSE"),
        V("vk view write", bb, replace_once("            vk_value = vk_value.copy()\n", ""), "ALIASWRITE"),
    ]
