"""C31 - tabular tap dependency uses each transformer's own table row: structural clauses.

Decided:
 * KEYCOLLAPSE  a frame produced by merge(..., on=[k1, k2]) is unique on (k1, k2); a lookup
                dict(zip(frame[k1], frame[v])) built from it is keyed on a strict subset of the merge keys
                and collapses rows: two transformers that share a characteristic id at different tap
                positions get the same row
 * ALIASWRITE   no in-place write through a view of net.trafo / net.trafo3w in the table lookup (shared with C08)
 * ROW-DEP      the ratio / angle / vk / vkr taken from the table depend on tap_pos and on
                id_characteristic_table of the transformer table
Not decided: numerical equivalence with directly entered values.
"""
import ast

from ppsa import facts
from ppsa.astutil import fold, NOFOLD, kwarg, dotted, norm, names_in
from ppsa.selftest import Variant, replace_once, in_function

BB = "pandapower.build_branch"


def _zip_key_columns(fn, frame_names, zipnode):
    """column names of the key side of dict(zip(K, V)); K may itself be zip(frame[a], frame[b])."""
    if not (isinstance(zipnode, ast.Call) and dotted(zipnode.func) == "zip" and len(zipnode.args) == 2):
        return None
    k = zipnode.args[0]
    cols = []

    def col(n):
        if isinstance(n, ast.Subscript) and isinstance(n.value, ast.Name) and n.value.id in frame_names and isinstance(n.slice, ast.Constant):
            return n.slice.value
        return None
    if isinstance(k, ast.Call) and dotted(k.func) == "zip":
        for a in k.args:
            c = col(a)
            if c is None:
                return None
            cols.append(c)
        return cols
    c = col(k)
    return [c] if c is not None else None


def rule_keycollapse(ctx, modules):
    R = "KEYCOLLAPSE"
    ctx.rule(R, "a dict(zip(F[k], F[v])) built from a frame F = A.merge(B, on=[k1, ..., kn]) must be keyed on all merge keys")
    n = 0
    for mn in modules:
        m = ctx.repo.module(mn)
        for fi in m.functions.values():
            merged = {}
            for node in ast.walk(fi.node):
                if isinstance(node, ast.Assign) and len(node.targets) == 1 and isinstance(node.targets[0], ast.Name) \
                        and isinstance(node.value, ast.Call) and isinstance(node.value.func, ast.Attribute) and node.value.func.attr == "merge":
                    on = kwarg(node.value, "on")
                    keys = fold(on) if on is not None else NOFOLD
                    if keys is not NOFOLD and isinstance(keys, (list, tuple)) and len(keys) >= 2:
                        merged[node.targets[0].id] = list(keys)
            if not merged:
                continue
            for node in ast.walk(fi.node):
                if isinstance(node, ast.Call) and dotted(node.func) == "dict" and len(node.args) == 1:
                    cols = _zip_key_columns(fi.node, set(merged), node.args[0])
                    if cols is None:
                        continue
                    frame = None
                    for a in ast.walk(node.args[0]):
                        if isinstance(a, ast.Name) and a.id in merged:
                            frame = a.id
                    if frame is None:
                        continue
                    n += 1
                    keys = merged[frame]
                    ok = set(keys) <= set(cols)
                    ctx.ob(R, f"{mn}::{fi.qualname}::{norm(node, 70)}", ok,
                           f"lookup keyed on {cols} from a frame merged on {keys}" + ("" if ok else
                           f": rows that differ only in {sorted(set(keys) - set(cols))} collapse, every transformer with the same "
                           f"{cols[0]} gets the row of the last one"), fi.loc(node))
    return n


def run(ctx):
    ctx.assume("decides the key structure of the table lookups and the dependence of the looked-up values, not the numerical result")
    mods = [BB]
    if ctx.tier == "thorough":
        mods = ctx.repo.module_names()
    n = rule_keycollapse(ctx, mods)
    if n < 3:
        ctx.fail(f"KEYCOLLAPSE: only {n} lookups built from merged frames found (confirmed: 3)")

    R2 = "ALIASWRITE"
    ctx.rule(R2, "the table lookup does not write through a view of net.trafo / net.trafo3w")
    R3 = "ROW-DEP"
    ctx.rule(R3, "values taken from trafo_characteristic_table depend on tap_pos and id_characteristic_table of the transformer table")
    tab = lambda t: facts.AV(facts.E, "table", ("net", frozenset([t])), None, facts.E, frozenset(["net." + t]))
    it, fr = facts.analyse(ctx.repo, f"{BB}:_get_vk_values_from_table",
                           args={"trafo_df": tab("trafo"), "trafo_characteristic_table": tab("trafo_characteristic_table")}, schema_cols=True)
    bad = [s for s in it.stores if s.through_view and s.path.startswith("net.trafo")]
    ctx.ob(R2, f"{BB}::_get_vk_values_from_table::view-write", not bad,
           "vk/vkr are written into a private copy" if not bad else f"in-place write through a view of {bad[0].path}", bad[0].fn.loc(bad[0].node) if bad else "pandapower/build_branch.py")
    ret = fr.ret
    items = ret.data if ret.kind in ("tuple", "list") else [ret]
    deps = set()
    for x in items:
        deps |= facts.deps_of(x)
    for need in ("net.trafo.tap_pos", "net.trafo.id_characteristic_table", "net.trafo_characteristic_table.vk_percent",
                 "net.trafo_characteristic_table.vkr_percent", "net.trafo.tap_dependency_table"):
        ctx.ob(R3, f"{BB}::_get_vk_values_from_table::{need}", need in deps, f"vk/vkr values depend on {need}", "pandapower/build_branch.py")
    it2, fr2 = facts.analyse(ctx.repo, f"{BB}:_calc_tap_from_dataframe", args={"trafo_df": tab("trafo")},
                             options={"mode": "pf", "calculate_voltage_angles": True}, schema_cols=True)
    r2 = fr2.ret
    if r2.kind != "tuple" or len(r2.data) != 3:
        ctx.fail("_calc_tap_from_dataframe: return value not recognised")
    for i, nm in ((0, "vn_hv"), (1, "vn_lv"), (2, "shift")):
        d = facts.deps_of(r2.data[i])
        for need in ("net.trafo.tap_pos", "net.trafo.id_characteristic_table",
                     "net.trafo_characteristic_table.voltage_ratio" if i < 2 else "net.trafo_characteristic_table.angle_deg"):
            ctx.ob(R3, f"{BB}::_calc_tap_from_dataframe::{nm}:{need}", need in d, f"{nm} depends on {need}", "pandapower/build_branch.py")


def variants(repo):
    bb = "pandapower/build_branch.py"
    V = Variant
    return [
        V("vk lookup keyed by id only", bb, in_function("_get_vk_values_from_table", lambda s: s.replace("dict(zip(zip(filtered_df['id_characteristic'], filtered_df['step']), filtered_df[vk_var]))", "dict(zip(filtered_df['id_characteristic'], filtered_df[vk_var]))", 1)), "KEYCOLLAPSE"),
        V("ratio lookup keyed by id only", bb, in_function("_calc_tap_from_dataframe", lambda s: s.replace("dict(zip(zip(filtered_df['id_characteristic'], filtered_df['step']), filtered_df['voltage_ratio']))", "dict(zip(filtered_df['id_characteristic'], filtered_df['voltage_ratio']))", 1)), "KEYCOLLAPSE"),
        V("vk view write", bb, replace_once("            vk_value = vk_value.copy()\n", ""), "ALIASWRITE"),
    ]
