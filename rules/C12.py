"""C12 - time series equals a fresh power flow at each step: table-agreement clauses.

Decided:
 * RECYCLE-READ  for every (element, variable) that ConstControl.set_recycle (and the other set_recycle
                 overrides) marks recyclable with flag F, the builders that _recycled_powerflow re-runs
                 under F read net.<element>.<variable> (transitive read-set from the abstract interpreter)
 * BATCH-KEYS    every (table, variable) that _check_output_writer_recyclability accepts for batch reading
                 is a key that OutputWriter.get_batch_outputs provides
 * BATCH-MULTI   get_batch_outputs serves several variables of one table (no 'compute once' test chained
                 with a final raise)
 * REUSE-GUARD   stored Ybus is reused only when recycle['trafo'] is false, stored Sbus only when neither
                 bus_pq nor gen is raised
Not decided: numerical equality of recorded and fresh results.
"""
import ast

from ppsa import facts
from ppsa.astutil import fold, NOFOLD, calls_in, call_name, norm, names_in
from ppsa.selftest import Variant, replace_once, in_function

PF = "pandapower.powerflow"
CC = "pandapower.control.controller.const_control"
RT = "pandapower.timeseries.run_time_series"
OW = "pandapower.timeseries.output_writer"


def flag_builders(ctx):
    """flag -> builder function names re-run in _recycled_powerflow under `if "<flag>" in recycle and recycle["<flag>"]`."""
    fi = ctx.repo.func(f"{PF}:_recycled_powerflow")
    out = {}
    for n in ast.walk(fi.node):
        if isinstance(n, ast.If):
            t = ast.unparse(n.test).replace('"', "'")
            for flag in ("bus_pq", "trafo", "gen"):
                if f"recycle['{flag}']" in t:
                    names = [call_name(c) for st in n.body for c in calls_in(st)]
                    out[flag] = [x for x in names if x and (x.startswith("_calc_") or x.startswith("_build_"))]
    if set(out) != {"bus_pq", "trafo", "gen"}:
        ctx.fail(f"_recycled_powerflow: recycle flag blocks not found ({sorted(out)})")
    # inside a flag block a builder may only be guarded by the presence test of its own element: a builder in an
    # elif/else branch is skipped whenever the preceding test holds
    R0 = "RECYCLE-RERUN"
    ctx.rule(R0, "inside the block of a raised recycle flag every builder is re-run unconditionally or under the presence test of its "
                 "own element only (never in the elif/else of another element's test)")
    for n in ast.walk(fi.node):
        if isinstance(n, ast.If):
            t = ast.unparse(n.test).replace('"', "'")
            flags = [f for f in ("bus_pq", "trafo", "gen") if f"recycle['{f}']" in t]
            if not flags:
                continue
            def scan(body, in_else_of=None):
                for st in body:
                    if isinstance(st, ast.If):
                        scan(st.body, in_else_of)
                        scan(st.orelse, ast.unparse(st.test))
                    else:
                        for c in calls_in(st):
                            nm = call_name(c) or ""
                            if nm.startswith("_calc_") or nm.startswith("_build_"):
                                ctx.ob(R0, f"{PF}::_recycled_powerflow::{flags[0]}:{nm}", in_else_of is None,
                                       f"{nm} is re-run whenever recycle['{flags[0]}'] is raised (and its element exists)" if in_else_of is None else
                                       f"{nm} sits in the else-branch of `{in_else_of}`: it is not re-run when that test holds, the change of its "
                                       "element is ignored in recycled steps", fi.loc(c))
            scan(n.body)
    return out, fi


def read_set(ctx, fn_names):
    reads = set()
    for name in fn_names:
        fq = None
        for mod in ("pandapower.build_bus", "pandapower.build_branch", "pandapower.build_gen"):
            if name in ctx.repo.module(mod).functions:
                fq = f"{mod}:{name}"
        if fq is None:
            ctx.fail(f"builder {name} not found")
        it, fr = facts.analyse(ctx.repo, fq, options={"mode": "pf"}, schema_cols=True, max_depth=9)
        for s in it.stores:
            for d in (s.value.deps | s.index.deps | s.ctrl):
                if d.startswith("net."):
                    reads.add(d)
    return reads


def recycle_table(ctx, fi):
    """[(elements, variables or None, flag)] from the `if self.element in [...] (and self.variable in [...])` tests that
    set recycle[flag] = True, plus allowed_elements."""
    rows = []
    allowed = None
    for n in ast.walk(fi.node):
        if isinstance(n, ast.Assign) and any(isinstance(t, ast.Name) and t.id == "allowed_elements" for t in n.targets):
            v = fold(n.value)
            allowed = list(v) if v is not NOFOLD else None
        if isinstance(n, ast.If):
            flags = [fold(st.targets[0].slice) for st in n.body if isinstance(st, ast.Assign) and isinstance(st.targets[0], ast.Subscript)
                     and isinstance(st.targets[0].value, ast.Name) and st.targets[0].value.id == "recycle"
                     and isinstance(st.value, ast.Constant) and st.value.value is True]
            if not flags:
                continue
            # disjunction of conjunctions
            test = n.test
            terms = test.values if isinstance(test, ast.BoolOp) and isinstance(test.op, ast.Or) else [test]
            for term in terms:
                parts = term.values if isinstance(term, ast.BoolOp) and isinstance(term.op, ast.And) else [term]
                els, vars_ = None, None
                for p in parts:
                    if isinstance(p, ast.Compare) and isinstance(p.ops[0], ast.In):
                        l = ast.unparse(p.left)
                        v = fold(p.comparators[0])
                        if v is NOFOLD:
                            continue
                        if l == "self.element":
                            els = list(v)
                        elif l == "self.variable":
                            vars_ = list(v)
                if els is not None:
                    for f in flags:
                        rows.append((els, vars_, f))
    return rows, allowed


def run(ctx):
    ctx.assume("decides agreement of the recycling / batch-reading tables with what the re-run code reads and provides, not "
               "the numerical equality of recorded and fresh results")
    R = "RECYCLE-READ"
    ctx.rule(R, "every (element, variable) that a set_recycle implementation marks recyclable under flag F is in the read-set of the "
                "builders re-run by _recycled_powerflow under F; otherwise the change written by the controller is ignored")
    fb, frp = flag_builders(ctx)
    reads = {flag: read_set(ctx, names) for flag, names in fb.items()}
    fi = ctx.repo.func(f"{CC}:ConstControl.set_recycle")
    rows, allowed = recycle_table(ctx, fi)
    if not rows or allowed is None:
        ctx.fail("ConstControl.set_recycle: recycle table not recognised")
    n = 0
    for els, vars_, flag in rows:
        for el in els:
            if el not in allowed:
                continue
            rs = reads[flag]
            if vars_ is None:
                ok = any(d.startswith(f"net.{el}.") and not d.split(".")[2].startswith("@") and d.split(".")[2] not in ("in_service",) for d in rs)
                n += 1
                ctx.ob(R, f"{CC}::ConstControl.set_recycle::{el}.*->{flag}", ok,
                       f"{el}.<any variable> recyclable with flag '{flag}': re-run builders {fb[flag]} "
                       + ("read the table" if ok else f"never read net.{el} - changed {el} parameters are ignored in recycled steps"),
                       fi.loc())
            else:
                for v in vars_:
                    ok = f"net.{el}.{v}" in rs
                    n += 1
                    ctx.ob(R, f"{CC}::ConstControl.set_recycle::{el}.{v}->{flag}", ok,
                           f"{el}.{v} recyclable with flag '{flag}': " + ("read by" if ok else "NOT read by") + f" {fb[flag]}", fi.loc())
    # other overrides found through the class table
    base = "pandapower.control.basic_controller:Controller"
    for ci in ctx.repo.subclasses_of(base):
        m = ci.methods.get("set_recycle")
        if m is None or m.fq == fi.fq:
            continue
        al = None
        flags = []
        for node in ast.walk(m.node):
            if isinstance(node, ast.Assign) and any(isinstance(t, ast.Name) and t.id == "allowed_elements" for t in node.targets):
                v = fold(node.value)
                al = list(v) if v is not NOFOLD else None
            if isinstance(node, ast.Call) and isinstance(node.func, ast.Name) and node.func.id == "dict":
                flags = [k.arg for k in node.keywords if isinstance(k.value, ast.Constant) and k.value.value is True]
        if al is None:
            ctx.ob(R, f"{m.module.name}::{m.qualname}::override", False, f"set_recycle override of {ci.name} not recognised", m.loc())
            continue
        for el in al:
            for flag in flags:
                ok = any(d.startswith(f"net.{el}.") for d in reads.get(flag, ()))
                n += 1
                ctx.ob(R, f"{m.module.name}::{m.qualname}::{el}.*->{flag}", ok,
                       f"{ci.name}: {el} recyclable with flag '{flag}': re-run builders " + ("read the table" if ok else "never read it"), m.loc())
    ctx.require_min(R, 14)

    R2 = "BATCH-KEYS"
    ctx.rule(R2, "the (table, variable) pairs _check_output_writer_recyclability accepts for batch reading are keys that "
                 "OutputWriter.get_batch_outputs builds (dict(...) literals per table)")
    fo = ctx.repo.func(f"{OW}:OutputWriter.get_batch_outputs")
    provided = {}
    for node in ast.walk(fo.node):
        if isinstance(node, ast.Assign) and isinstance(node.targets[0], ast.Subscript) and ast.unparse(node.targets[0].value) == "results" \
                and isinstance(node.value, ast.Call) and isinstance(node.value.func, ast.Name) and node.value.func.id == "dict":
            t = fold(node.targets[0].slice)
            provided[t] = {k.arg for k in node.value.keywords}
    if len(provided) < 3:
        ctx.fail("get_batch_outputs: result dict literals not found")
    fc = ctx.repo.func(f"{RT}:_check_output_writer_recyclability")
    mod = ctx.repo.module(RT)
    # accepted tables: the list in "table not in [...]"; accepted variables: a membership test on `variable`
    acc_tables = None
    var_test = None
    reject = None
    for node in ast.walk(fc.node):
        if isinstance(node, ast.If) and isinstance(node.test, (ast.BoolOp, ast.Compare)) and "table" in names_in(node.test) \
                and any("batch_read" in ast.unparse(st) and "False" in ast.unparse(st) for st in node.body):
            reject = node
    if reject is None:
        ctx.fail("_check_output_writer_recyclability: rejection test not found")
    ok = "recycle['trafo']" in ast.unparse(reject.test).replace('"', "'")
    ctx.ob(R2, f"{RT}::_check_output_writer_recyclability::no-batch-with-trafo-flag", ok,
           "batch reading is refused when recycle['trafo'] is raised" if ok else
           "batch reading is accepted although recycle['trafo'] is raised: get_batch_outputs computes branch results of every step from "
           "the branch matrix of the last step, so steps with other tap positions are wrong", fc.loc(reject))
    env = {k: fold(v) for k, v in mod.assigns.items() if fold(v) is not NOFOLD}
    for node in ast.walk(reject.test):
        if isinstance(node, ast.Compare) and isinstance(node.ops[0], ast.NotIn):
            l = ast.unparse(node.left)
            v = fold(node.comparators[0], env)
            src = ast.unparse(node.comparators[0])
            if l == "table" and v is not NOFOLD:
                acc_tables = list(v) if not isinstance(v, dict) else list(v.keys())
            if l == "variable":
                if v is not NOFOLD and not isinstance(v, dict):
                    var_test = {t: set(v) for t in (acc_tables or [])}
                else:
                    for name, val in env.items():
                        if isinstance(val, dict) and name in src:
                            var_test = {t: set(vs) for t, vs in val.items()}
            if l.replace(" ", "") == "(table,variable)" and v is not NOFOLD:
                var_test = {}
                for t, x in v:
                    var_test.setdefault(t, set()).add(x)
                acc_tables = sorted(var_test)
    if acc_tables is None:
        ctx.fail("_check_output_writer_recyclability: accepted table list not found")
    for t in acc_tables:
        if t not in provided:
            ctx.ob(R2, f"{RT}::_check_output_writer_recyclability::{t}", False, f"table {t} accepted for batch reading but not provided", fc.loc())
            continue
        if var_test is None or t not in var_test:
            ctx.ob(R2, f"{RT}::_check_output_writer_recyclability::{t}.*", False,
                   f"any variable of {t} is accepted for batch reading; get_batch_outputs provides only {sorted(provided[t])} "
                   "(KeyError for every other variable)", fc.loc())
        else:
            extra = sorted(var_test[t] - provided[t])
            ctx.ob(R2, f"{RT}::_check_output_writer_recyclability::{t}.*", not extra,
                   f"accepted variables of {t} are provided" if not extra else f"accepted but not provided: {extra}", fc.loc())

    R3 = "BATCH-MULTI"
    ctx.rule(R3, "get_batch_outputs must serve a second variable of a table whose results were already computed: no test "
                 "'table == T and T not in results' in an if/elif chain that ends in raise")
    bad = []
    for node in ast.walk(fo.node):
        if isinstance(node, ast.If) and isinstance(node.test, ast.BoolOp) and isinstance(node.test.op, ast.And):
            t = ast.unparse(node.test)
            if "table ==" in t and "not in results" in t:
                # follow the chain to its final else
                cur = node
                while len(cur.orelse) == 1 and isinstance(cur.orelse[0], ast.If):
                    cur = cur.orelse[0]
                if any(isinstance(x, ast.Raise) for x in cur.orelse):
                    bad.append(node)
    ctx.ob(R3, f"{OW}::OutputWriter.get_batch_outputs::chain", not bad,
           "computed-once tables are served again" if not bad else
           f"'{norm(bad[0].test, 70)}' is false for the second variable of the table and the chain ends in raise", fo.loc(bad[0]) if bad else fo.loc())

    R5 = "DIVERGED-PPC"
    ctx.rule(R5, "when a calculation inside the control / time-series loop fails, the stored ppc is discarded unconditionally in the "
                 "handler (net._ppc = None before repair, re-run or re-raise): a later recycled step must not start from the ppc of a "
                 "diverged calculation")
    fe = ctx.repo.func("pandapower.control.run_control:_evaluate_net")
    hs = [h for n in ast.walk(fe.node) if isinstance(n, ast.Try) for h in n.handlers if "errors" in ast.unparse(h.type or ast.Constant(0))]
    ok = False
    if hs:
        first = hs[0].body[0] if hs[0].body else None
        ok = isinstance(first, ast.Assign) and ast.unparse(first.targets[0]) in ("net._ppc", "net['_ppc']", 'net["_ppc"]') \
            and isinstance(first.value, ast.Constant) and first.value.value is None
    ctx.ob(R5, "pandapower.control.run_control::_evaluate_net::clear-on-failure", ok,
           "net._ppc = None is the first, unconditional statement of the failure handler" if ok else
           "the failure handler of _evaluate_net does not discard net._ppc on every path: with continue_on_divergence the following "
           "recycled steps reuse the ppc of the diverged step", fe.loc(hs[0]) if hs else fe.loc())
    R4 = "REUSE-GUARD"
    ctx.rule(R4, "the stored Ybus is returned only under `isinstance(recycle, dict) and not recycle['trafo']`; the stored Sbus "
                 "only when recycle is a dict and neither 'bus_pq' nor 'gen' is raised")
    fy = ctx.repo.func("pandapower.pf.run_newton_raphson_pf:_get_Y_bus")
    ok = False
    for node in ast.walk(fy.node):
        if isinstance(node, ast.If) and "ppci['internal']['Ybus']" in ast.unparse(node.body[0]).replace('"', "'"):
            t = ast.unparse(node.test).replace('"', "'")
            ok = "isinstance(recycle, dict)" in t and "not recycle['trafo']" in t
    ctx.ob(R4, "pandapower.pf.run_newton_raphson_pf::_get_Y_bus::guard", ok, "stored Ybus reused only when recycle['trafo'] is false", fy.loc())
    fs = ctx.repo.func("pandapower.pf.run_newton_raphson_pf:_get_Sbus")
    txt = ast.unparse(fs.node).replace('"', "'")
    ok = "isinstance(recycle, dict)" in txt and "recycle['bus_pq']" in txt and "recycle['gen']" in txt
    ctx.ob(R4, "pandapower.pf.run_newton_raphson_pf::_get_Sbus::guard", ok, "stored Sbus reuse depends on recycle['bus_pq'] and recycle['gen']", fs.loc())
    rule_batch_sibling(ctx)
    rule_output_writer(ctx)


def rule_output_writer(ctx):
    from ppsa.astutil import norm, fold, NOFOLD
    R = "OW-LOG"
    ctx.rule(R, "OutputWriter._log copies the whole result column positionally only when the logged index equals the table index "
                "(index.equals), otherwise it selects by label; the throw-away ppc that sizes the batch voltage log is built with the "
                "connectivity check that runpp applies by default (same number of ppci buses)")
    OW = "pandapower.timeseries.output_writer"
    fi = ctx.repo.func(f"{OW}:OutputWriter._log")
    found = 0
    for n in ast.walk(fi.node):
        if isinstance(n, ast.If) and any(isinstance(st, ast.Assign) and norm(st.value, 60).replace(" ", "") == "net[table][variable].values" for st in n.body):
            found += 1
            t = norm(n.test, 120).replace(" ", "")
            ok = ".index.equals(" in t and "index" in t.split(".index.equals(")[1]
            ctx.ob(R, f"{OW}::OutputWriter._log::fast-path", ok,
                   f"whole column taken when `{t}`" if ok else
                   f"whole column taken when `{t}`: an index selection of the same length in another order gets the values of other elements", fi.loc(n))
    if not found:
        ctx.fail("OutputWriter._log: positional fast path not found")
    fds = ctx.repo.func("pandapower.timeseries.data_sources.frame_data:DFData.get_time_step_value")
    isn = [st for st in ast.walk(fds.node) if isinstance(st, ast.Assign) and norm(st.targets[0], 12) == "isnumber" and "issubdtype" in norm(st.value, 80)]
    okn = bool(isn) and norm(isn[0].value, 80).replace(" ", "") == "np.issubdtype(res.dtype,np.number)"
    ctx.ob(R, "pandapower.timeseries.data_sources.frame_data::DFData.get_time_step_value::scale-all-numbers", okn,
           "the scale factor is applied to every numeric profile (integer columns included), as in the scalar path" if okn else
           f"`isnumber = {norm(isn[0].value, 70) if isn else '?'}`: integer profile columns are written to the net unscaled", fds.loc(isn[0]) if isn else fds.loc())
    fp = ctx.repo.func(f"{OW}:OutputWriter._init_ppc_logging")
    opt = None
    for st in ast.walk(fp.node):
        if isinstance(st, ast.Assign) and norm(st.targets[0], 20) == "options" and isinstance(st.value, ast.Call) and norm(st.value.func, 10) == "dict":
            opt = {k.arg: fold(k.value) for k in st.value.keywords if k.arg}
    ok = opt is not None and opt.get("check_connectivity") is True
    ctx.ob(R, f"{OW}::OutputWriter._init_ppc_logging::sizing-ppc", ok, f"options of the sizing ppc: check_connectivity={opt.get('check_connectivity') if opt else '?'}", fp.loc())


def rule_batch_sibling(ctx):
    """the batch readers recompute currents-to-loading with their own copies of the result formulas: the rating terms must be the
    ones the regular result writers use, otherwise a batch-read time series differs from a fresh power flow of the same step"""
    from ppsa.astutil import norm, inline_locals
    R = "BATCH-SIBLING"
    ctx.rule(R, "read_batch_results.get_batch_line_results / get_batch_trafo_results use the rating expressions of "
                "results_branch._get_line_results / _get_trafo_results: i_max = max_i_ka * df * parallel; loading_percent = ld_trafo / "
                "parallel / df; per-side loading = i * vn * sqrt(3) / sn_mva * 100")
    RB_ = "pandapower.results_branch"
    BR_ = "pandapower.timeseries.read_batch_results"

    def assign(fi, name):
        for st in ast.walk(fi.node):
            if isinstance(st, ast.Assign) and len(st.targets) == 1 and isinstance(st.targets[0], ast.Name) and st.targets[0].id == name:
                return st
        return None

    def cols(e):
        return sorted({c.value for c in ast.walk(e) if isinstance(c, ast.Constant) and isinstance(c.value, str)})
    a = assign(ctx.repo.func(f"{RB_}:_get_line_results"), "i_max")
    b = assign(ctx.repo.func(f"{BR_}:get_batch_line_results"), "i_max")
    if a is None or b is None:
        ctx.fail("BATCH-SIBLING: i_max of the line results not found")
    ctx.ob(R, f"{BR_}::get_batch_line_results::i_max", cols(a.value) == cols(b.value) and norm(a.value, 200) == norm(b.value, 200),
           f"batch: {norm(b.value, 90)}; regular: {norm(a.value, 90)}", ctx.repo.func(f"{BR_}:get_batch_line_results").loc(b))
    fa, fb = ctx.repo.func(f"{RB_}:_get_trafo_results"), ctx.repo.func(f"{BR_}:get_batch_trafo_results")
    a, b = assign(fa, "loading_percent"), assign(fb, "loading_percent")
    if a is None or b is None:
        ctx.fail("BATCH-SIBLING: loading_percent of the trafo results not found")
    ctx.ob(R, f"{BR_}::get_batch_trafo_results::loading_percent", norm(a.value, 200) == norm(b.value, 200),
           f"batch: {norm(b.value, 100)}; regular: {norm(a.value, 100)}", fb.loc(b))
    for side, vn in (("s_hv", "vn_hv_kv"), ("s_lv", "vn_lv_kv")):
        st = assign(fb, side)
        t = norm(st.value, 200).replace(" ", "") if st is not None else ""
        ok = st is not None and vn in t and "sqrt(3)" in t and "/sn_mva*100" in t
        ctx.ob(R, f"{BR_}::get_batch_trafo_results::{side}", ok, f"{side} = {t}", fb.loc(st) if st is not None else fb.loc())
    # power-based loading: the larger of the two terminal powers, as in the regular writer (np.max over both sides)
    pbranch = next((n for n in ast.walk(fb.node) if isinstance(n, ast.If) and "trafo_loading" in norm(n.test, 60) and "'power'" in norm(n.test, 60).replace('"', "'")), None)
    lt = next((norm(st.value, 100).replace(" ", "") for st in (pbranch.body if pbranch else []) if isinstance(st, ast.Assign) and norm(st.targets[0], 12) == "ld_trafo"), "")
    sm = assign(fb, "s_mva")
    oks = lt.startswith("s_mva/sn_mva*100") and sm is not None and norm(sm.value, 100).replace(" ", "").startswith("maximum(s_abs[0][:,f:t],s_abs[1][:,f:t])")
    ctx.ob(R, f"{BR_}::get_batch_trafo_results::power-loading", oks, f"ld_trafo = {lt}; s_mva = {norm(sm.value, 70) if sm is not None else '?'}", fb.loc(pbranch) if pbranch is not None else fb.loc())
    sn = assign(fb, "sn_mva")
    ctx.ob(R, f"{BR_}::get_batch_trafo_results::sn_mva", sn is not None and norm(sn.value, 80).replace(" ", "").replace('"', "'") == "net['trafo']['sn_mva'].values",
           f"sn_mva = {norm(sn.value, 60) if sn is not None else '?'}", fb.loc())


def variants(repo):
    cc = "pandapower/control/controller/const_control.py"
    rt = "pandapower/timeseries/run_time_series.py"
    nr = "pandapower/pf/run_newton_raphson_pf.py"
    V = Variant
    return [
        V("log fast path chosen by length", "pandapower/timeseries/output_writer.py", replace_once("if net[table].index.equals(pd.Index(index)):", "if len(index) == len(net[table]):"), "OW-LOG"),
        V("sizing ppc without connectivity check", "pandapower/timeseries/output_writer.py", replace_once("enforce_q_lims=False, check_connectivity=True,", "enforce_q_lims=False, check_connectivity=False,"), "OW-LOG"),
        V("batch power loading from the hv side only", "pandapower/timeseries/read_batch_results.py", replace_once("        ld_trafo = s_mva / sn_mva * 100.", "        ld_trafo = s_abs[0][:, f:t] / sn_mva * 100."), "power-loading"),
        V("integer profiles not scaled", "pandapower/timeseries/data_sources/frame_data.py", replace_once("isnumber = np.issubdtype(res.dtype, np.number)", "isnumber = np.issubdtype(res.dtype, np.floating)"), "scale-all-numbers"),
        V("batch line loading without derating factor", "pandapower/timeseries/read_batch_results.py", replace_once('i_max = line_df["max_i_ka"].values * line_df["df"].values * line_df["parallel"].values', 'i_max = line_df["max_i_ka"].values * line_df["parallel"].values'), "BATCH-SIBLING"),
        V("batch trafo loading without parallel", "pandapower/timeseries/read_batch_results.py", replace_once('loading_percent = ld_trafo / net["trafo"]["parallel"].values / net["trafo"]["df"].values', 'loading_percent = ld_trafo / net["trafo"]["df"].values'), "BATCH-SIBLING"),
        V("trafo3w rebuilt only without trafo", "pandapower/powerflow.py", in_function("_recycled_powerflow", replace_once('        if "trafo3w" in lookup:', '        elif "trafo3w" in lookup:')), "RECYCLE-RERUN"),
        V("batch read with active tap changer", rt, replace_once('variable not in BATCH_READ_VARIABLES[table] or recycle["trafo"] \\\n                or len(output) > 2:', 'variable not in BATCH_READ_VARIABLES[table] or len(output) > 2:'), "no-batch-with-trafo-flag"),
        V("ppc kept when the divergence is tolerated", "pandapower/control/run_control.py", in_function("_evaluate_net", lambda s: s.replace("        net._ppc = None\n", "", 1).replace("        else:\n            raise err", "        else:\n            net._ppc = None\n            raise err", 1)), "DIVERGED-PPC"),
        V("line recyclable again", cc, in_function("set_recycle", lambda s: s.replace('"trafo", "trafo3w"]', '"trafo", "trafo3w", "line"]', 1).replace('["trafo", "trafo3w"]:', '["trafo", "trafo3w", "line"]:', 1)), "line.*->trafo"),
        V("gen q recyclable", cc, in_function("set_recycle", replace_once('self.variable in ["p_mw", "vm_pu", "scaling"]', 'self.variable in ["p_mw", "vm_pu", "scaling", "min_q_mvar_xx"]')), "gen.min_q_mvar_xx"),
        V("batch accepts any line variable", rt, replace_once("variable not in BATCH_READ_VARIABLES[table] or ", ""), "BATCH-KEYS"),
        V("batch table lists unprovided variable", rt, replace_once('"res_line": ("i_ka", "i_from_ka", "i_to_ka", "loading_percent"),', '"res_line": ("i_ka", "i_from_ka", "i_to_ka", "loading_percent", "p_from_mw"),'), "res_line"),
        V("compute-once chain back", "pandapower/timeseries/output_writer.py", replace_once('                elif table == "res_line":\n', '                elif table == "res_line" and "res_line" not in results:\n'), "BATCH-MULTI"),
        V("ybus reused with trafo flag", nr, replace_once("isinstance(recycle, dict) and not recycle[\"trafo\"] and", "isinstance(recycle, dict) and"), "REUSE-GUARD"),
    ]
