"""C33 - DER controller capability: structural clauses of the saturation only.

Not decided: containment of (P, Q) in a capability area for run-time polygons and voltages, nor the effect of the damping
(the written set-point is a combination of the previous and the saturated target).
Decided (each a necessary condition of "the saturated target respects the limit"):

 SAT-MASK   in DERController._saturate / _saturate_sn_mva_step every masked assignment X[m] = f(...) reads the per-element
            vectors (p_pu, q_pu, vm_pu, sat_s_pu) with the same mask m it assigns with, and the flexibility of the area is
            evaluated for the rows that are clamped
 SAT-CLAMP  the area clamp bounds q below by column 0 and above by column 1 of q_flexibility - the columns in_area compares with
 SAT-DISC   apparent-power saturation: rows selected by p^2 + q^2 > s^2 with s = saturate_sn_mva / sn_mva; the prioritised
            quantity is clipped into [-s, s] ([0, s] for p), the other one is then sqrt(s^2 - clipped^2), computed after the clip
 SAT-ORDER  _determine_target_powers saturates after _step_p/_step_q and before the conversion with sn_mva, whenever a
            saturation or an area is configured; the area clamp precedes the apparent-power saturation
 SAT-WRITE  control_step takes the targets and write_to_net stores p_mw / q_mvar at the controller's own element rows
"""
import ast

from ppsa.astutil import norm, dotted, names_in, inline_locals
from ppsa.selftest import Variant, replace_once, in_function

DC = "pandapower.control.controller.DERController.der_control"
PA = "pandapower.control.controller.DERController.PQVAreas"
PQ = "pandapower.control.controller.pq_control"
VECS = {"p_pu", "q_pu", "vm_pu", "sat_s_pu"}


def _mask_txt(sub):
    return norm(sub.slice, 60).replace(" ", "").strip("()")


def _masked_reads(expr):
    """[(vector name, mask text)] for every VEC[mask] in expr"""
    out = []
    for n in ast.walk(expr):
        if isinstance(n, ast.Subscript) and isinstance(n.value, ast.Name) and n.value.id in VECS:
            out.append((n.value.id, _mask_txt(n)))
    return out


def rule_mask(ctx, fs):
    R = "SAT-MASK"
    ctx.rule(R, "a masked assignment VEC[m] = f(...) in the saturation functions reads p_pu, q_pu, vm_pu, sat_s_pu with the same "
                "mask m (directly or through a local computed for the rows m)")
    n = 0
    for fi in fs:
        asg = {}
        for st in ast.walk(fi.node):
            if isinstance(st, ast.Assign) and len(st.targets) == 1 and isinstance(st.targets[0], ast.Name):
                asg.setdefault(st.targets[0].id, []).append(st.value)
        for st in ast.walk(fi.node):
            if not (isinstance(st, ast.Assign) and isinstance(st.targets[0], ast.Subscript) and isinstance(st.targets[0].value, ast.Name)
                    and st.targets[0].value.id in VECS):
                continue
            m = _mask_txt(st.targets[0])
            value = inline_locals(fi.node, st.value, keep=tuple(VECS | {"in_area", "to_saturate"}))
            reads = _masked_reads(value)
            # locals used in the value (e.g. min_max_q_pu) must be computed from the same rows
            for nm in names_in(st.value):
                for v in asg.get(nm, []):
                    reads += _masked_reads(v)
            bad = sorted({f"{v}[{mm}]" for v, mm in reads if mm != m})
            # unmasked use of a per-element vector inside a masked assignment
            unmasked = []
            subs = {id(x.value) for x in ast.walk(value) if isinstance(x, ast.Subscript)}
            for x in ast.walk(value):
                if isinstance(x, ast.Name) and x.id in VECS and id(x) not in subs:
                    unmasked.append(x.id)
            n += 1
            ok = not bad and not unmasked and bool(reads)
            ctx.ob(R, f"{DC}::{fi.qualname}::{st.targets[0].value.id}[{m}]#{n}", ok,
                   f"{norm(st.targets[0], 40)} reads {sorted(set(reads))}" if ok else
                   f"`{norm(st, 110)}` assigns the rows [{m}] but reads {bad or unmasked}: values of other elements are used "
                   "(or the shapes only agree by accident)", fi.loc(st))
    if n < 4:
        ctx.fail(f"SAT-MASK: only {n} masked assignments found in the saturation functions (confirmed: 5)")


def rule_clamp(ctx):
    R = "SAT-CLAMP"
    ctx.rule(R, "q is clamped from below with column 0 and from above with column 1 of q_flexibility (np.minimum(np.maximum(q, lo), "
                "hi) or clip), the same columns BaseArea.in_area compares q with")
    fi = ctx.repo.func(f"{DC}:DERController._saturate")
    found = 0
    for st in ast.walk(fi.node):
        if isinstance(st, ast.Assign) and isinstance(st.targets[0], ast.Subscript) and isinstance(st.targets[0].value, ast.Name) \
                and st.targets[0].value.id == "q_pu":
            found += 1
            v = st.value
            lo = hi = None
            if isinstance(v, ast.Call) and (dotted(v.func) or "").endswith("minimum") and len(v.args) == 2:
                inner, hi = v.args
                if isinstance(inner, ast.Call) and (dotted(inner.func) or "").endswith("maximum") and len(inner.args) == 2:
                    lo = inner.args[1]
            elif isinstance(v, ast.Call) and (dotted(v.func) or "").endswith("maximum") and len(v.args) == 2:
                inner, lo = v.args
                if isinstance(inner, ast.Call) and (dotted(inner.func) or "").endswith("minimum") and len(inner.args) == 2:
                    hi = inner.args[1]
            elif isinstance(v, ast.Call) and (dotted(v.func) or "").endswith("clip") and len(v.args) == 3:
                lo, hi = v.args[1], v.args[2]
            col = lambda e: norm(e.slice, 20).replace(" ", "").strip("()") if isinstance(e, ast.Subscript) else None
            ok = lo is not None and hi is not None and col(lo) == ":,0" and col(hi) == ":,1"
            ctx.ob(R, f"{DC}::DERController._saturate::q-clamp", ok,
                   "q clamped into [flex[:,0], flex[:,1]]" if ok else f"`{norm(st, 120)}`: lower / upper bound columns are not (0, 1)", fi.loc(st))
    if not found:
        ctx.fail("_saturate: clamp of q_pu not found")
    # the clamp runs as soon as ANY element is outside its area
    g = next((n for n in ast.walk(fi.node) if isinstance(n, ast.If) and "in_area" in norm(n.test, 60) and any(isinstance(x, ast.Assign) and "q_pu" in norm(x.targets[0], 30) for x in ast.walk(n))), None)
    t = norm(g.test, 60).replace(" ", "") if g is not None else ""
    ok = t in ("notall(in_area)", "notnp.all(in_area)", "any(~in_area)", "np.any(~in_area)", "(~in_area).any()", "notin_area.all()")
    ctx.ob(R, f"{DC}::DERController._saturate::clamp-guard", ok,
           f"clamp entered when `{t}`" if ok else f"clamp entered only when `{t}`: with some elements inside and some outside the area the outside ones are "
           "not clamped", fi.loc(g) if g is not None else fi.loc())
    fa = ctx.repo.func(f"{PA}:BaseArea.in_area")
    rt = [n for n in ast.walk(fa.node) if isinstance(n, ast.Return)]
    t = norm(rt[0].value, 120).replace(" ", "") if rt else ""
    ok = "min_max_q[:,0]<=q_pu" in t and "min_max_q[:,1]>=q_pu" in t
    ctx.ob(R, f"{PA}::BaseArea.in_area::columns", ok, f"in_area = {t}", fa.loc())


def rule_disc(ctx):
    R = "SAT-DISC"
    ctx.rule(R, "_saturate_sn_mva_step: s = saturate_sn_mva / sn_mva; rows with p^2+q^2 > s^2; in each priority branch the prioritised "
                "quantity is clipped with bounds +-s (p: [0, s]) and the other is sqrt(s^2 - clipped^2), assigned after the clip")
    fi = ctx.repo.func(f"{DC}:DERController._saturate_sn_mva_step")
    asg = {}
    for st in ast.walk(fi.node):
        if isinstance(st, ast.Assign) and len(st.targets) == 1 and isinstance(st.targets[0], ast.Name):
            asg[st.targets[0].id] = st
    s = asg.get("sat_s_pu")
    ok = s is not None and norm(s.value, 80).replace(" ", "") == "self.saturate_sn_mva/self.sn_mva"
    ctx.ob(R, f"{DC}::DERController._saturate_sn_mva_step::relative-limit", ok, f"sat_s_pu = {norm(s.value, 60) if s else '?'}", fi.loc())
    t = asg.get("to_saturate")
    tt = norm(t.value, 80).replace(" ", "") if t else ""
    ok = tt in ("p_pu**2+q_pu**2>sat_s_pu**2", "q_pu**2+p_pu**2>sat_s_pu**2", "sat_s_pu**2<p_pu**2+q_pu**2")
    ctx.ob(R, f"{DC}::DERController._saturate_sn_mva_step::selection", ok, f"to_saturate = {tt}", fi.loc())
    # single exit: every element is saturated on its own limit, no early return for the whole controller
    rets = [n for n in ast.walk(fi.node) if isinstance(n, ast.Return)]
    ok = len(rets) == 1 and rets[0] is fi.node.body[-1]
    ctx.ob(R, f"{DC}::DERController._saturate_sn_mva_step::single-exit", ok,
           "one return, after the per-element selection" if ok else
           f"early `{norm(rets[0], 40)}` at line {rets[0].lineno}: a condition on some elements (e.g. one NaN limit) switches the saturation off for all",
           fi.loc(rets[0]) if rets else fi.loc())
    # the priority branches
    prio = [n for n in ast.walk(fi.node) if isinstance(n, ast.If) and norm(n.test, 30) == "self.q_prio"]
    if not prio:
        ctx.fail("_saturate_sn_mva_step: `if self.q_prio` not found")
    for name, body, first, second in (("q-priority", prio[0].body, "q_pu", "p_pu"), ("p-priority", prio[0].orelse, "p_pu", "q_pu")):
        stores = [st for st in body if isinstance(st, ast.Assign) and isinstance(st.targets[0], ast.Subscript)
                  and isinstance(st.targets[0].value, ast.Name)]
        a = [st for st in stores if st.targets[0].value.id == first]
        b = [st for st in stores if st.targets[0].value.id == second]
        ok = False
        why = "clip / sqrt pair not found"
        if a and b:
            ca, cb = a[0], b[0]
            inl = lambda e: inline_locals(fi.node, e, keep=("sat_s_pu", "to_saturate"))
            va = inl(ca.value)
            clip_ok = isinstance(va, ast.Call) and (dotted(va.func) or "").endswith("clip") and len(va.args) == 3 \
                and isinstance(va.args[0], ast.Subscript) and getattr(va.args[0].value, "id", None) == first
            if clip_ok:
                lo, hi = norm(va.args[1], 40).replace(" ", ""), norm(va.args[2], 40).replace(" ", "")
                clip_ok = hi == "sat_s_pu[to_saturate]" and lo in (("-sat_s_pu[to_saturate]",) if first == "q_pu" else ("0.", "0", "0.0"))
            vb = norm(inl(cb.value), 160).replace(" ", "")
            root_ok = vb.startswith(f"np.sqrt(sat_s_pu[to_saturate]**2-{first}[to_saturate]**2)")
            if second == "q_pu":
                root_ok = root_ok and "np.sign(q_pu[to_saturate])" in vb
            order_ok = ca.lineno < cb.lineno
            ok = clip_ok and root_ok and order_ok
            why = f"{norm(ca, 90)} ; {norm(cb, 110)}" + ("" if order_ok else " (root before clip)")
        ctx.ob(R, f"{DC}::DERController._saturate_sn_mva_step::{name}", ok, why, fi.loc(a[0]) if a else fi.loc())


def rule_order(ctx):
    R = "SAT-ORDER"
    ctx.rule(R, "_determine_target_powers: _step_p, _step_q, then _saturate under `saturate_sn_mva_activated or pqv_area is not None`, "
                "then multiplication with sn_mva; _saturate: area clamp before the apparent-power step, whose result is returned")
    fi = ctx.repo.func(f"{DC}:DERController._determine_target_powers")
    line = {}
    guard = None
    for n in ast.walk(fi.node):
        if isinstance(n, ast.Call) and isinstance(n.func, ast.Attribute) and n.func.attr in ("_step_p", "_step_q", "_saturate"):
            line[n.func.attr] = n.lineno
        if isinstance(n, ast.If) and any(isinstance(x, ast.Call) and isinstance(x.func, ast.Attribute) and x.func.attr == "_saturate"
                                         for s in n.body for x in ast.walk(s)):
            guard = n
    conv = [st for st in ast.walk(fi.node) if isinstance(st, ast.Assign) and "self.sn_mva" in ast.unparse(st.value)
            and isinstance(st.targets[0], ast.Tuple)]
    ok = set(line) == {"_step_p", "_step_q", "_saturate"} and line["_step_p"] < line["_saturate"] and line["_step_q"] < line["_saturate"] \
        and bool(conv) and conv[0].lineno > line["_saturate"]
    ctx.ob(R, f"{DC}::DERController._determine_target_powers::sequence", ok, f"lines {line}, conversion at {conv[0].lineno if conv else '?'}", fi.loc())
    gt = norm(guard.test, 120).replace(" ", "") if guard is not None else ""
    ok = guard is not None and "self.saturate_sn_mva_activated" in gt and "self.pqv_areaisnotNone" in gt and isinstance(guard.test, ast.BoolOp) \
        and isinstance(guard.test.op, ast.Or)
    ctx.ob(R, f"{DC}::DERController._determine_target_powers::guard", ok, f"guard `{gt}`", fi.loc(guard) if guard is not None else fi.loc())
    if conv:
        v = norm(conv[0].value, 80).replace(" ", "")
        ctx.ob(R, f"{DC}::DERController._determine_target_powers::conversion", v == "(p_pu*self.sn_mva,q_pu*self.sn_mva)", f"targets = {v}", fi.loc(conv[0]))
    fs = ctx.repo.func(f"{DC}:DERController._saturate")
    area = [n for n in fs.node.body if isinstance(n, ast.If) and "pqv_area" in norm(n.test, 60)]
    snm = [n for n in fs.node.body if isinstance(n, ast.If) and "saturate_sn_mva_activated" in norm(n.test, 60)]
    ok = bool(area) and bool(snm) and area[0].lineno < snm[0].lineno
    if ok:
        st = snm[0].body[0]
        ok = isinstance(st, ast.Assign) and norm(st.targets[0], 30).replace(" ", "") in ("(p_pu,q_pu)", "p_pu,q_pu") and "_saturate_sn_mva_step" in ast.unparse(st.value)
        ret = [n for n in fs.node.body if isinstance(n, ast.Return)]
        ok = ok and bool(ret) and norm(ret[-1].value, 30).replace(" ", "") in ("(p_pu,q_pu)", "p_pu,q_pu")
    ctx.ob(R, f"{DC}::DERController._saturate::area-then-sn", ok, "area clamp, then apparent-power saturation, result returned", fs.loc())


def rule_write(ctx):
    R = "SAT-WRITE"
    ctx.rule(R, "control_step assigns (p_mw, q_mvar) = (target_p_mw, target_q_mvar) and calls write_to_net, which stores p_mw and q_mvar "
                "in the columns of the same name at .loc[self.element_index]")
    fi = ctx.repo.func(f"{DC}:DERController.control_step")
    txt = [norm(st, 120).replace(" ", "") for st in fi.node.body]
    ok = any(t.replace("(", "").replace(")", "") == "self.p_mw,self.q_mvar=self.target_p_mw,self.target_q_mvar" for t in txt) \
        and txt[-1] == "self.write_to_net(net)"
    ctx.ob(R, f"{DC}::DERController.control_step::take-targets", ok, "; ".join(txt[-2:]), fi.loc())
    fw = ctx.repo.func(f"{PQ}:PQController.write_to_net")
    n = 0
    for st in fw.node.body:
        if isinstance(st, ast.Assign) and isinstance(st.targets[0], ast.Subscript):
            t = norm(st.targets[0], 100).replace(" ", "").replace('"', "'")
            v = norm(st.value, 40)
            for col, attr in (("p_mw", "self.p_mw"), ("q_mvar", "self.q_mvar")):
                if f"'{col}'" in t:
                    n += 1
                    ctx.ob(R, f"{PQ}::PQController.write_to_net::{col}", t == f"net[self.element].loc[self.element_index,'{col}']" and v == attr,
                           f"{t} = {v}", fw.loc(st))
    if n < 2:
        ctx.fail("write_to_net: stores of p_mw / q_mvar not found")


def rule_prio_and_inputs(ctx):
    R = "SAT-PRIO"
    ctx.rule(R, "_saturate_sn_mva_step limits BOTH quantities in both priority modes: the prioritised one is clipped to the apparent "
                "power limit, the other one gets the remaining room - if the clip of the prioritised quantity is missing, p (or q) alone "
                "may exceed saturate_sn_mva")
    fi = ctx.repo.func(f"{DC}:DERController._saturate_sn_mva_step")
    pr = next((n for n in ast.walk(fi.node) if isinstance(n, ast.If) and "q_prio" in norm(n.test, 40)), None)
    if pr is None:
        ctx.fail("_saturate_sn_mva_step: priority distinction not found")
    for label, body in (("q-priority", pr.body), ("p-priority", pr.orelse)):
        assigned = []
        for st in body:
            for x in ast.walk(st):
                if isinstance(x, ast.Assign) and isinstance(x.targets[0], ast.Subscript) and isinstance(x.targets[0].value, ast.Name):
                    assigned.append((x.targets[0].value.id, x))
        names = [a for a, _ in assigned]
        first = assigned[0] if assigned else None
        want_first = "q_pu" if label == "q-priority" else "p_pu"
        clipped = first is not None and first[0] == want_first and any(
            isinstance(c, ast.Call) and (dotted(c.func) or "").split(".")[-1] in ("clip", "minimum", "maximum") and "sat_s_pu" in norm(c, 200)
            for c in ast.walk(inline_locals(fi.node, first[1].value, keep=("p_pu", "q_pu", "to_saturate", "sat_s_pu"))))
        ok = {"p_pu", "q_pu"} <= set(names) and clipped
        ctx.ob(R, f"{DC}::DERController._saturate_sn_mva_step::{label}", ok,
               f"{want_first} clipped to sat_s, the other quantity takes the rest" if ok else
               f"the {label} branch assigns {names or 'nothing'}" + ("" if clipped else f" and does not clip {want_first} to sat_s_pu first") +
               f": {want_first} alone can exceed the apparent power limit", fi.loc(pr))
    R2 = "AREA-INPUTS"
    ctx.rule(R2, "every point list / limit passed to the constructor of a capability area (PQVAreas) is used by it: a parameter that is "
                 "accepted and never read means the area is built from another parameter's data; the bus voltage of each DER is looked "
                 "up by bus label (.loc / .reindex), never by using the labels as positions")
    n = 0
    m = ctx.repo.module(PA)
    for ci in m.classes.values():
        init = ci.methods.get("__init__")
        if init is None:
            continue
        params = [a.arg for a in init.node.args.args[1:] + init.node.args.kwonlyargs]
        used = {x.id for x in ast.walk(init.node) if isinstance(x, ast.Name) and isinstance(x.ctx, ast.Load)}
        forwards_all = init.node.args.kwarg is not None and any(isinstance(x, ast.keyword) and x.arg is None for x in ast.walk(init.node))
        for prm in params:
            n += 1
            ok = prm in used
            ctx.ob(R2, f"{PA}::{ci.name}.__init__::{prm}", ok, f"parameter {prm} is used" if ok else
                   f"{ci.name}.__init__ accepts `{prm}` but never reads it: the area is built without (or from other) data, so the "
                   "declared limits are not the enforced ones", init.loc())
    if n < 15:
        ctx.fail(f"AREA-INPUTS: only {n} constructor parameters found in PQVAreas (confirmed: 20+)")
    fd = ctx.repo.func(f"{DC}:DERController._determine_target_powers")
    vm = [st for st in ast.walk(fd.node) if isinstance(st, ast.Assign) and norm(st.targets[0], 20) == "vm_pu"]
    if not vm:
        ctx.fail("_determine_target_powers: vm_pu assignment not found")
    for st in vm:
        positional = [x for x in ast.walk(st.value) if isinstance(x, ast.Subscript) and (
            (isinstance(x.value, ast.Attribute) and x.value.attr in ("values", "iloc", "iat", "array")) or
            (isinstance(x.value, ast.Call) and isinstance(x.value.func, ast.Attribute) and x.value.func.attr == "to_numpy"))
            and "bus" in norm(x.slice, 80)]
        by_label = any(isinstance(x, ast.Subscript) and isinstance(x.value, ast.Attribute) and x.value.attr in ("loc", "at") and "bus" in norm(x.slice, 80)
                       for x in ast.walk(st.value)) or ".reindex(" in norm(st.value, 200)
        ok = by_label and not positional
        ctx.ob(R2, f"{DC}::DERController._determine_target_powers::vm-lookup", ok,
               "bus voltages are looked up by bus label" if ok else
               f"`{norm(st, 110)}` uses bus labels as row positions: with a bus index that is not 0..n-1 each DER is limited for the voltage "
               "of another bus", fd.loc(st))


def run(ctx):
    ctx.assume("decides the structure of the saturation of the target (masks, bounds, order, write-back); containment in run-time "
               "capability polygons and the effect of the damping factor on intermediate steps are not decided")
    fs = [ctx.repo.func(f"{DC}:DERController._saturate"), ctx.repo.func(f"{DC}:DERController._saturate_sn_mva_step")]
    rule_prio_and_inputs(ctx)
    rule_mask(ctx, fs)
    rule_clamp(ctx)
    rule_disc(ctx)
    rule_order(ctx)
    rule_write(ctx)


def variants(repo):
    p = "pandapower/control/controller/DERController/der_control.py"
    pa = "pandapower/control/controller/DERController/PQVAreas.py"
    pq = "pandapower/control/controller/pq_control.py"
    V = Variant
    return [
        V("area clamp only when no element is inside", p, replace_once("if not all(in_area):", "if not any(in_area):"), "clamp-guard"),
        V("saturation switched off by one NaN limit", p, replace_once("        to_saturate = p_pu ** 2 + q_pu ** 2 > sat_s_pu ** 2\n", "        if sat_s_pu.isnull().any():\n            return p_pu, q_pu\n        to_saturate = p_pu ** 2 + q_pu ** 2 > sat_s_pu ** 2\n"), "single-exit"),
        V("p-priority without the clip of p", p, replace_once("                p_pu[to_saturate] = np.clip(p_pu[to_saturate], 0., sat_s_pu[to_saturate])\n", ""), "SAT-PRIO"),
        V("QV polygon built from the PQ list", pa, replace_once("self.qv_area = QVAreaPOLYGON(q_qv_points_pu, vm_points_pu)", "self.qv_area = QVAreaPOLYGON(q_pq_points_pu, vm_points_pu)"), "AREA-INPUTS"),
        V("bus voltage by position", p, replace_once('vm_pu = net.res_bus.loc[self.bus, "vm_pu"].set_axis(self.element_index)', 'vm_pu = pd.Series(net.res_bus["vm_pu"].values[self.bus.values], index=self.element_index)'), "vm-lookup"),
        V("flexibility for all rows", p, replace_once("p_pu=p_pu[~in_area], vm_pu=vm_pu[~in_area])", "p_pu=p_pu[~in_area], vm_pu=vm_pu[in_area])"), "SAT-MASK"),
        V("q clipped with limits of all rows", p, replace_once("q_pu[to_saturate] = np.clip(q_pu[to_saturate], -sat_s_pu[to_saturate],", "q_pu[to_saturate] = np.clip(q_pu[to_saturate], -sat_s_pu,"), "SAT-MASK"),
        V("clamp columns swapped", p, replace_once("q_pu[~in_area], min_max_q_pu[:, 0]), min_max_q_pu[:, 1])", "q_pu[~in_area], min_max_q_pu[:, 1]), min_max_q_pu[:, 0])"), "q-clamp"),
        V("limit not relative", p, replace_once("sat_s_pu = self.saturate_sn_mva / self.sn_mva", "sat_s_pu = self.saturate_sn_mva"), "relative-limit"),
        V("selection without squares", p, replace_once("to_saturate = p_pu ** 2 + q_pu ** 2 > sat_s_pu ** 2", "to_saturate = p_pu + q_pu > sat_s_pu"), "selection"),
        V("p from unclipped q", p, replace_once("                q_pu[to_saturate] = np.clip(q_pu[to_saturate], -sat_s_pu[to_saturate],\n                                            sat_s_pu[to_saturate])\n                p_pu[to_saturate] = np.sqrt(sat_s_pu[to_saturate] ** 2 - q_pu[to_saturate] ** 2)\n",
                                                 "                p_pu[to_saturate] = np.sqrt(sat_s_pu[to_saturate] ** 2 - q_pu[to_saturate] ** 2)\n                q_pu[to_saturate] = np.clip(q_pu[to_saturate], -sat_s_pu[to_saturate],\n                                            sat_s_pu[to_saturate])\n"), "q-priority"),
        V("p clip lower bound", p, replace_once("np.clip(p_pu[to_saturate], 0., sat_s_pu[to_saturate])", "np.clip(p_pu[to_saturate], -sat_s_pu[to_saturate], 1.)"), "p-priority"),
        V("saturation only with area", p, replace_once("if self.saturate_sn_mva_activated or (self.pqv_area is not None):", "if self.saturate_sn_mva_activated and (self.pqv_area is not None):"), "_determine_target_powers::guard"),
        V("area clamp after sn saturation", p, in_function("_saturate", lambda s: s.replace("        if self.saturate_sn_mva_activated:\n            p_pu, q_pu = self._saturate_sn_mva_step(p_pu, q_pu, vm_pu)\n", "").replace("        # Saturation on given pqv_area\n", "        if self.saturate_sn_mva_activated:\n            p_pu, q_pu = self._saturate_sn_mva_step(p_pu, q_pu, vm_pu)\n        # Saturation on given pqv_area\n")), "area-then-sn"),
        V("write q into p column", pq, in_function("write_to_net", replace_once('net[self.element].loc[self.element_index, "q_mvar"] = self.q_mvar', 'net[self.element].loc[self.element_index, "p_mw"] = self.q_mvar')), "write_to_net"),
        V("in_area bounds swapped", pa, replace_once("return (min_max_q[:, 0] <= q_pu) & (min_max_q[:, 1] >= q_pu)", "return (min_max_q[:, 1] <= q_pu) & (min_max_q[:, 0] >= q_pu)"), "in_area::columns"),
        V("twin: limit of the rows in a local", p, replace_once("                q_pu[to_saturate] = np.clip(q_pu[to_saturate], -sat_s_pu[to_saturate],\n                                            sat_s_pu[to_saturate])\n                p_pu[to_saturate] = np.sqrt(sat_s_pu[to_saturate] ** 2 - q_pu[to_saturate] ** 2)\n",
                                                             "                s_lim = sat_s_pu[to_saturate]\n                q_pu[to_saturate] = np.clip(q_pu[to_saturate], -s_lim, s_lim)\n                p_pu[to_saturate] = np.sqrt(s_lim ** 2 - q_pu[to_saturate] ** 2)\n"), None),
        V("twin: clamp via np.clip", p, replace_once("q_pu[~in_area] = np.minimum(np.maximum(\n                    q_pu[~in_area], min_max_q_pu[:, 0]), min_max_q_pu[:, 1])", "q_pu[~in_area] = np.clip(q_pu[~in_area], min_max_q_pu[:, 0], min_max_q_pu[:, 1])"), None),
    ]
