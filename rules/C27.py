"""C27 - groups behave as sets: cascade clauses (shared with C22).

Decided:
 * CASCADE-GROUP   every raw row drop of an element table in toolbox/grid_modification.py is preceded
                   by detach_from_groups / _replace_group_member_element_type (same rule as C22 CASCADE)
 * REINDEX-GROUP   reindex_buses and reindex_elements rewrite group.element_index for the groups of
                   that element type whose reference_column is null
 * EMPTY-GROUP     detach_from_groups removes a group row exactly when its member list became empty
                   (keep[i] = False is control-dependent on len(members) == 0 only) and writes back
                   net.group = net.group.loc[keep]
Not decided: equality with a set model over operation histories.
"""
import ast

from ppsa.astutil import norm
from ppsa.report import Ctx
from ppsa.selftest import Variant, replace_once, in_function
import rules.C22 as c22

DM = "pandapower.toolbox.data_modification"
G = "pandapower.groups"


def run(ctx):
    ctx.assume("decides the cascade structure that keeps group membership consistent with element tables, not the "
               "set semantics over arbitrary operation sequences")
    # shared cascade rule, re-keyed for this property
    sub = Ctx("C27", ctx.repo, ctx.tier)
    c22.rule_cascade(sub)
    R = "CASCADE-GROUP"
    ctx.rule(R, sub.rules["CASCADE"])
    for o in sub.obligations:
        ok = o.ok or "without detach_from_groups" not in o.what
        ctx.ob(R, o.key.split("::", 1)[1], ok, o.what, o.loc)
    ctx.require_min(R, 12)

    R2 = "REINDEX-GROUP"
    ctx.rule(R2, "re-indexing functions rewrite net.group element_index through the same lookup, restricted to "
                 "groups of the re-indexed element type with a null reference_column")
    for fn, et_expr in (("reindex_buses", "'bus'"), ("reindex_elements", "element_type")):
        fi = ctx.repo.func(f"{DM}:{fn}")
        found = None
        for n in ast.walk(fi.node):
            if isinstance(n, ast.For) and "net.group" in ast.unparse(n.iter):
                found = n
        ok = False
        why = "no loop over net.group rows"
        if found is not None:
            it = ast.unparse(found.iter).replace('"', "'")
            body = ast.unparse(found)
            ok = (f"net.group.element_type == {et_expr}" in it and "reference_column.isnull()" in it
                  and "element_index" in body and "get_indices" in body and ("lookup" in body))
            why = "loop over groups of the element type with null reference_column, rewriting element_index through the lookup" if ok else \
                  f"group loop does not select by element type / null reference column or does not rewrite element_index: {norm(found.iter, 100)}"
        ctx.ob(R2, f"{DM}::{fn}::group", ok, why, fi.loc(found) if found is not None else fi.loc())

    R3 = "EMPTY-GROUP"
    ctx.rule(R3, "detach_from_groups: a group row is removed iff its member list is empty after the detach")
    fi = ctx.repo.func(f"{G}:detach_from_groups")
    flagged = [n for n in ast.walk(fi.node) if isinstance(n, ast.If) and any(
        isinstance(s, ast.Assign) and "keep[" in ast.unparse(s.targets[0]) and isinstance(s.value, ast.Constant) and s.value.value is False
        for s in n.body)]
    ok = len(flagged) == 1 and norm(flagged[0].test).replace(" ", "") in (
        "notlen(net.group.element_index.iat[i])", "len(net.group.element_index.iat[i])==0")
    ctx.ob(R3, f"{G}::detach_from_groups::keep-false", ok,
           "keep[i] = False exactly under 'member list empty'" if ok else
           f"group removal condition is {[norm(f.test, 80) for f in flagged]}", fi.loc(flagged[0]) if flagged else fi.loc())
    wb = any(isinstance(n, ast.Assign) and ast.unparse(n.targets[0]) == "net.group" and "keep" in ast.unparse(n.value)
             for n in ast.walk(fi.node))
    ctx.ob(R3, f"{G}::detach_from_groups::write-back", wb, "net.group is filtered with the keep mask", fi.loc())
    init_true = any(isinstance(n, ast.Assign) and ast.unparse(n.targets[0]) == "keep" and "ones" in ast.unparse(n.value)
                    for n in ast.walk(fi.node))
    ctx.ob(R3, f"{G}::detach_from_groups::keep-init", init_true, "keep mask initialised all True (other groups unaffected)", fi.loc())
    # the difference is taken with the passed element_index, restricted to the same element type
    tc = [n for n in ast.walk(fi.node) if isinstance(n, ast.AugAssign) and ast.unparse(n.target) == "to_check"]
    ok = any("net.group.element_type.values == element_type" in ast.unparse(n.value) for n in tc)
    ctx.ob(R3, f"{G}::detach_from_groups::type-filter", ok, "only groups of the same element type are touched", fi.loc())


def variants(repo):
    g = "pandapower/groups.py"
    dm = "pandapower/toolbox/data_modification.py"
    gm = "pandapower/toolbox/grid_modification.py"
    V = Variant
    return [
        V("empty group kept", g, in_function("detach_from_groups", replace_once("        if not len(net.group.element_index.iat[i]):\n            keep[i] = False\n", "        if len(net.group.element_index.iat[i]) > 1:\n            keep[i] = False\n")), "EMPTY-GROUP"),
        V("type filter lost", g, in_function("detach_from_groups", replace_once("    to_check &= net.group.element_type.values == element_type\n", "")), "type-filter"),
        V("reindex ignores groups of reference column", dm, in_function("reindex_elements", replace_once("net.group.reference_column.isnull().values]:", "net.group.reference_column.notnull().values]:")), "REINDEX-GROUP"),
        V("drop_trafos forgets groups", gm, in_function("drop_trafos", replace_once("    detach_from_groups(net, table, trafos)\n", "")), "CASCADE-GROUP"),
    ]
