"""C27 - groups behave as sets: cascade clauses (shared with C22).

Decided:
 * CASCADE-GROUP   every raw row drop of an element table in toolbox/grid_modification.py is preceded
                   by detach_from_groups / _replace_group_member_element_type (same rule as C22 CASCADE)
 * REINDEX-GROUP   reindex_buses and reindex_elements rewrite group.element_index for the groups of
                   that element type whose reference_column is null
 * EMPTY-GROUP     detach_from_groups removes a group row exactly when its member list became empty
                   (keep[i] = False is control-dependent on len(members) == 0 only) and writes back
                   net.group = net.group.loc[keep]
Not decided: equality with a set model over operation histories.
"""
import ast

from ppsa.astutil import norm, dotted
from ppsa.report import Ctx
from ppsa.selftest import Variant, replace_once, in_function
import rules.C22 as c22

DM = "pandapower.toolbox.data_modification"
G = "pandapower.groups"


def run(ctx):
    ctx.assume("decides the cascade structure that keeps group membership consistent with element tables, not the "
               "set semantics over arbitrary operation sequences")
    # shared cascade rule, re-keyed for this property
    sub = Ctx("C27", ctx.repo, ctx.tier)
    c22.rule_cascade(sub)
    R = "CASCADE-GROUP"
    ctx.rule(R, sub.rules["CASCADE"])
    for o in sub.obligations:
        ok = o.ok or "without detach_from_groups" not in o.what
        ctx.ob(R, o.key.split("::", 1)[1], ok, o.what, o.loc)
    ctx.require_min(R, 12)

    from rules import _lints
    RZ = "ZIP-ALIGN"
    ctx.rule(RZ, "the parallel lists of a group (element types, member indices, reference columns) are iterated pairwise as returned by "
                 "group_element_lists: none of them is filtered or re-bound on its own before zip(); set_value_to_group iterates "
                 "zip(*group_element_lists(...)) or jointly unpacked, untouched lists")
    _lints.zip_alignment(ctx, RZ, list(ctx.repo.module(G).functions.values()), minimum=1)
    fsv = ctx.repo.func(f"{G}:set_value_to_group")
    loops = [n for n in ast.walk(fsv.node) if isinstance(n, ast.For) and "zip(" in ast.unparse(n.iter)]
    ctx.ob(RZ, f"{G}::set_value_to_group::loop", bool(loops), f"iterates {ast.unparse(loops[0].iter)[:70] if loops else '?'}", fsv.loc())
    RU = "REF-UNIQUE"
    ctx.rule(RU, "set_group_reference_column refuses a reference column that has duplicated or missing values anywhere in the element table "
                 "(a non-member sharing a member's value would become a member): the test is evaluated on the whole column")
    fr = ctx.repo.func(f"{G}:set_group_reference_column")
    tests = [n for n in ast.walk(fr.node) if isinstance(n, ast.If) and ".duplicated()" in ast.unparse(n.test)]
    if not tests:
        ctx.fail("set_group_reference_column: duplicate test not found")
    tt = ast.unparse(tests[0].test).replace(" ", "")
    ok = "net[et][reference_column].duplicated()" in tt and "net[et][reference_column].isnull()" in tt
    ctx.ob(RU, f"{G}::set_group_reference_column::whole-column", ok, f"`{tt[:100]}`" if ok else
           f"`{tt[:100]}` does not test the whole column net[et][reference_column]", fr.loc(tests[0]))
    R2 = "REINDEX-GROUP"
    ctx.rule(R2, "re-indexing functions rewrite net.group element_index through the same lookup, restricted to "
                 "groups of the re-indexed element type with a null reference_column")
    for fn, et_expr in (("reindex_buses", "'bus'"), ("reindex_elements", "element_type")):
        fi = ctx.repo.func(f"{DM}:{fn}")
        found = None
        for n in ast.walk(fi.node):
            if isinstance(n, ast.For) and "net.group" in ast.unparse(n.iter):
                found = n
        ok = False
        why = "no loop over net.group rows"
        if found is not None:
            it = ast.unparse(found.iter).replace('"', "'")
            body = ast.unparse(found)
            ok = (f"net.group.element_type == {et_expr}" in it and "reference_column.isnull()" in it
                  and "element_index" in body and "get_indices" in body and ("lookup" in body))
            why = "loop over groups of the element type with null reference_column, rewriting element_index through the lookup" if ok else \
                  f"group loop does not select by element type / null reference column or does not rewrite element_index: {norm(found.iter, 100)}"
        ctx.ob(R2, f"{DM}::{fn}::group", ok, why, fi.loc(found) if found is not None else fi.loc())

    R3 = "EMPTY-GROUP"
    ctx.rule(R3, "detach_from_groups: a group row is removed iff its member list is empty after the detach")
    fi = ctx.repo.func(f"{G}:detach_from_groups")
    flagged = [n for n in ast.walk(fi.node) if isinstance(n, ast.If) and any(
        isinstance(s, ast.Assign) and "keep[" in ast.unparse(s.targets[0]) and isinstance(s.value, ast.Constant) and s.value.value is False
        for s in n.body)]
    ok = len(flagged) >= 1 and all(norm(f.test).replace(" ", "") in (
        "notlen(net.group.element_index.iat[i])", "len(net.group.element_index.iat[i])==0") for f in flagged)
    ctx.ob(R3, f"{G}::detach_from_groups::keep-false", ok,
           "keep[i] = False exactly under 'member list empty'" if ok else
           f"group removal condition is {[norm(f.test, 80) for f in flagged]}", fi.loc(flagged[0]) if flagged else fi.loc())
    # the emptiness test covers both kinds of groups: it is a statement of the loop over the groups, not of one branch of the
    # reference-column distinction
    loops = [n for n in ast.walk(fi.node) if isinstance(n, ast.For) and any(f in ast.walk(n) for f in flagged)]

    def covered(sts):
        return any(st in flagged for st in sts) or any(
            isinstance(st, ast.If) and st not in flagged and covered(st.body) and covered(st.orelse) for st in sts)
    scope_ok = bool(loops) and covered(loops[0].body)
    ctx.ob(R3, f"{G}::detach_from_groups::keep-scope", scope_ok,
           "the emptiness test runs for every touched group" if scope_ok else
           "the emptiness test " + (f"`{norm(flagged[0].test, 60)}` " if flagged else "") + "does not run on every path through the loop over "
           "the groups (it sits inside one branch of the index / reference-column distinction): groups of the other kind keep a row "
           "with an empty member list", fi.loc(flagged[0]) if flagged else fi.loc())
    wb = any(isinstance(n, ast.Assign) and ast.unparse(n.targets[0]) == "net.group" and "keep" in ast.unparse(n.value)
             for n in ast.walk(fi.node))
    ctx.ob(R3, f"{G}::detach_from_groups::write-back", wb, "net.group is filtered with the keep mask", fi.loc())
    init_true = any(isinstance(n, ast.Assign) and ast.unparse(n.targets[0]) == "keep" and "ones" in ast.unparse(n.value)
                    for n in ast.walk(fi.node))
    ctx.ob(R3, f"{G}::detach_from_groups::keep-init", init_true, "keep mask initialised all True (other groups unaffected)", fi.loc())
    # the difference is taken with the passed element_index, restricted to the same element type
    tc = [n for n in ast.walk(fi.node) if isinstance(n, ast.AugAssign) and ast.unparse(n.target) == "to_check"]
    ok = any("net.group.element_type.values == element_type" in ast.unparse(n.value) for n in tc)
    ctx.ob(R3, f"{G}::detach_from_groups::type-filter", ok, "only groups of the same element type are touched", fi.loc())
    rule_group_cells(ctx)
    rule_detach_drop(ctx)


def rule_group_cells(ctx):
    """the member lists live as list objects in the cells of net.group.element_index (rows of one group can share a list object):
    they are replaced, never mutated in place; and an index argument is tested with `is None` (group 0 is a valid index)"""
    from ppsa.astutil import names_in
    G = "pandapower.groups"
    R = "GROUP-CELL-ALIAS"
    ctx.rule(R, "a member list read from a cell of net.group (element_index) is never changed in place (+=, append, extend, remove, "
                "sort, item store): a new list is written back to the cell")
    MUT = {"append", "extend", "remove", "insert", "sort", "pop", "clear", "reverse"}
    n = 0
    for fi in ctx.repo.module(G).functions.values():
        cell = set()
        for st in ast.walk(fi.node):
            if isinstance(st, ast.Assign) and len(st.targets) == 1 and isinstance(st.targets[0], ast.Name):
                v = st.value
                t = ast.unparse(v)
                reads_cell = "element_index" in t and ("net.group" in t or "row" in names_in(v)) and not isinstance(v, (ast.Call, ast.ListComp, ast.List))
                if isinstance(v, ast.IfExp):
                    # x = [x] if scalar else list(x): fresh on both sides
                    reads_cell = False
                if reads_cell:
                    cell.add(st.targets[0].id)
        # a conditional copy (`elif not isinstance(x, list): x = list(x)`) leaves the list case aliased
        for st in ast.walk(fi.node):
            if isinstance(st, ast.Assign) and isinstance(st.targets[0], ast.Name) and st.targets[0].id in cell:
                pass
        for name in sorted(cell):
            n += 1
            muts = []
            copies_unconditional = False
            for st in fi.node.body if False else ast.walk(fi.node):
                if isinstance(st, ast.AugAssign) and isinstance(st.target, ast.Name) and st.target.id == name:
                    muts.append(st)
                if isinstance(st, ast.Call) and isinstance(st.func, ast.Attribute) and st.func.attr in MUT and isinstance(st.func.value, ast.Name) \
                        and st.func.value.id == name:
                    muts.append(st)
                if isinstance(st, ast.Assign) and isinstance(st.targets[0], ast.Subscript) and isinstance(st.targets[0].value, ast.Name) \
                        and st.targets[0].value.id == name:
                    muts.append(st)
            ctx.ob(R, f"{G}::{fi.qualname}::{name}", not muts,
                   f"{name} (a cell of net.group.element_index) is only read" if not muts else
                   f"`{ast.unparse(muts[0])[:80]}` changes the list object stored in the group table in place: every other row or caller that "
                   "holds the same list sees the new members", fi.loc(muts[0]) if muts else fi.loc())
    if n < 2:
        ctx.fail(f"GROUP-CELL-ALIAS: only {n} reads of member-list cells found in pandapower/groups.py")
    R2 = "INDEX-NONE-CHECK"
    ctx.rule(R2, "group functions test an optional index argument with `is None`: `not index` also catches the valid group index 0 (and "
                 "then acts on every group)")
    n2 = 0
    for fi in ctx.repo.module(G).functions.values():
        a = fi.node.args
        params = a.args + a.kwonlyargs
        defaults = [None] * (len(a.args) - len(a.defaults)) + list(a.defaults) + list(a.kw_defaults)
        opt = {p.arg for p, d in zip(params, defaults) if d is not None and isinstance(d, ast.Constant) and d.value is None
               and ("index" in p.arg)}
        for node in ast.walk(fi.node):
            if isinstance(node, (ast.If, ast.IfExp, ast.While)):
                for sub in ast.walk(node.test):
                    if isinstance(sub, ast.UnaryOp) and isinstance(sub.op, ast.Not) and isinstance(sub.operand, ast.Name) and sub.operand.id in opt:
                        n2 += 1
                        ctx.ob(R2, f"{G}::{fi.qualname}::{sub.operand.id}", False,
                               f"`not {sub.operand.id}` treats the group index 0 (and an empty selection) like 'no index given'", fi.loc(node))
                    if isinstance(sub, ast.Compare) and isinstance(sub.left, ast.Name) and sub.left.id in opt and isinstance(sub.ops[0], (ast.Is, ast.IsNot)):
                        n2 += 1
                        ctx.ob(R2, f"{G}::{fi.qualname}::{sub.left.id}", True, f"{sub.left.id} is tested with is None", fi.loc(node))
    if n2 < 2:
        ctx.fail(f"INDEX-NONE-CHECK: only {n2} tests of optional index arguments found")


def rule_detach_drop(ctx):
    R = "DETACH-DROP"
    ctx.rule(R, "where a drop function detaches rows of a table from the groups and then drops rows of that table, both use the same "
                "index expression: otherwise dropped elements stay members, or surviving elements with other indices lose membership")
    m = ctx.repo.module("pandapower.toolbox.grid_modification")
    n = 0
    for fi in m.functions.values():
        for blk in ast.walk(fi.node):
            for fld in ("body", "orelse"):
                sts = getattr(blk, fld, None)
                if not isinstance(sts, list):
                    continue
                for pos, st in enumerate(sts):
                    if not (isinstance(st, ast.Expr) and isinstance(st.value, ast.Call) and dotted(st.value.func) == "detach_from_groups"
                            and len(st.value.args) >= 3):
                        continue
                    tab, idx = norm(st.value.args[1]), norm(st.value.args[2])
                    for nx in sts[pos + 1:]:
                        drops = [c for c in ast.walk(nx) if isinstance(c, ast.Call) and isinstance(c.func, ast.Attribute) and c.func.attr == "drop"
                                 and norm(c.func.value) == f"net[{tab}]" and c.args]
                        if drops:
                            n += 1
                            got = norm(drops[0].args[0])
                            ctx.ob(R, f"{m.name}::{fi.qualname}::{tab}", got == idx,
                                   f"detach and drop of net[{tab}] use `{idx}`" if got == idx else
                                   f"detach_from_groups(net, {tab}, {idx}) but net[{tab}].drop({got}): group membership is removed for "
                                   f"`{idx}` while the rows `{got}` are dropped", fi.loc(st))
                            break
    if n < 6:
        ctx.fail(f"DETACH-DROP: only {n} detach/drop pairs found (confirmed: 7)")


def variants_r5(V):
    g = "pandapower/groups.py"
    t = "pandapower/toolbox/grid_modification.py"
    return [
        V("emptiness test only for index groups", g, replace_once("                    net[element_type].index)])).tolist()\n\n        if not len(net.group.element_index.iat[i]):\n            keep[i] = False\n", "                    net[element_type].index)])).tolist()\n"), "keep-false") ,
        V("emptiness test moved into the index branch", g, lambda s: s.replace("                element_index).tolist()\n        else:", "                element_index).tolist()\n            if not len(net.group.element_index.iat[i]):\n                keep[i] = False\n        else:", 1).replace("\n        if not len(net.group.element_index.iat[i]):\n            keep[i] = False\n    net.group = net.group.loc[keep]", "\n    net.group = net.group.loc[keep]", 1), "keep-scope"),
        V("drop_lines detaches the line indices from the switch groups", t, in_function("drop_lines", replace_once('detach_from_groups(net, "switch", i)', 'detach_from_groups(net, "switch", lines)')), "DETACH-DROP"),
    ]


def variants(repo):
    g = "pandapower/groups.py"
    dm = "pandapower/toolbox/data_modification.py"
    gm = "pandapower/toolbox/grid_modification.py"
    V = Variant
    return [
        V("type list filtered before zip", g, in_function("set_value_to_group", lambda s: s.replace("    for et, elm, rc in zip(*group_element_lists(net, index)):\n", "    ets, elms, rcs = group_element_lists(net, index)\n    if not append_column:\n        ets = [et for et in ets if column in net[et].columns]\n    for et, elm, rc in zip(ets, elms, rcs):\n", 1)), "ZIP-ALIGN"),
        V("uniqueness checked for members only", g, in_function("set_group_reference_column", lambda s: s.replace("            if (net[et][reference_column].duplicated() | net[et][reference_column].isnull()).any():", "            ref_values = net[et].loc[group_element_index(net, index, et), reference_column]\n            if (ref_values.duplicated() | ref_values.isnull()).any():", 1)), "REF-UNIQUE"),
        V("member list extended in place", g, in_function("attach_to_group", lambda s: s.replace("            prev_elm = [prev_elm] if isinstance(prev_elm, str) or not hasattr(\n                prev_elm, \"__iter__\") else list(prev_elm)\n", "            if isinstance(prev_elm, str) or not hasattr(prev_elm, \"__iter__\"):\n                prev_elm = [prev_elm]\n            prev_elm += list(pd.Index(elm).difference(pd.Index(prev_elm)))\n", 1)), "GROUP-CELL-ALIAS"),
        V("index 0 treated as no index", g, replace_once("    if index is None:", "    if not index:"), "INDEX-NONE-CHECK"),
        V("empty group kept", g, in_function("detach_from_groups", replace_once("        if not len(net.group.element_index.iat[i]):\n            keep[i] = False\n", "        if len(net.group.element_index.iat[i]) > 1:\n            keep[i] = False\n")), "EMPTY-GROUP"),
        V("type filter lost", g, in_function("detach_from_groups", replace_once("    to_check &= net.group.element_type.values == element_type\n", "")), "type-filter"),
        V("reindex ignores groups of reference column", dm, in_function("reindex_elements", replace_once("net.group.reference_column.isnull().values]:", "net.group.reference_column.notnull().values]:")), "REINDEX-GROUP"),
        V("drop_trafos forgets groups", gm, in_function("drop_trafos", replace_once("    detach_from_groups(net, table, trafos)\n", "")), "CASCADE-GROUP"),
    ] + variants_r5(V)
