"""C16 - OPF results are feasible: structural clauses.

Decided:
 * LIMIT-MAP: every declared constraint column is read on the OPF conversion path into the
   matching ppc limit column, with the sign-inverted, swapped pair for load-like elements
   (load, storage are internal generators with pg = -p:  PMAX <- -min_p, PMIN <- -max_p, same for q);
   bus voltage limits and branch ratings likewise; non-controllable gens are pinned.
 * MASKPAIR: in a fancy-index assignment  A[idx[m1], c] = B[...][m2]  the two masks are the same.
Not decided: feasibility of the interior-point solution.
"""
import ast

from ppsa import facts, shape as sh
from ppsa.astutil import norm
from ppsa.selftest import Variant, replace_once, in_function

BG = "pandapower.build_gen"


def _mask_of(sub):
    s = sub.slice
    if isinstance(s, ast.Name):
        return s.id
    if isinstance(s, ast.UnaryOp) and isinstance(s.op, ast.Invert) and isinstance(s.operand, ast.Name):
        return "~" + s.operand.id
    return None


def rule_maskpair(ctx):
    R = "MASKPAIR"
    ctx.rule(R, "in an assignment A[idx[m1], col] = B[...][m2] where m1, m2 are (possibly inverted) mask names, "
                "m1 and m2 are the same mask (swept over the whole package)")
    n = 0
    for fi in ctx.repo.all_functions():
        if ".<locals>." in fi.qualname:
            continue
        for st in ast.walk(fi.node):
            if not (isinstance(st, ast.Assign) and len(st.targets) == 1 and isinstance(st.targets[0], ast.Subscript)):
                continue
            tgt = st.targets[0]
            idx = tgt.slice
            elts = idx.elts if isinstance(idx, ast.Tuple) else [idx]
            tm = [m for m in (_mask_of(e) for e in elts if isinstance(e, ast.Subscript)) if m]
            vm = _mask_of(st.value) if isinstance(st.value, ast.Subscript) else None
            if not tm or not vm:
                continue
            n += 1
            ok = vm in tm
            ctx.ob(R, f"{fi.module.name}::{fi.qualname}::{norm(tgt, 90)}", ok,
                   f"target mask {tm} value mask {vm}" + ("" if ok else " differ: rows selected on the left are not the rows taken on the right"),
                   fi.loc(st))
    ctx.require_min(R, 8)


def rule_limits(ctx):
    R = "LIMIT-MAP"
    ctx.rule(R, "on the OPF path (_build_gen_ppc, mode 'opf') each element's declared limit column flows into the matching "
                "ppc gen column: generator-like elements PMIN<-min_p, PMAX<-max_p, QMIN<-min_q, QMAX<-max_q with sign +; "
                "load-like elements (load, storage) PMAX<- -min_p, PMIN<- -max_p, QMAX<- -min_q, QMIN<- -max_q")
    it, fr = facts.analyse(ctx.repo, f"{BG}:_build_gen_ppc", options={"mode": "opf"}, schema_cols=True)
    table = [("PMIN", "min_p_mw", "max_p_mw"), ("PMAX", "max_p_mw", "min_p_mw"),
             ("QMIN", "min_q_mvar", "max_q_mvar"), ("QMAX", "max_q_mvar", "min_q_mvar")]
    for el, inverted in (("ext_grid", False), ("gen", False), ("sgen", False), ("load", True), ("storage", True)):
        for ppc_col, normal, swapped in table:
            src, other = (swapped, normal) if inverted else (normal, swapped)
            want_sign = -1 if inverted else 1
            found, wrong, signs = False, [], set()
            for s in facts.stores(it, f"ppc.gen.{ppc_col}"):
                shp = s.value.shape
                if facts.undecided(shp):
                    continue
                for m in shp:
                    if f"net.{el}.{src}" in m.facs:
                        found = True
                        signs.add(m.sign)
                    if f"net.{el}.{other}" in m.facs and "reactive_capability_curve" not in " ".join(s.value.deps):
                        wrong.append(s)
            ok = found and not wrong and signs == {want_sign}
            ctx.ob(R, f"{BG}::_build_gen_ppc::{el}.{src}->{ppc_col}", ok,
                   f"{el}.{src} -> gen {ppc_col} with sign {want_sign:+d}" + (
                       "" if ok else f": found={found} signs={sorted(signs)} wrong-column stores={len(wrong)}"),
                   wrong[0].fn.loc(wrong[0].node) if wrong else "pandapower/build_gen.py")
    # setpoint pinning of non-controllable gens
    for col, src in (("PMIN", "net.gen.p_mw"), ("PMAX", "net.gen.p_mw")):
        ss = [s for s in facts.stores(it, f"ppc.gen.{col}") if s.fn.name == "_enforce_controllable_vm_pu_p_mw"]
        ok = any(src in s.value.deps and "net.gen.controllable" in (s.value.deps | s.index.deps | s.ctrl) for s in ss)
        ctx.ob(R, f"{BG}::_enforce_controllable_vm_pu_p_mw::{col}", ok,
               f"non-controllable gens: {col} pinned to p_mw (depends on gen.p_mw and gen.controllable)", "pandapower/build_gen.py")
    for col in ("VMIN", "VMAX"):
        ss = [s for s in facts.stores(it, f"ppc.bus.{col}") if s.fn.name == "_enforce_controllable_vm_pu_p_mw"]
        ok = any("net.gen.vm_pu" in s.value.deps for s in ss)
        ctx.ob(R, f"{BG}::_enforce_controllable_vm_pu_p_mw::{col}", ok,
               f"non-controllable gens: bus {col} pinned to gen.vm_pu", "pandapower/build_gen.py")
    # gen voltage limits
    for col, src in (("VMAX", "net.gen.max_vm_pu"), ("VMIN", "net.gen.min_vm_pu")):
        ss = [s for s in facts.stores(it, f"ppc.bus.{col}") if s.fn.name == "_check_gen_vm_limits"]
        ok = bool(ss) and all(src in s.value.deps for s in ss)
        other = "net.gen.min_vm_pu" if col == "VMAX" else "net.gen.max_vm_pu"
        ok = ok and not any(other in s.value.deps for s in ss)
        ctx.ob(R, f"{BG}::_check_gen_vm_limits::{col}", ok, f"gen {src.split('.')[-1]} -> bus {col}", "pandapower/build_gen.py")
    # bus limits
    itb, frb = facts.analyse(ctx.repo, "pandapower.build_bus:_build_bus_ppc", options={"mode": "opf"}, schema_cols=True)
    for col, src in (("VMAX", "net.bus.max_vm_pu"), ("VMIN", "net.bus.min_vm_pu")):
        ss = facts.stores(itb, f"ppc.bus.{col}")
        ok = any(src in s.value.deps for s in ss)
        ctx.ob(R, f"pandapower.build_bus::_build_bus_ppc::{col}", ok, f"{src} -> bus {col} in OPF mode", "pandapower/build_bus.py")
    ctx.require_min(R, 28)


def run(ctx):
    ctx.assume("decides that declared limits reach the OPF problem with the right column, element and sign, and the "
               "mask-pair contradiction lint; not that the solver's answer satisfies them")
    rule_maskpair(ctx)
    rule_limits(ctx)


def variants(repo):
    bg = "pandapower/build_gen.py"
    V = Variant
    return [
        V("vmin mask copy-paste", bg, replace_once("ppc[\"bus\"][gen_buses[~v_min_bound], VMIN]", "ppc[\"bus\"][gen_buses[~v_max_bound], VMIN]"), "MASKPAIR"),
        V("load q limits not swapped", bg, in_function("add_q_constraints", replace_once('ppc["gen"][f:t, QMAX] = -tab["min_q_mvar"].values[is_element] + delta', 'ppc["gen"][f:t, QMIN] = -tab["min_q_mvar"].values[is_element] + delta')), "load.min_q_mvar->QMAX"),
        V("load p limit sign", bg, in_function("add_p_constraints", replace_once('ppc["gen"][f:t, PMAX] = - tab["min_p_mw"].values[is_element] + delta', 'ppc["gen"][f:t, PMAX] = tab["min_p_mw"].values[is_element] + delta')), "load.min_p_mw->PMAX"),
        V("sgen max p dropped", bg, in_function("add_p_constraints", lambda s: s.replace('ppc["gen"][f:t, PMAX] = tab["max_p_mw"].values[is_element] + delta', 'pass')), "sgen.max_p_mw->PMAX"),
        V("twin: delta first", bg, in_function("add_p_constraints", replace_once('ppc["gen"][f:t, PMIN] = tab["min_p_mw"].values[is_element] - delta', 'ppc["gen"][f:t, PMIN] = -delta + tab["min_p_mw"].values[is_element]')), None),
        V("gen vmax from min column", bg, in_function("_check_gen_vm_limits", lambda s: s.replace('ppc["bus"][gen_buses, VMAX] = net["gen"]["max_vm_pu"].values[gen_is]', 'ppc["bus"][gen_buses, VMAX] = net["gen"]["min_vm_pu"].values[gen_is]')), "_check_gen_vm_limits::VMAX"),
    ]
