"""C16 - OPF results are feasible: structural clauses.

Decided:
 * LIMIT-MAP: every declared constraint column is read on the OPF conversion path into the
   matching ppc limit column, with the sign-inverted, swapped pair for load-like elements
   (load, storage are internal generators with pg = -p:  PMAX <- -min_p, PMIN <- -max_p, same for q);
   bus voltage limits and branch ratings likewise; non-controllable gens are pinned.
 * MASKPAIR: in a fancy-index assignment  A[idx[m1], c] = B[...][m2]  the two masks are the same.
Not decided: feasibility of the interior-point solution.
"""
import ast

from ppsa import facts, shape as sh
from ppsa.astutil import norm
from ppsa.selftest import Variant, replace_once, in_function

BG = "pandapower.build_gen"


def _mask_of(sub):
    s = sub.slice
    if isinstance(s, ast.Name):
        return s.id
    if isinstance(s, ast.UnaryOp) and isinstance(s.op, ast.Invert) and isinstance(s.operand, ast.Name):
        return "~" + s.operand.id
    return None


def rule_maskpair(ctx):
    R = "MASKPAIR"
    ctx.rule(R, "in an assignment A[idx[m1], col] = B[...][m2] where m1, m2 are (possibly inverted) mask names, "
                "m1 and m2 are the same mask (swept over the whole package)")
    n = 0
    for fi in ctx.repo.all_functions():
        if ".<locals>." in fi.qualname:
            continue
        for st in ast.walk(fi.node):
            if not (isinstance(st, ast.Assign) and len(st.targets) == 1 and isinstance(st.targets[0], ast.Subscript)):
                continue
            tgt = st.targets[0]
            idx = tgt.slice
            elts = idx.elts if isinstance(idx, ast.Tuple) else [idx]
            tm = [m for m in (_mask_of(e) for e in elts if isinstance(e, ast.Subscript)) if m]
            vm = _mask_of(st.value) if isinstance(st.value, ast.Subscript) else None
            if not tm or not vm:
                continue
            n += 1
            ok = vm in tm
            ctx.ob(R, f"{fi.module.name}::{fi.qualname}::{norm(tgt, 90)}", ok,
                   f"target mask {tm} value mask {vm}" + ("" if ok else " differ: rows selected on the left are not the rows taken on the right"),
                   fi.loc(st))
    ctx.require_min(R, 8)


def rule_limits(ctx):
    R = "LIMIT-MAP"
    ctx.rule(R, "on the OPF path (_build_gen_ppc, mode 'opf') each element's declared limit column flows into the matching "
                "ppc gen column: generator-like elements PMIN<-min_p, PMAX<-max_p, QMIN<-min_q, QMAX<-max_q with sign +; "
                "load-like elements (load, storage) PMAX<- -min_p, PMIN<- -max_p, QMAX<- -min_q, QMIN<- -max_q")
    it, fr = facts.analyse(ctx.repo, f"{BG}:_build_gen_ppc", options={"mode": "opf"}, schema_cols=True)
    table = [("PMIN", "min_p_mw", "max_p_mw"), ("PMAX", "max_p_mw", "min_p_mw"),
             ("QMIN", "min_q_mvar", "max_q_mvar"), ("QMAX", "max_q_mvar", "min_q_mvar")]
    for el, inverted in (("ext_grid", False), ("gen", False), ("sgen", False), ("load", True), ("storage", True)):
        for ppc_col, normal, swapped in table:
            src, other = (swapped, normal) if inverted else (normal, swapped)
            want_sign = -1 if inverted else 1
            found, wrong, signs = False, [], set()
            for s in facts.stores(it, f"ppc.gen.{ppc_col}"):
                shp = s.value.shape
                if facts.undecided(shp):
                    continue
                for m in shp:
                    if f"net.{el}.{src}" in m.facs:
                        found = True
                        signs.add(m.sign)
                    if f"net.{el}.{other}" in m.facs and "reactive_capability_curve" not in " ".join(s.value.deps):
                        wrong.append(s)
            ok = found and not wrong and signs == {want_sign}
            ctx.ob(R, f"{BG}::_build_gen_ppc::{el}.{src}->{ppc_col}", ok,
                   f"{el}.{src} -> gen {ppc_col} with sign {want_sign:+d}" + (
                       "" if ok else f": found={found} signs={sorted(signs)} wrong-column stores={len(wrong)}"),
                   wrong[0].fn.loc(wrong[0].node) if wrong else "pandapower/build_gen.py")
    # setpoint pinning of non-controllable gens
    for col, src in (("PMIN", "net.gen.p_mw"), ("PMAX", "net.gen.p_mw")):
        ss = [s for s in facts.stores(it, f"ppc.gen.{col}") if s.fn.name == "_enforce_controllable_vm_pu_p_mw"]
        ok = any(src in s.value.deps and "net.gen.controllable" in (s.value.deps | s.index.deps | s.ctrl) for s in ss)
        ctx.ob(R, f"{BG}::_enforce_controllable_vm_pu_p_mw::{col}", ok,
               f"non-controllable gens: {col} pinned to p_mw (depends on gen.p_mw and gen.controllable)", "pandapower/build_gen.py")
    for col in ("VMIN", "VMAX"):
        ss = [s for s in facts.stores(it, f"ppc.bus.{col}") if s.fn.name == "_enforce_controllable_vm_pu_p_mw"]
        ok = any("net.gen.vm_pu" in s.value.deps for s in ss)
        ctx.ob(R, f"{BG}::_enforce_controllable_vm_pu_p_mw::{col}", ok,
               f"non-controllable gens: bus {col} pinned to gen.vm_pu", "pandapower/build_gen.py")
    # gen voltage limits
    for col, src in (("VMAX", "net.gen.max_vm_pu"), ("VMIN", "net.gen.min_vm_pu")):
        ss = [s for s in facts.stores(it, f"ppc.bus.{col}") if s.fn.name == "_check_gen_vm_limits"]
        ok = bool(ss) and all(src in s.value.deps for s in ss)
        other = "net.gen.min_vm_pu" if col == "VMAX" else "net.gen.max_vm_pu"
        ok = ok and not any(other in s.value.deps for s in ss)
        ctx.ob(R, f"{BG}::_check_gen_vm_limits::{col}", ok, f"gen {src.split('.')[-1]} -> bus {col}", "pandapower/build_gen.py")
    # bus limits
    itb, frb = facts.analyse(ctx.repo, "pandapower.build_bus:_build_bus_ppc", options={"mode": "opf"}, schema_cols=True)
    for col, src in (("VMAX", "net.bus.max_vm_pu"), ("VMIN", "net.bus.min_vm_pu")):
        ss = facts.stores(itb, f"ppc.bus.{col}")
        ok = any(src in s.value.deps for s in ss)
        ctx.ob(R, f"pandapower.build_bus::_build_bus_ppc::{col}", ok, f"{src} -> bus {col} in OPF mode", "pandapower/build_bus.py")
    ctx.require_min(R, 28)


def run(ctx):
    ctx.assume("decides that declared limits reach the OPF problem with the right column, element and sign, and the "
               "mask-pair contradiction lint; not that the solver's answer satisfies them")
    rule_maskpair(ctx)
    rule_limits(ctx)
    rule_partial_else(ctx)
    rule_dc_flow_limits(ctx)
    rule_dcline_sides(ctx)
    # runopp(init="pf") solves the start power flow in place on the ppci that is handed to the OPF: the bus demand must leave the
    # Q-limit loop as it entered it, otherwise the OPF constraints are built on a demand reduced by the clamped generators
    from rules.C04 import rule_qlim
    rule_qlim(ctx)
    RD = "DC-BALANCE"
    ctx.rule(RD, "the nodal balance of the DC OPF (opf_setup: bmis) contains the active demand PD and the shunt conductance GS, like the DC "
                 "power flow (run_dc_pf: Pbus = ... - bus[:, GS] / baseMVA): otherwise rundcpp with the OPF dispatch does not reproduce the result")
    fo = ctx.repo.func("pandapower.pypower.opf_setup:opf_setup")
    bm = next((st for st in ast.walk(fo.node) if isinstance(st, ast.Assign) and norm(st.targets[0], 10) == "bmis"), None)
    t = norm(bm.value, 120) if bm is not None else ""
    ctx.ob(RD, "pandapower.pypower.opf_setup::opf_setup::bmis", "PD" in t and "GS" in t and "Pbusinj" in t, f"bmis = {t}", fo.loc(bm) if bm is not None else fo.loc())
    fd = ctx.repo.func("pandapower.pf.run_dc_pf:_run_dc_pf")
    pb = next((st for st in ast.walk(fd.node) if isinstance(st, ast.Assign) and norm(st.targets[0], 10) == "Pbus"), None)
    t2 = norm(pb.value, 120) if pb is not None else ""
    ctx.ob(RD, "pandapower.pf.run_dc_pf::_run_dc_pf::Pbus", "GS" in t2 and "Pbusinj" in t2 and "makeSbus" in t2, f"Pbus = {t2}", fd.loc(pb) if pb is not None else fd.loc())
    RN = "NULLABLE-FLAG"
    ctx.rule(RN, "load / sgen / storage.controllable is an optional, nullable column (schema): _select_is_elements_numba fills NaN with "
                 "False before the cast to bool (NaN casts to True: a load without a flag would become dispatchable in rundcopp, which does "
                 "not run the normalisation of _check_necessary_opf_parameters)")
    fsel = ctx.repo.func("pandapower.auxiliary:_select_is_elements_numba")
    k = 0
    for c in ast.walk(fsel.node):
        if isinstance(c, ast.Call) and isinstance(c.func, ast.Attribute) and c.func.attr == "astype" and ".controllable" in norm(c.func.value, 120):
            k += 1
            ok = ".fillna(False)" in norm(c.func.value, 120)
            ctx.ob(RN, f"pandapower.auxiliary::_select_is_elements_numba::controllable-cast#{k}", ok, f"`{norm(c, 90)}`", fsel.loc(c))
    if k < 1:
        ctx.fail("_select_is_elements_numba: cast of the controllable column not found")
    # the branch rating the OPF constrains is the one the result loading is measured against
    from ppsa.obligations import run_cases, Case
    from rules._branch_cases import builder_cases
    RR = "RATING"
    ctx.rule(RR, "ppc['branch'][:, RATE_A] of lines, transformers and three-winding transformers has the unit of an apparent power, scales "
                 "with parallel and depends on the rating columns the loading results divide by (max_i_ka*df, sn_mva*df, "
                 "max_loading_percent): a rating without df lets a converged OPF exceed max_loading_percent")
    cs = []
    for c in builder_cases():
        sk = [k for k in c.sinks if k.where.endswith("RATE_A")]
        if sk:
            cs.append(Case(c.name, c.fq, sk, args=c.args, options=c.options, schema_cols=c.schema_cols, doc=c.doc))
    run_cases(ctx, RR, cs, aspects=("units", "par", "needs", "data_needs"))
    ctx.require_min(RR, 3)


def rule_dcline_sides(ctx):
    """the two auxiliary generators of a DC line carry the limits of their own converter station"""
    import ast
    from ppsa.astutil import norm, call_name, dotted
    R = "DCLINE-SIDE"
    ctx.rule(R, "in _add_dcline_gens each create_gen call takes bus, vm set point and both q limits from one side of the DC line "
                "(from xor to), max from max and min from min")
    fi = ctx.repo.func("pandapower.auxiliary:_add_dcline_gens")
    n = 0
    for c in ast.walk(fi.node):
        if not (isinstance(c, ast.Call) and call_name(c) == "create_gen"):
            continue
        n += 1
        sides = {}
        bad = []
        for kw in c.keywords:
            for a in ast.walk(kw.value):
                d = dotted(a) if isinstance(a, ast.Attribute) else None
                if d and d.startswith("dctab."):
                    attr = d.split(".", 1)[1]
                    side = "from" if ("_from_" in attr or attr.startswith("from_")) else ("to" if ("_to_" in attr or attr.startswith("to_")) else None)
                    if side:
                        sides.setdefault(side, []).append(f"{kw.arg}={attr}")
                    if kw.arg in ("max_q_mvar", "min_q_mvar") and not attr.startswith(kw.arg[:5]):
                        bad.append(f"{kw.arg}={attr}")
        ok = len(sides) == 1 and not bad
        side = next(iter(sides)) if len(sides) == 1 else "?"
        ctx.ob(R, f"pandapower.auxiliary::_add_dcline_gens::gen-at-{norm(next((k.value for k in c.keywords if k.arg == 'bus'), c), 30)}", ok,
               f"all station data of this generator come from the '{side}' side" if ok else
               f"the generator mixes the two converter stations / limit kinds: {sides} {bad}: the OPF enforces the other station's limits here", fi.loc(c))
    if n != 2:
        ctx.fail(f"_add_dcline_gens: {n} create_gen calls found (confirmed: 2)")


def rule_partial_else(ctx):
    """if <reduce>(m): A[idx[~m], c] = v[~m]  else: A[idx, c] = v   - the unmasked else branch is right only when no entry of m
    is set, i.e. the test must be any(m)"""
    import ast
    from ppsa.astutil import norm, last_attr
    R = "PARTIAL-ELSE"
    ctx.rule(R, "an if/else whose then-branch assigns only the rows outside a violation mask and whose else-branch assigns all rows "
                "must be decided by np.any(mask): with np.all the else-branch overwrites the limits of the violating rows too")
    n = 0
    for mn in ("pandapower.build_gen", "pandapower.build_bus", "pandapower.build_branch", "pandapower.opf.validate_opf_input"):
        for fi in ctx.repo.module(mn).functions.values():
            for node in ast.walk(fi.node):
                if not (isinstance(node, ast.If) and node.orelse and isinstance(node.test, ast.Call) and node.test.args
                        and isinstance(node.test.args[0], ast.Name)):
                    continue
                m = node.test.args[0].id
                then_masked = [st for st in node.body if isinstance(st, ast.Assign) and "[~" in norm(st.targets[0])]
                else_all = [st for st in node.orelse if isinstance(st, ast.Assign) and "~" not in norm(st.targets[0])]
                if not then_masked or not else_all:
                    continue
                # same target matrix column
                col = lambda st: norm(st.targets[0].slice.elts[-1]) if isinstance(st.targets[0], ast.Subscript) and isinstance(st.targets[0].slice, ast.Tuple) else None
                if col(then_masked[0]) is None or col(then_masked[0]) != col(else_all[0]):
                    continue
                n += 1
                ok = last_attr(node.test) == "any" and f"[~{m}]" in norm(then_masked[0].targets[0])
                ctx.ob(R, f"{fi.module.name}::{fi.qualname}::{col(then_masked[0])}:{m}", ok,
                       f"partial assignment of {col(then_masked[0])} is chosen with any({m})" if ok else
                       f"`if {norm(node.test)}` chooses between the masked and the unmasked assignment of {col(then_masked[0])}: when only some "
                       f"rows violate, the unmasked branch overwrites the bus limit with the violating values", fi.loc(node))
    if n < 2:
        ctx.fail(f"PARTIAL-ELSE: only {n} masked/unmasked assignment pairs found (confirmed: 2 in _check_gen_vm_limits)")


def rule_dc_flow_limits(ctx):
    """DC OPF branch flow limits with phase-shift injection: -rate - Pfinj <= Bf*Va <= rate - Pfinj, written as the two upper
    bounds  upf = rate - Pfinj  (from->to)  and  upt = rate + Pfinj  (to->from)"""
    import ast
    from ppsa.astutil import norm
    R = "DC-FLOW-LIMIT"
    ctx.rule(R, "in opf_setup the two DC flow bounds carry the phase-shift injection with opposite signs (upf: -Pfinj, upt: +Pfinj) and "
                "the same rating term RATE_A / baseMVA")
    fi = ctx.repo.func("pandapower.pypower.opf_setup:opf_setup")
    got = {}
    for st in ast.walk(fi.node):
        if isinstance(st, ast.Assign) and isinstance(st.targets[0], ast.Name) and st.targets[0].id in ("upf", "upt") \
                and isinstance(st.value, ast.BinOp) and isinstance(st.value.op, (ast.Add, ast.Sub)) and "Pfinj" in norm(st.value.right):
            got[st.targets[0].id] = (("+" if isinstance(st.value.op, ast.Add) else "-"), norm(st.value.left), st)
    if set(got) != {"upf", "upt"}:
        ctx.fail("opf_setup: upf / upt bounds with the Pfinj term not found")
    ok = got["upf"][0] == "-" and got["upt"][0] == "+" and got["upf"][1] == got["upt"][1] and "RATE_A" in got["upf"][1] and "baseMVA" in got["upf"][1]
    ctx.ob(R, "pandapower.pypower.opf_setup::opf_setup::upf-upt", ok,
           "upf = rate - Pfinj, upt = rate + Pfinj" if ok else
           f"upf = {got['upf'][1]} {got['upf'][0]} Pfinj, upt = {got['upt'][1]} {got['upt'][0]} Pfinj: with a phase shifter one direction's limit is "
           "wrong by 2*Pfinj", fi.loc(got["upt"][2]))


def variants(repo):
    bg = "pandapower/build_gen.py"
    V = Variant
    return [
        V("partial limit assignment chosen with all()", bg, in_function("_check_gen_vm_limits", lambda s: s.replace("        if np.any(v_max_bound):", "        if np.all(v_max_bound):", 2).replace("    if np.all(v_max_bound):\n        bound_gens", "    if np.any(v_max_bound):\n        bound_gens", 1)), "PARTIAL-ELSE"),
        V("dc flow bound sign", "pandapower/pypower/opf_setup.py", replace_once("upt = branch[il, RATE_A] / baseMVA + Pfinj[il]", "upt = branch[il, RATE_A] / baseMVA - Pfinj[il]"), "DC-FLOW-LIMIT"),
        V("dcline to-side gen with from-side q limit", "pandapower/auxiliary.py", in_function("_add_dcline_gens", replace_once("max_q_mvar=dctab.max_q_to_mvar", "max_q_mvar=dctab.max_q_from_mvar")), "DCLINE-SIDE"),
        V("dc opf balance without shunt conductance", "pandapower/pypower/opf_setup.py", replace_once("bmis = -(bus[:, PD] + bus[:, GS]) / baseMVA - Pbusinj", "bmis = -bus[:, PD] / baseMVA - Pbusinj"), "DC-BALANCE"),
        V("controllable NaN cast to True", "pandapower/auxiliary.py", replace_once("controllable = net[element_table].controllable.fillna(False).values.astype(bool)", "controllable = net[element_table].controllable.values.astype(bool)"), "NULLABLE-FLAG"),
        V("trafo rating without derating factor", "pandapower/build_branch.py", in_function("_calc_trafo_parameter", replace_once("branch[f:t, RATE_A] = max_load / 100. * sn_mva * df * parallel", "branch[f:t, RATE_A] = max_load / 100. * sn_mva * parallel")), "RATING"),
        V("start power flow restores only the active demand", "pandapower/pf/run_newton_raphson_pf.py", replace_once("        bus[:, [PD, QD]] = bus_backup_p_q\n", "        bus[:, PD] = bus_backup_p_q[:, 0]\n"), "QLIM-LOOP"),
        V("vmin mask copy-paste", bg, replace_once("ppc[\"bus\"][gen_buses[~v_min_bound], VMIN]", "ppc[\"bus\"][gen_buses[~v_max_bound], VMIN]"), "MASKPAIR"),
        V("load q limits not swapped", bg, in_function("add_q_constraints", replace_once('ppc["gen"][f:t, QMAX] = -tab["min_q_mvar"].values[is_element] + delta', 'ppc["gen"][f:t, QMIN] = -tab["min_q_mvar"].values[is_element] + delta')), "load.min_q_mvar->QMAX"),
        V("load p limit sign", bg, in_function("add_p_constraints", replace_once('ppc["gen"][f:t, PMAX] = - tab["min_p_mw"].values[is_element] + delta', 'ppc["gen"][f:t, PMAX] = tab["min_p_mw"].values[is_element] + delta')), "load.min_p_mw->PMAX"),
        V("sgen max p dropped", bg, in_function("add_p_constraints", lambda s: s.replace('ppc["gen"][f:t, PMAX] = tab["max_p_mw"].values[is_element] + delta', 'pass')), "sgen.max_p_mw->PMAX"),
        V("twin: delta first", bg, in_function("add_p_constraints", replace_once('ppc["gen"][f:t, PMIN] = tab["min_p_mw"].values[is_element] - delta', 'ppc["gen"][f:t, PMIN] = -delta + tab["min_p_mw"].values[is_element]')), None),
        V("gen vmax from min column", bg, in_function("_check_gen_vm_limits", lambda s: s.replace('ppc["bus"][gen_buses, VMAX] = net["gen"]["max_vm_pu"].values[gen_is]', 'ppc["bus"][gen_buses, VMAX] = net["gen"]["min_vm_pu"].values[gen_is]')), "_check_gen_vm_limits::VMAX"),
    ]
