"""C15 - parallel contingency analysis equals the sequential analysis: sibling agreement.

Decided:
 * SIBLING   _update_contingency_results_parallel meets the obligations of the sequential update in both of
             its branches: in particular the parallel-result branch excludes the outaged element from the
             min/max update (the outage was applied to the worker's copy, net.in_service cannot show it)
 * ORDERED   per-case results are consumed in task order (Pool.map / starmap / executor.map; never
             imap_unordered / as_completed), so the outcome does not depend on completion order
 * ISOLATED  the worker writes only to its copy of the net and a deep copy of the outaged table
 * RESTORE / ORDER as C14 for the sequential fallback
Not decided: equality of the numerical results.
"""
import ast

from ppsa import facts
from ppsa.astutil import calls_in, call_name, norm
from ppsa.selftest import Variant, replace_once, in_function
from rules import _contingency as cg

M = "pandapower.contingency.contingency_parallel"


def run(ctx):
    ctx.assume("decides sibling agreement of the update functions, ordered consumption and worker isolation, not numerical equality")
    fi = ctx.repo.func(f"{M}:run_contingency_parallel")
    fu = ctx.repo.func(f"{M}:_update_contingency_results_parallel")
    fw = ctx.repo.func(f"{M}:_run_single_contingency")
    ctx.rule("RESTORE", "sequential fallback: outage restored in finally")
    if cg.rule_restore(ctx, "RESTORE", fi) < 1:
        ctx.fail("run_contingency_parallel: temporary outage store not found")
    ctx.rule("ORDER", "N-0 evaluation/update after all N-1 updates; write_to_net guard")
    cg.rule_order(ctx, "ORDER", fi, "_update_contingency_results_parallel")
    ctx.rule("SIBLING", "the parallel update function satisfies the same mask / attribution obligations as the sequential one, in "
                        "both alternatives of its where mask")
    cg.rule_update(ctx, "SIBLING", fu, parallel=True)

    ctx.rule("OPTIONS", "N-1 cases run with pf_options_nminus1 (sequential fallback, worker and its partial binding), the base case with "
                        "pf_options; every case list skips elements that are out of service; the pool size is n_procs")
    cg.rule_options(ctx, "OPTIONS", fi, worker=fw)
    ctx.rule("SETUP", "a recycle option of the caller is forced off; cause_element is an object array; the write_to_net loop writes "
                      "every monitored table; cause_index is only compared with the index of the outaged table (directly, or under "
                      "element == cause_element); a chunk size handed to the pool is at least 1")
    cg.rule_setup(ctx, "SETUP", fi)
    if cg.rule_cause_index(ctx, "SETUP", fu) < 2:
        ctx.fail("_update_contingency_results_parallel: fewer than 2 comparisons with cause_index found")
    if cg.rule_dup_keyword(ctx, "SETUP", fi) < 3:
        ctx.fail("run_contingency_parallel: fewer than 3 calls forwarding **kwargs found")
    for c in calls_in(fi.node):
        if isinstance(c.func, ast.Attribute) and c.func.attr in ("map", "starmap", "imap"):
            cs = next((k.value for k in c.keywords if k.arg == "chunksize"), c.args[2] if len(c.args) > 2 else None)
            ok = cs is None or (isinstance(cs, ast.Constant) and isinstance(cs.value, int) and cs.value >= 1) or \
                (isinstance(cs, ast.Call) and ast.unparse(cs.func) == "max" and any(isinstance(a, ast.Constant) and a.value == 1 for a in cs.args))
            ctx.ob("SETUP", f"{M}::run_contingency_parallel::chunksize", ok,
                   "default chunk size" if cs is None else f"chunksize={ast.unparse(cs)}" if ok else
                   f"chunksize={ast.unparse(cs)} can be 0 (fewer cases than processes): Pool.map then returns no results for the cases", fi.loc(c))
    pools = [c for c in calls_in(fi.node) if (call_name(c) or "").endswith("Pool")]
    for c in pools:
        kw = {k.arg: ast.unparse(k.value) for k in c.keywords if k.arg}
        ctx.ob("OPTIONS", f"{M}::run_contingency_parallel::pool-size", kw.get("processes") == "n_procs" or (c.args and ast.unparse(c.args[0]) == "n_procs"),
               f"Pool({kw}): a size derived from the number of cases is zero (ValueError) when no case remains", fi.loc(c))
    R = "ORDERED"
    ctx.rule(R, "results of the worker pool are produced by an order-preserving map and consumed by iterating the returned list")
    prod = [c for c in calls_in(fi.node) if isinstance(c.func, ast.Attribute) and c.func.attr in
            ("map", "starmap", "imap", "imap_unordered", "map_async", "apply_async", "submit", "as_completed")
            or (call_name(c) or "").endswith("as_completed")]
    if not prod:
        ctx.fail("run_contingency_parallel: pool call not found")
    for c in prod:
        nm = c.func.attr if isinstance(c.func, ast.Attribute) else call_name(c)
        ok = nm in ("map", "starmap", "imap")
        ctx.ob(R, f"{M}::run_contingency_parallel::pool.{nm}", ok,
               f"pool.{nm} preserves task order" if ok else f"pool.{nm} yields results in completion order: cause attribution "
               "(strict >) and min/max would depend on the schedule", fi.loc(c))
    # strict comparison in the cause attribution (ties keep the first = lowest task index)
    strict = any(isinstance(n, ast.Assign) and any(isinstance(t, ast.Name) and t.id == "max_mask" for t in n.targets)
                 and any(isinstance(x, ast.Compare) and isinstance(x.ops[0], ast.Gt) for x in ast.walk(n.value))
                 for n in ast.walk(fu.node))
    ctx.ob(R, f"{M}::_update_contingency_results_parallel::strict-gt", strict, "cause attribution uses strict >", fu.loc())

    R2 = "ISOLATED"
    ctx.rule(R2, "_run_single_contingency stores only into net_copy (a copy of the net object) and the outaged table is deep-copied "
                 "before the outage is applied")
    it, fr = facts.analyse(ctx.repo, f"{M}:_run_single_contingency", defaults=False, max_depth=1)
    bad = [s for s in it.stores if s.path.startswith("net.") and s.fn.name == "_run_single_contingency"]
    ctx.ob(R2, f"{M}::_run_single_contingency::stores", not bad,
           "no store reaches the parameter net" if not bad else f"store to {bad[0].path} reaches the caller's net", fw.loc(bad[0].node) if bad else fw.loc())
    txt = ast.unparse(fw.node)
    deep = "net_copy[element] = copy.deepcopy(net[element])" in txt
    order_ok = deep and txt.index("net_copy[element] = copy.deepcopy(net[element])") < txt.index("'in_service'] = False")
    ctx.ob(R2, f"{M}::_run_single_contingency::deepcopy-before-outage", order_ok,
           "outaged table is deep-copied before in_service is changed" if order_ok else
           "the outage is applied to a table object shared with the caller's net", fw.loc())


def variants(repo):
    p = "pandapower/contingency/contingency_parallel.py"
    V = Variant
    return [
        V("parallel task list without in-service filter", p, lambda s: s.replace('        tasks = []\n        for element, val in nminus1_cases.items():\n            for i in val["index"]:\n                if net[element].at[i, "in_service"]:\n                    tasks.append((element, i))\n', '        tasks = [(element, i) for element, val in nminus1_cases.items() for i in val["index"]]\n', 1), "case-filter"),
        V("worker bound to the base-case options", p, lambda s: s.replace("def _run_single_contingency(contingency_case, net, pf_options_nminus1,", "def _run_single_contingency(contingency_case, net, pf_options,", 1).replace("contingency_evaluation_function(net_copy, **pf_options_nminus1, **kwargs)", "contingency_evaluation_function(net_copy, **pf_options, **kwargs)", 1).replace("net=net, pf_options_nminus1=pf_options_nminus1,", "net=net, pf_options=pf_options,", 1), "worker"),
        V("own-outage exclusion without the type test", p, in_function("_update_contingency_results_parallel", replace_once("                    if parallel_results and element == cause_element:\n                        valid = valid &", "                    if parallel_results:\n                        valid = valid &")), "cause-index"),
        V("overload flag located in the affected table", p, in_function("_update_contingency_results_parallel", replace_once('contingency_results[cause_element]["index"] == cause_index] = True', 'contingency_results[element]["index"] == cause_index] = True')), "cause-index"),
        V("raise_errors left in kwargs", p, replace_once('raise_errors = kwargs.pop("raise_errors", False)', 'raise_errors = kwargs.get("raise_errors", False)'), "dup-keyword"),
        V("chunk size can be zero", p, replace_once("results_list = pool.map(worker_func, tasks)", "results_list = pool.map(worker_func, tasks, chunksize=len(tasks) // n_procs)"), "chunksize"),
        V("twin: chunk size at least one", p, replace_once("results_list = pool.map(worker_func, tasks)", "results_list = pool.map(worker_func, tasks, chunksize=max(1, len(tasks) // n_procs))"), None),
        V("pool size capped by the number of cases", p, replace_once("mp.Pool(processes=n_procs)", "mp.Pool(processes=min(n_procs, len(tasks)))"), "pool-size"),
        Variant("parallel mask starts from all true", "pandapower/contingency/contingency_parallel.py", in_function("_update_contingency_results_parallel", lambda s: s.replace('                    where_mask = net[element]["in_service"].values\n                    if parallel_results and element == cause_element:', '                    where_mask = np.ones(len(val), dtype=bool) if parallel_results else net[element]["in_service"].values\n                    if parallel_results and element == cause_element:', 1)), "where-in-service:parallel"),
        V("parallel branch keeps own outage", p, in_function("_update_contingency_results_parallel", lambda s: s.replace('                        where_mask = where_mask & (contingency_results[element]["index"] != cause_index)\n', '                        pass\n', 1)), "where-own-outage"),
        V("cause compares with nan", p, in_function("_update_contingency_results_parallel", replace_once("max_mask = valid & (val > np.nan_to_num(current_max, nan=-np.inf))", "max_mask = valid & (val > current_max)")), "cause-nan-safe"),
        V("unordered pool", p, replace_once("results_list = pool.map(worker_func, tasks)", "results_list = list(pool.imap_unordered(worker_func, tasks))"), "ORDERED"),
        V("worker shares table", p, in_function("_run_single_contingency", replace_once("    net_copy[element] = copy.deepcopy(net[element])\n", "")), "ISOLATED"),
        V("worker writes net", p, in_function("_run_single_contingency", replace_once("    net_copy[element].at[i, 'in_service'] = False\n", "    net[element].at[i, 'in_service'] = False\n")), "ISOLATED"),
    ]
