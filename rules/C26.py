"""C26 - topology graphs represent the energizing connections: dependence clauses.

Decided (structure of create_nxgraph):
 * EDGE-DEP   per edge-producing block (line, impedance, tcsc, dcline, trafo, trafo3w, switch) the
              in_service argument of add_edges depends on the element's in_service column unless
              include_out_of_service, and - for line/trafo/trafo3w under respect_switches - on
              switch.closed, switch.et, switch.element (trafo3w also switch.bus); bus-bus switches make
              edges iff closed (always when switches are not respected); edge end points come from the
              element's bus columns
 * SWITCH-CODE  each block compares switch.et with the code of its own element type (l, t, t3, b)
 * NODE-RULES   out-of-service buses are removed unless include_out_of_service; nogobuses are removed;
              edges at notravbuses are deleted
 * PARTITION  connected_components removes each yielded component from the work set
 * DISTANCE   calc_distance_to_bus delegates to networkx dijkstra with the 'weight' attribute
Not decided: equality with an independent graph for random networks.
"""
import ast

from ppsa import facts
from ppsa.absint import const, deps_of
from ppsa.astutil import norm, dotted, kwarg
from ppsa.selftest import Variant, replace_once, in_function

CG = "pandapower.topology.create_graph"
GS = "pandapower.topology.graph_searches"
BUSCOLS = {"line": ("from_bus", "to_bus"), "impedance": ("from_bus", "to_bus"), "tcsc": ("from_bus", "to_bus"),
           "dcline": ("from_bus", "to_bus"), "trafo": ("hv_bus", "lv_bus"), "switch": ("bus", "element")}
SW_CODE = {"line": "l", "trafo": "t", "trafo3w": "t3", "switch": "b"}


def edges(ctx, respect, oos):
    it, fr = facts.analyse(ctx.repo, f"{CG}:create_nxgraph", defaults=False, max_depth=4, track_calls=True, schema_cols=True,
                           args={"respect_switches": const(respect), "include_out_of_service": const(oos),
                                 "calc_branch_impedances": const(False), "multi": const(True), "library": const("networkx")})
    out = {}
    for ce in it.calls:
        if ce.callee.name == "add_edges" and len(ce.args) > 5 and ce.args[5].is_const:
            el = ce.args[5].data
            ins = {d for d in deps_of(ce.args[3]) if d.startswith("net.")}
            idx = {d for d in deps_of(ce.args[1]) if d.startswith("net.")}
            o = out.setdefault(el, [set(), set(), ce])
            o[0] |= ins
            o[1] |= idx
    return out


def run(ctx):
    ctx.assume("decides which columns the edge masks and end points depend on under each option, and the node rules; not graph "
               "equality on concrete networks")
    R = "EDGE-DEP"
    ctx.rule(R, "in_service mask and end points of every add_edges call depend on exactly the columns the options require")
    fi = ctx.repo.func(f"{CG}:create_nxgraph")
    base = edges(ctx, True, False)
    nosw = edges(ctx, False, False)
    woos = edges(ctx, True, True)
    want = {"line", "impedance", "tcsc", "dcline", "trafo", "trafo3w", "switch"}
    for el in sorted(want):
        if el not in base:
            ctx.ob(R, f"{CG}::create_nxgraph::{el}:block", False, f"no add_edges call for element '{el}'", fi.loc())
            continue
        ins, idx, ce = base[el]
        loc = fi.loc(ce.node)
        if el != "switch":
            ok = f"net.{el}.in_service" in ins
            ctx.ob(R, f"{CG}::create_nxgraph::{el}:in_service", ok, f"{el} edges " + ("depend" if ok else "do not depend") + f" on {el}.in_service", loc)
            ok2 = f"net.{el}.in_service" not in woos.get(el, [set()])[0]
            ctx.ob(R, f"{CG}::create_nxgraph::{el}:include_out_of_service", ok2,
                   f"with include_out_of_service the mask of {el} " + ("ignores" if ok2 else "still depends on") + " in_service", loc)
        if el in ("line", "trafo", "trafo3w"):
            need = {"net.switch.closed", "net.switch.et", "net.switch.element"} | ({"net.switch.bus"} if el == "trafo3w" else set())
            miss = sorted(need - ins)
            ctx.ob(R, f"{CG}::create_nxgraph::{el}:switches", not miss,
                   f"open switches interrupt {el} edges (mask depends on {sorted(need)})" if not miss else f"{el} mask does not depend on {miss}", loc)
            leak = sorted(d for d in nosw.get(el, [set()])[0] if d.startswith("net.switch."))
            ctx.ob(R, f"{CG}::create_nxgraph::{el}:respect_switches=False", not leak,
                   f"without respect_switches the {el} mask ignores the switch table" if not leak else f"still depends on {leak}", loc)
        if el in ("impedance", "tcsc", "dcline"):
            leak = sorted(d for d in ins if d.startswith("net.switch."))
            ctx.ob(R, f"{CG}::create_nxgraph::{el}:no-switches", not leak, f"{el} edges are not affected by switches" if not leak else f"depends on {leak}", loc)
        if el == "switch":
            ok = {"net.switch.closed", "net.switch.et"} <= ins
            ctx.ob(R, f"{CG}::create_nxgraph::switch:closed", ok, "bus-bus switch edges depend on switch.et and switch.closed", loc)
            ok = "net.switch.closed" not in nosw.get("switch", [set()])[0] and "net.switch.et" in nosw.get("switch", [set()])[0]
            ctx.ob(R, f"{CG}::create_nxgraph::switch:respect_switches=False", ok,
                   "without respect_switches every bus-bus switch is an edge" if ok else "bus-bus switch edges still depend on closed", loc)
        if el in BUSCOLS:
            needc = {f"net.{el}.{c}" for c in BUSCOLS[el]}
            ok = needc <= idx
            ctx.ob(R, f"{CG}::create_nxgraph::{el}:endpoints", ok, f"end points come from {sorted(needc)}" if ok else f"end points depend on {sorted(idx)}", loc)
    ctx.require_min(R, 28)

    R2 = "SWITCH-CODE"
    ctx.rule(R2, "the block of element T compares net.switch.et with the code of T (l, t, t3, b)")
    # the blocks are the if-statements guarded by `<table> is not None` / include_switches
    for node in fi.node.body:
        if not isinstance(node, ast.If):
            continue
        t = ast.unparse(node.test)
        el = None
        for cand in ("trafo3w", "trafo", "line", "switch"):
            if t.startswith(cand + " is not None") or (cand == "switch" and t == "include_switches"):
                el = cand
                break
        if el is None:
            continue
        codes = set()
        for c in ast.walk(node):
            if isinstance(c, ast.Compare) and "switch.et" in ast.unparse(c.left) and isinstance(c.comparators[0], ast.Constant):
                codes.add(c.comparators[0].value)
        ok = codes == {SW_CODE[el]}
        ctx.ob(R2, f"{CG}::create_nxgraph::{el}:code", ok, f"{el} block compares switch.et with {sorted(codes)} (required '{SW_CODE[el]}')", fi.loc(node))
    ctx.require_min(R2, 4)

    R3 = "NODE-RULES"
    ctx.rule(R3, "out-of-service buses removed unless include_out_of_service; nogobuses removed; edges at notravbuses deleted")
    txt_blocks = {ast.unparse(n.test): n for n in fi.node.body if isinstance(n, ast.If)}
    n1 = txt_blocks.get("not include_out_of_service")
    ok = n1 is not None and "net.bus.in_service" in ast.unparse(n1) and "remove_node" in ast.unparse(n1) and "~" in ast.unparse(n1)
    ctx.ob(R3, f"{CG}::create_nxgraph::oos-buses", ok, "out-of-service buses are removed from the graph unless include_out_of_service", fi.loc(n1) if n1 else fi.loc())
    n2 = txt_blocks.get("nogobuses is not None")
    ok = n2 is not None and "remove_node" in ast.unparse(n2)
    ctx.ob(R3, f"{CG}::create_nxgraph::nogobuses", ok, "nogobuses are removed", fi.loc(n2) if n2 else fi.loc())
    n3 = txt_blocks.get("notravbuses is not None")
    ok = n3 is not None and "del mg" in ast.unparse(n3)
    ctx.ob(R3, f"{CG}::create_nxgraph::notravbuses", ok, "edges at notravbuses are deleted", fi.loc(n3) if n3 else fi.loc())

    R4 = "PARTITION"
    ctx.rule(R4, "connected_components yields a component and removes it from the work set before the next pop")
    fc = ctx.repo.func(f"{GS}:connected_components")
    ok = False
    for w in ast.walk(fc.node):
        if isinstance(w, ast.While) and ast.unparse(w.test) == "nodes":
            kinds = [type(s).__name__ + ":" + ast.unparse(s)[:40] for s in w.body]
            has_pop = any("nodes.pop()" in ast.unparse(s) for s in w.body)
            has_yield = any(isinstance(s, ast.Expr) and isinstance(s.value, ast.Yield) for s in w.body)
            has_sub = any(isinstance(s, ast.AugAssign) and isinstance(s.op, ast.Sub) and ast.unparse(s.target) == "nodes" for s in w.body)
            ok = has_pop and has_yield and has_sub
    ctx.ob(R4, f"{GS}::connected_components::worklist", ok, "worklist loop pops a seed, yields its component and subtracts it", fc.loc())
    R5 = "DISTANCE"
    ctx.rule(R5, "calc_distance_to_bus returns networkx single-source Dijkstra path lengths over the weight attribute written by the builder")
    fd = ctx.repo.func(f"{GS}:calc_distance_to_bus")
    ok = any(isinstance(c, ast.Call) and (dotted(c.func) or "").endswith("single_source_dijkstra_path_length") and kwarg(c, "weight") is not None
             for c in ast.walk(fd.node))
    ctx.ob(R5, f"{GS}::calc_distance_to_bus::dijkstra", ok, "delegates to nx.single_source_dijkstra_path_length(weight=weight)", fd.loc())
    # parallel connections keep their own lengths only in a multigraph: the graph of the distance search must not be simple
    gcalls = [c for c in ast.walk(fd.node) if isinstance(c, ast.Call) and (dotted(c.func) or "").endswith("create_nxgraph")]
    simple = [c for c in gcalls if kwarg(c, "multi") is not None and not (isinstance(kwarg(c, "multi"), ast.Constant) and kwarg(c, "multi").value is True)]
    ctx.ob(R5, f"{GS}::calc_distance_to_bus::multigraph", bool(gcalls) and not simple,
           "the distance search runs on the multigraph (parallel branches keep their own weights)" if gcalls and not simple else
           "calc_distance_to_bus builds a simple graph: of parallel connections between two buses only the one added last survives, and "
           "the reported distance is not the shortest", fd.loc(simple[0]) if simple else fd.loc())
    # every edge block obeys its own include_* option
    R6 = "INCLUDE-OPTION"
    ctx.rule(R6, "each edge-producing block of create_nxgraph takes its table from get_edge_table(net, '<T>', include_<T>s): the "
                 "option of its own element type decides (table agreement of blocks and options)")
    fg = ctx.repo.func(f"{CG}:create_nxgraph")
    want = {"line": "include_lines", "impedance": "include_impedances", "tcsc": "include_tcsc", "dcline": "include_dclines",
            "trafo": "include_trafos", "trafo3w": "include_trafo3ws"}
    seen = {}
    for c in ast.walk(fg.node):
        if isinstance(c, ast.Call) and (dotted(c.func) or "") == "get_edge_table" and len(c.args) >= 3 and isinstance(c.args[1], ast.Constant):
            seen[c.args[1].value] = (ast.unparse(c.args[2]), c)
    for t, opt in want.items():
        got = seen.get(t)
        ctx.ob(R6, f"{CG}::create_nxgraph::{t}", got is not None and got[0] == opt,
               f"{t} edges are controlled by {opt}" if got is not None and got[0] == opt else
               f"{t} edges are controlled by `{got[0] if got else None}` instead of {opt}: the option is ignored / another option switches them",
               fg.loc(got[1]) if got else fg.loc())
    params = {a.arg for a in fg.node.args.args}
    for t, opt in want.items():
        if opt not in params:
            ctx.fail(f"create_nxgraph has no parameter {opt}")
    # node set: every bus that no edge touched is added; the cheap guard counts the same set it adds from
    R7 = "NODE-SET"
    ctx.rule(R7, "create_nxgraph adds every bus of net.bus.index without an edge; the guard that skips this step compares the node count "
                 "with the size of that same index (out-of-service buses that are nodes at that moment are removed only afterwards); a "
                 "trafo3w edge is interrupted only by an open switch at the SAME (transformer, bus) pair")
    found = False
    for node in ast.walk(fg.node):
        if isinstance(node, ast.If) and "mg.nodes()" in ast.unparse(node.test) and isinstance(node.test, ast.Compare):
            body = ast.unparse(node)
            if "add_node" not in body and "add_vertex" not in body:
                continue
            found = True
            t = ast.unparse(node.test)
            ok = "in_service" not in t and ("net.bus.index" in t or "len(net.bus)" in t) and "set(net.bus.index) - set(mg.nodes())" in body
            ctx.ob(R7, f"{CG}::create_nxgraph::add-untouched-buses", ok,
                   "buses without any edge are added as isolated nodes" if ok else
                   f"guard `{t}` / added set differ from net.bus.index: an in-service bus without edges is not added while out-of-service "
                   "buses still are nodes - it is missing from the graph and from every component", fg.loc(node))
    if not found:
        ctx.ob(R7, f"{CG}::create_nxgraph::add-untouched-buses", "set(net.bus.index) - set(mg.nodes())" in ast.unparse(fg.node),
               "buses without any edge are added as isolated nodes", fg.loc())
    # out-of-service buses are removed by LABEL; searches forward their switch / bus options to the graph they build
    rem = [c for c in ast.walk(fg.node) if isinstance(c, ast.Call) and isinstance(c.func, ast.Attribute) and c.func.attr in ("remove_node", "remove_nodes_from")
           and not any("nogobuses" in ast.unparse(a_) for a_ in c.args)]
    srcs = []
    for c in rem:
        par = next((n for n in ast.walk(fg.node) if isinstance(n, ast.For) and any(c is y for y in ast.walk(n))), None)
        srcs.append(ast.unparse(par.iter) if par is not None else ast.unparse(c.args[0]))
    src = next((x for x in srcs if "in_service" in x), "")
    ok = "net.bus.index[" in src.replace(" ", "") and "flatnonzero" not in src and "arange" not in src
    ctx.ob(R7, f"{CG}::create_nxgraph::remove-oos-buses-by-label", ok, f"out-of-service buses removed from `{src[:70]}`" if ok else
           f"out-of-service buses are removed by `{src[:80]}` (positions, not index labels): for a bus index other than 0..n-1 a dead bus stays and a "
           "live bus is removed", fg.loc())
    GS_ = "pandapower.topology.graph_searches"
    sig = {a_.arg for a_ in fg.node.args.args} | {a_.arg for a_ in fg.node.args.kwonlyargs}
    nfw = 0
    for fsi in ctx.repo.module(GS_).functions.values():
        own = {a_.arg for a_ in fsi.node.args.args} | {a_.arg for a_ in fsi.node.args.kwonlyargs}
        shared = (own & sig) - {"net"}
        if not shared:
            continue
        for c in ast.walk(fsi.node):
            if isinstance(c, ast.Call) and (dotted(c.func) or "").endswith("create_nxgraph"):
                nfw += 1
                kw = {k.arg for k in c.keywords if k.arg}
                missing = sorted(p for p in shared if p not in kw)
                ctx.ob(R7, f"{GS_}::{fsi.qualname}::forwards-options", not missing,
                       f"forwards {sorted(shared)} to create_nxgraph" if not missing else
                       f"{fsi.qualname} has the option(s) {missing} but does not hand them to create_nxgraph: the graph is built with the defaults, the "
                       "caller's choice is ignored", fsi.loc(c))
    if nfw < 2:
        ctx.fail(f"NODE-SET: only {nfw} graph-building searches with shared options found (confirmed: calc_distance_to_bus, unsupplied_buses, ...)")
    # trafo3w: open switches are matched as (index, bus) pairs
    pair = [n for n in ast.walk(fg.node) if isinstance(n, ast.Assign) and ast.unparse(n.targets[0]) == "open_switch" and "INDEX" in ast.unparse(n.value)]
    k = 0
    for n in pair:
        v = ast.unparse(n.value).replace(" ", "")
        if "t3" not in ast.unparse(fg.node)[:0] and "BUS" in v:
            k += 1
            isins = [c for c in ast.walk(n.value) if isinstance(c, ast.Call) and ast.unparse(c.func).endswith("isin")]
            ok = len(isins) == 1 and "INDEX" in ast.unparse(isins[0].args[0]) and "BUS" in ast.unparse(isins[0].args[0])
            ctx.ob(R7, f"{CG}::create_nxgraph::trafo3w-open-switch-pair#{k}", ok,
                   "open trafo3w switches matched as one (index, bus) key" if ok else
                   f"`{v[:110]}` tests index and bus independently: a transformer with an open switch at another bus loses the edges at a bus where "
                   "another transformer's switch is open", fg.loc(n))
    if k < 1:
        ctx.fail("create_nxgraph: matching of open trafo3w switches not found")


def variants(repo):
    p = "pandapower/topology/create_graph.py"
    g = "pandapower/topology/graph_searches.py"
    V = Variant
    return [
        V("out-of-service buses removed by position", p, lambda s: s.replace("        for b in net.bus.index[~net.bus.in_service.values]:\n            if b in mg:\n                mg.remove_node(b)\n", "        mg.remove_nodes_from(np.flatnonzero(~net.bus.in_service.values))\n", 1), "remove-oos-buses-by-label"),
        V("distance search ignores respect_switches", g, replace_once("g = create_nxgraph(net, respect_switches=respect_switches, nogobuses=nogobuses,\n                           notravbuses=notravbuses)", "g = create_nxgraph(net, nogobuses=nogobuses, notravbuses=notravbuses)"), "forwards-options"),
        V("untouched buses counted against in-service buses", p, replace_once("if len(mg.nodes()) < len(net.bus.index):", "if len(mg.nodes()) < np.count_nonzero(net.bus.in_service.values):"), "NODE-SET"),
        V("trafo3w open switch matched by index and bus separately", p, replace_once("open_switch = np.isin(indices[:, INDEX] + indices[:, BUS] * 1j,\n                                          open_trafo3w)", "open_switch = np.isin(indices[:, INDEX], open_trafo3w_index) & np.isin(indices[:, BUS], open_trafo3w_buses)"), "NODE-SET"),
        V("trafo block uses line code", p, in_function("create_nxgraph", replace_once('mask = (net.switch.et.values == "t") & open_sw', 'mask = (net.switch.et.values == "l") & open_sw')), "SWITCH-CODE"),
        V("line mask ignores switches", p, in_function("create_nxgraph", replace_once("                in_service &= ~open_lines_mask\n", "                pass\n")), "line:switches"),
        V("open bus-bus switches are edges", p, in_function("create_nxgraph", replace_once('in_service = (switch.et.values == "b") & ~open_sw', 'in_service = (switch.et.values == "b")')), "switch:closed"),
        V("oos buses kept", p, in_function("create_nxgraph", replace_once("    if not include_out_of_service:\n        for b in net.bus.index[~net.bus.in_service.values]:", "    if include_out_of_service:\n        for b in net.bus.index[~net.bus.in_service.values]:")), "NODE-RULES"),
        V("out of service lines included", p, replace_once("np.ones(n, dtype=bool) if include_out_of_service else tab.in_service.values.copy()", "np.ones(n, dtype=bool)"), "in_service"),
        V("distance on a simple graph", g, in_function("calc_distance_to_bus", replace_once("notravbuses=notravbuses)", "notravbuses=notravbuses, multi=False)")), "multigraph"),
        V("tcsc block obeys the impedance option", p, replace_once('tcsc = get_edge_table(net, "tcsc", include_tcsc)', 'tcsc = get_edge_table(net, "tcsc", include_impedances)'), "INCLUDE-OPTION"),
        V("components not removed", g, in_function("connected_components", replace_once("        nodes -= cc\n", "        pass\n")), "PARTITION"),
    ]
