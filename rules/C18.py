"""C18 - short-circuit results are consistent with the IEC 60909 relations: structural clauses.

Decided:
 * SC-SHAPE   monomial-shape abstract interpretation of every closed-form short-circuit relation: ikss / ip / ith in
              kA, skss in MVA, rk/xk in ohm, all with base-power degree 0 (results do not depend on net.sn_mva) and with
              the documented dependences (voltage factor of the right case, equivalent impedance, bus voltage); the
              short-circuit admittances of ext_grid / motor / gen / ward in MW at 1 pu
 * SC-FACTOR  literal factor of each closed form (evaluated with every non-literal leaf set to one): 3ph ikss 1/sqrt(3),
              2ph ikss 1/2 (so 2ph = sqrt(3)/2 of 3ph), skss sqrt(3) (3ph) and 1/sqrt(3) (2ph), ip sqrt(2), 1ph sqrt(3)
              with z = 2 z1 + z0
 * KAPPA-RANGE interval evaluation of kappa = 1.02 + 0.98 exp(-3 R/X) over R/X >= 0 and of the method-B clip
 * SC-LOCAL   the closed forms of a faulted bus read only that bus's row (no reduction over the faulted buses, every
              row selection is the fault-bus selection): results do not depend on which other buses are faulted
 * SC-SIBLING the inverse_y=True and inverse_y=False branches compute the same quantities (fault impedance added in
              both, same pre-fault superposition)
Not decided: the Thevenin impedance itself (a linear solve), agreement with an independent network model.
"""
import ast
import math

from ppsa.absint import AV, E
from ppsa import shape as sh
from ppsa.astutil import norm, dotted, calls_in, call_name, last_attr, names_in, walk_no_nested, stmts_in_order
from ppsa.obligations import Case, Sink, run_cases
from ppsa.selftest import Variant, replace_once, in_function

CUR = "pandapower.shortcircuit.currents"
IMP = "pandapower.shortcircuit.impedance"
KAP = "pandapower.shortcircuit.kappa"
PPC = "pandapower.shortcircuit.ppc_conversion"
RES = "pandapower.shortcircuit.results"
BBU = "pandapower.build_bus"

KA = {"A": 1}
MVA = {"V": 1, "A": 1}
OHM = {"V": 1, "A": -1}


def _base(**kw):
    o = {"mode": "sc", "case": "max", "inverse_y": True, "use_pre_fault_voltage": False, "fault_impedance": 0j,
         "r_fault_ohm": 0., "x_fault_ohm": 0., "tk_s": 1., "kappa": True, "topology": "auto", "kappa_method": "C",
         "fault": "3ph", "ip": True, "ith": True, "return_all_currents": False, "branch_results": False}
    o.update(kw)
    return o


def shape_cases():
    cases = []
    zdeps = ["ppc.bus.R_EQUIV", "ppc.bus.X_EQUIV", "ppc.bus.BASE_KV", "ppc.baseMVA"]
    for fault in ("3ph", "2ph"):
        for case in ("max", "min"):
            c = "ppc.bus.C_MAX" if case == "max" else "ppc.bus.C_MIN"
            notc = "ppc.bus.C_MIN" if case == "max" else "ppc.bus.C_MAX"
            sinks = [
                Sink("store:ppc.bus.IKSS1", KA, 3, zdeps + [c], forbids=[notc]),
                Sink("store:ppc.bus.SKSS", MVA, 6, ["ppc.bus.BASE_KV"]),
                Sink("store:ppc.bus.R_EQUIV_OHM", OHM, 0, ["ppc.bus.R_EQUIV", "ppc.bus.BASE_KV", "ppc.baseMVA"], forbids=["ppc.bus.X_EQUIV"]),
                Sink("store:ppc.bus.X_EQUIV_OHM", OHM, 0, ["ppc.bus.X_EQUIV", "ppc.bus.BASE_KV", "ppc.baseMVA"], forbids=["ppc.bus.R_EQUIV"]),
            ]
            cases.append(Case(f"ikss-{fault}-{case}", f"{CUR}:_calc_ikss", sinks, options=_base(fault=fault, case=case)))
    ppc0 = AV(E, "ppc", "ppc", sh.TOP)
    cases.append(Case("ikss-1ph", f"{CUR}:_calc_ikss_1ph", [
        Sink("store:ppc.bus.IKSS1", KA, 3, zdeps + ["ppc.bus.C_MAX"]),
        Sink("store:ppc.bus.R_EQUIV_OHM", OHM, 0, ["ppc.bus.R_EQUIV"]),
    ], args={"ppci_0": ppc0}, options=_base(fault="1ph")))
    cases.append(Case("ip", f"{CUR}:_calc_ip", [
        Sink("store:ppc.bus.IP", KA, 3, ["ppc.bus.KAPPA", "ppc.bus.IKSS1", "ppc.bus.IKSS2"]),
    ], options=_base()))
    cases.append(Case("ith", f"{CUR}:_calc_ith", [
        Sink("store:ppc.bus.ITH", {}, 0, ["ppc.bus.KAPPA", "ppc.bus.IKSS1", "ppc.bus.IKSS2"], deps_only=True),
    ], options=_base()))
    for case in ("max", "min"):
        c = "ppc.bus.C_MAX" if case == "max" else "ppc.bus.C_MIN"
        cases.append(Case(f"ext-grid-{case}", f"{BBU}:_add_ext_grid_sc_impedance", [
            Sink("store:ppc.bus.GS", MVA, 6, [f"net.ext_grid.s_sc_{case}_mva", f"net.ext_grid.rx_{case}", c, "ppc.baseMVA", "is.ext_grid"]),
            Sink("store:ppc.bus.BS", MVA, 6, [f"net.ext_grid.s_sc_{case}_mva", f"net.ext_grid.rx_{case}", c]),
        ], options=_base(case=case)))
    cases.append(Case("motor", f"{BBU}:_add_motor_impedances_ppc", [
        Sink("store:ppc.bus.GS", MVA, 6, ["net.motor.lrc_pu", "net.motor.vn_kv", "net.motor.pn_mech_mw", "net.motor.efficiency_n_percent",
                                          "net.motor.cos_phi_n", "net.motor.rx", "ppc.bus.BASE_KV", "is.motor"]),
        Sink("store:ppc.bus.BS", MVA, 6, ["net.motor.lrc_pu", "net.motor.rx"]),
    ], options=_base()))
    cases.append(Case("gen", f"{PPC}:_add_gen_sc_z_kg_ks", [
        Sink("store:ppc.bus.GS", MVA, 6, ["net.gen.rdss_ohm", "net.gen.xdss_pu", "net.gen.vn_kv", "net.gen.sn_mva", "net.bus.vn_kv"]),
        Sink("store:ppc.bus.BS", MVA, 6, ["net.gen.xdss_pu", "net.gen.vn_kv", "net.gen.sn_mva"]),
        Sink("store:ppc.bus.GS_GEN", MVA, 6, ["net.gen.rdss_ohm"]),
        Sink("store:ppc.bus.K_G", {}, 0, ["net.gen.xdss_pu", "net.gen.cos_phi", "ppc.bus.C_MAX"]),
        Sink("store:ppc.bus.V_G", {"V": 1}, 3, ["net.gen.vn_kv"]),
        Sink("store:ppc.bus.K_SG", {}, 0, ["ppc.bus.C_MAX", "net.trafo.vn_hv_kv", "net.trafo.vn_lv_kv"]),
    ], options=_base()))
    cases.append(Case("ward", f"{PPC}:_add_ward_sc_z", [
        Sink("store:ppc.bus.GS", MVA, 6, ["net.ward.pz_mw", "net.xward.pz_mw"]),
        Sink("store:ppc.bus.BS", MVA, 6, ["net.ward.qz_mvar", "net.xward.qz_mvar"]),
    ], options=_base()))
    cases.append(Case("kt", f"{PPC}:_add_kt", [
        Sink("store:ppc.branch.K_T", {}, 0, ["net.trafo.vk_percent", "net.trafo.vkr_percent", "net.trafo.sn_mva", "ppc.bus.C_MAX"]),
    ], options=_base()))
    cases.append(Case("bus-results", f"{RES}:_get_bus_results", [
        Sink("store:net.res_bus_sc.ikss_ka", KA, 3, ["ppc.bus.IKSS1", "ppc.bus.IKSS2"]),
        Sink("store:net.res_bus_sc.skss_mw", MVA, 6, ["ppc.bus.SKSS"]),
        Sink("store:net.res_bus_sc.ip_ka", KA, 3, ["ppc.bus.IP"]),
        Sink("store:net.res_bus_sc.ith_ka", KA, 3, ["ppc.bus.ITH"]),
        Sink("store:net.res_bus_sc.rk_ohm", OHM, 0, ["ppc.bus.R_EQUIV_OHM"], allow_zero=True),
        Sink("store:net.res_bus_sc.xk_ohm", OHM, 0, ["ppc.bus.X_EQUIV_OHM"], allow_zero=True),
    ], options=_base()))
    return cases


# ------------------------------------------------------------------------------------------------ literal factors
def _coef(expr, env, depth=0):
    """literal coefficient of a product/quotient expression: every non-literal leaf counts as 1; sums are only accepted
    when all terms have the same coefficient.  None = not a closed form of that kind."""
    if depth > 40:
        return None
    if isinstance(expr, ast.Constant):
        if isinstance(expr.value, (int, float)) and not isinstance(expr.value, bool):
            return float(expr.value)
        if isinstance(expr.value, complex):
            return 1.0
        return None
    if isinstance(expr, ast.Name):
        if expr.id in env:
            return _coef(env[expr.id], env, depth + 1)
        return 1.0
    if isinstance(expr, ast.Subscript) and isinstance(expr.value, ast.Name) and expr.value.id in env:
        return _coef(env[expr.value.id], env, depth + 1)
    if isinstance(expr, (ast.Subscript, ast.Attribute)):
        return 1.0
    if isinstance(expr, ast.UnaryOp) and isinstance(expr.op, (ast.USub, ast.UAdd)):
        return _coef(expr.operand, env, depth + 1)
    if isinstance(expr, ast.BinOp):
        a, b = _coef(expr.left, env, depth + 1), _coef(expr.right, env, depth + 1)
        if a is None or b is None:
            return None
        if isinstance(expr.op, ast.Mult):
            return a * b
        if isinstance(expr.op, ast.Div):
            return a / b if b else None
        if isinstance(expr.op, ast.Pow):
            if isinstance(expr.right, ast.Constant) and isinstance(expr.right.value, (int, float)):
                return a ** expr.right.value
            return None
        if isinstance(expr.op, (ast.Add, ast.Sub)):
            return a if abs(a - b) < 1e-12 else None
        return None
    if isinstance(expr, ast.Call):
        nm = last_attr(expr)
        if nm == "sqrt" and expr.args:
            a = _coef(expr.args[0], env, depth + 1)
            if isinstance(expr.args[0], ast.Constant):
                return math.sqrt(float(expr.args[0].value))
            return None if a is None else math.sqrt(a)
        if nm in ("abs", "real", "conj", "absolute", "array", "asarray", "flatten") and (expr.args or isinstance(expr.func, ast.Attribute)):
            return _coef(expr.args[0], env, depth + 1) if expr.args else _coef(expr.func.value, env, depth + 1)
        if isinstance(expr.func, ast.Name) and expr.func.id == "abs" and expr.args:
            return _coef(expr.args[0], env, depth + 1)
        return 1.0
    if isinstance(expr, ast.IfExp):
        a, b = _coef(expr.body, env, depth + 1), _coef(expr.orelse, env, depth + 1)
        return a if (a is not None and b is not None and abs(a - b) < 1e-12) else None
    return None


def _branch_stores(fn, fault):
    """assignments in source order; `if fault == "x"` / elif chains are followed only on the matching side; other ifs are
    descended on both sides"""
    out = []

    def walk(body):
        for st in body:
            if isinstance(st, ast.If):
                t = st.test
                if isinstance(t, ast.Compare) and isinstance(t.left, ast.Name) and t.left.id == "fault" and isinstance(t.ops[0], ast.Eq) \
                        and isinstance(t.comparators[0], ast.Constant):
                    if t.comparators[0].value == fault:
                        walk(st.body)
                    else:
                        walk(st.orelse)
                    continue
                walk(st.body)
                walk(st.orelse)
                continue
            if isinstance(st, (ast.For, ast.While, ast.With, ast.Try)):
                continue
            out.append(st)
    walk(fn.body)
    return out


def _col_store(st, col):
    if isinstance(st, (ast.Assign, ast.AugAssign)):
        t = st.targets[0] if isinstance(st, ast.Assign) else st.target
        if isinstance(t, ast.Subscript) and isinstance(t.slice, ast.Tuple) and len(t.slice.elts) == 2 and \
                isinstance(t.slice.elts[1], ast.Name) and t.slice.elts[1].id == col:
            return True
    return False


def rule_factor(ctx):
    R = "SC-FACTOR"
    ctx.rule(R, "literal factor of the closed forms (non-literal leaves set to one, local names expanded): ikss 3ph 1/sqrt(3), "
                "ikss 2ph 1/2, skss 3ph sqrt(3), skss 2ph 1/sqrt(3), ip sqrt(2), ikss 1ph sqrt(3) over |2 z1 + z0|")
    fi = ctx.repo.func(f"{CUR}:_calc_ikss")
    want = {("3ph", "IKSS1"): 1 / math.sqrt(3), ("2ph", "IKSS1"): 0.5, ("3ph", "SKSS"): math.sqrt(3), ("2ph", "SKSS"): 1 / math.sqrt(3)}
    got = {}
    for fault in ("3ph", "2ph"):
        sts = _branch_stores(fi.node, fault)
        env = {}
        for st in sts:
            if isinstance(st, ast.Assign) and len(st.targets) == 1:
                t = st.targets[0]
                # chained:  baseI = ppci["internal"]["baseI"] = <expr>
                if isinstance(t, ast.Name):
                    env[t.id] = st.value
            if isinstance(st, ast.Assign) and len(st.targets) == 2 and isinstance(st.targets[0], ast.Name):
                env[st.targets[0].id] = st.value
            if isinstance(st, ast.AugAssign) and isinstance(st.target, ast.Name) and isinstance(st.op, (ast.Div, ast.Mult)):
                env[st.target.id] = ast.BinOp(left=env.get(st.target.id, ast.Constant(1.0)), op=st.op, right=st.value)
            for col in ("IKSS1", "SKSS"):
                if _col_store(st, col) and isinstance(st, ast.Assign) and (fault, col) not in got:
                    got[(fault, col)] = (_coef(st.value, dict(env)), st)
    for k, w in want.items():
        c, st = got.get(k, (None, None))
        ok = c is not None and abs(c - w) < 1e-9
        ctx.ob(R, f"{CUR}::_calc_ikss::{k[0]}:{k[1]}", ok,
               f"literal factor {c:.6f} = required {w:.6f}" if ok else
               f"literal factor of {k[1]} for a {k[0]} fault is {c if c is None else round(c, 6)}, required {w:.6f}", fi.loc(st) if st is not None else fi.loc())
    a, b = got.get(("2ph", "IKSS1"), (None, None))[0], got.get(("3ph", "IKSS1"), (None, None))[0]
    ok = a is not None and b is not None and abs(a / b - math.sqrt(3) / 2) < 1e-9
    ctx.ob(R, f"{CUR}::_calc_ikss::ratio-2ph-3ph", ok,
           "ikss(2ph) / ikss(3ph) = sqrt(3)/2" if ok else f"ikss(2ph)/ikss(3ph) literal ratio is {None if not (a and b) else round(a / b, 6)}, required 0.866025", fi.loc())
    # ip
    fp = ctx.repo.func(f"{CUR}:_calc_ip")
    env = {}
    c = None
    node = None
    for st in stmts_in_order(fp.node.body):
        if isinstance(st, ast.Assign) and isinstance(st.targets[0], ast.Name):
            env[st.targets[0].id] = st.value
        if _col_store(st, "IP"):
            c = _coef(st.value, env)
            node = st
    ok = c is not None and abs(c - math.sqrt(2)) < 1e-9
    ctx.ob(R, f"{CUR}::_calc_ip::IP", ok, "ip = sqrt(2) (kappa ikss1 + ikss2)" if ok else f"literal factor of ip is {c}, required sqrt(2)", fp.loc(node) if node else fp.loc())
    # kappa multiplies the voltage-source part only
    def terms(e):
        if isinstance(e, ast.BinOp) and isinstance(e.op, (ast.Add, ast.Sub)):
            return terms(e.left) + terms(e.right)
        if isinstance(e, ast.BinOp) and isinstance(e.op, ast.Mult):
            # distribute a product over a parenthesised sum
            for a, b in ((e.left, e.right), (e.right, e.left)):
                if isinstance(b, ast.BinOp) and isinstance(b.op, (ast.Add, ast.Sub)):
                    return [ast.BinOp(left=a, op=ast.Mult(), right=t) for t in terms(b)]
        return [e]
    cols = lambda e: {n.slice.elts[1].id for n in ast.walk(e) if isinstance(n, ast.Subscript) and isinstance(n.slice, ast.Tuple)
                      and len(n.slice.elts) == 2 and isinstance(n.slice.elts[1], ast.Name)}
    ts = [cols(t) for t in terms(env["ip"])] if "ip" in env else []
    ok = any(t >= {"KAPPA", "IKSS1"} and "IKSS2" not in t for t in ts) and any("IKSS2" in t and "KAPPA" not in t for t in ts) \
        and not any({"KAPPA", "IKSS2"} <= t for t in ts)
    ctx.ob(R, f"{CUR}::_calc_ip::kappa-on-ikss1", ok,
           "kappa multiplies ikss1 (voltage source contribution) only" if ok else f"terms of ip read {ts}: kappa must multiply IKSS1 and not IKSS2",
           fp.loc(node) if node else fp.loc())
    # 1ph
    f1 = ctx.repo.func(f"{CUR}:_calc_ikss_1ph")
    env = {}
    cs = []
    for st in stmts_in_order(f1.node.body):
        if isinstance(st, ast.Assign) and isinstance(st.targets[0], ast.Name):
            env[st.targets[0].id] = st.value
        if _col_store(st, "IKSS1") and isinstance(st, ast.Assign):
            e = dict(env)
            e.pop("z_equiv", None)
            cs.append((_coef(st.value, e), st))
    ok = len(cs) == 2 and all(c is not None and abs(c - math.sqrt(3)) < 1e-9 for c, _ in cs)
    ctx.ob(R, f"{CUR}::_calc_ikss_1ph::IKSS1", ok, "ikss(1ph) = sqrt(3) c Un / |2 z1 + z0|" if ok else f"literal factors {[c for c, _ in cs]}, required sqrt(3)", f1.loc())
    z = env.get("z_equiv")
    ok = False
    desc = "z_equiv not found"
    if z is not None:
        inner = z.args[0] if isinstance(z, ast.Call) and z.args else z

        def top_terms(e):
            if isinstance(e, ast.BinOp) and isinstance(e.op, ast.Add):
                return top_terms(e.left) + top_terms(e.right)
            return [e]
        tt = top_terms(inner)
        facs = {}
        for t in tt:
            mats = {n.value.value.id for n in ast.walk(t) if isinstance(n, ast.Subscript) and isinstance(n.value, ast.Subscript)
                    and isinstance(n.value.value, ast.Name)}
            for m_ in mats:
                facs[m_] = _coef(t, {})
        desc = f"z = |{facs}|"
        ok = facs.get("ppci") == 2.0 and facs.get("ppci_0") == 1.0 and isinstance(z, ast.Call) and last_attr(z) in ("abs", "absolute")
    ctx.ob(R, f"{CUR}::_calc_ikss_1ph::z-2z1-plus-z0", ok, "z = |2 (r1 + j x1) + (r0 + j x0)|" if ok else f"{desc}: required factor 2 on the positive and 1 on the zero sequence impedance", f1.loc())


# ------------------------------------------------------------------------------------------------ kappa range
def _interval(expr, env):
    """interval [lo, hi] of a closed form; env maps names to intervals"""
    if isinstance(expr, ast.Constant) and isinstance(expr.value, (int, float)):
        return (float(expr.value), float(expr.value))
    if isinstance(expr, ast.Name):
        return env.get(expr.id)
    if isinstance(expr, ast.UnaryOp) and isinstance(expr.op, ast.USub):
        a = _interval(expr.operand, env)
        return None if a is None else (-a[1], -a[0])
    if isinstance(expr, ast.BinOp):
        a, b = _interval(expr.left, env), _interval(expr.right, env)
        if a is None or b is None:
            return None
        if isinstance(expr.op, ast.Add):
            return (a[0] + b[0], a[1] + b[1])
        if isinstance(expr.op, ast.Sub):
            return (a[0] - b[1], a[1] - b[0])
        if isinstance(expr.op, ast.Mult):
            def mul(x, y):
                if x == 0 or y == 0:
                    return 0.0
                return x * y
            ps = [mul(x, y) for x in a for y in b]
            return (min(ps), max(ps))
        return None
    if isinstance(expr, ast.Call) and last_attr(expr) == "exp" and len(expr.args) == 1:
        a = _interval(expr.args[0], env)
        if a is None:
            return None
        return (0.0 if a[0] == -math.inf else math.exp(a[0]), math.inf if a[1] == math.inf else math.exp(a[1]))
    return None


def rule_kappa(ctx):
    R = "KAPPA-RANGE"
    ctx.rule(R, "kappa(R/X) evaluated by interval arithmetic over R/X in [0, inf) lies in [1.02, 2.0]; method B multiplies by a "
                "correction in {1, 1.15} and clips to [1, kappa_max] with kappa_max in {1.8, 2.0}, which keeps it in [1.02, 2.0]")
    ctx.assume("R/X of the equivalent impedance is non-negative")
    fk = ctx.repo.func(f"{KAP}:_kappa")
    rets = [n for n in walk_no_nested(fk.node) if isinstance(n, ast.Return)]
    if len(rets) != 1:
        ctx.fail("_kappa: single return not found")
    arg = fk.node.args.args[0].arg
    iv = _interval(rets[0].value, {arg: (0.0, math.inf)})
    ok = iv is not None and iv[0] >= 1.02 - 1e-12 and iv[1] <= 2.0 + 1e-12
    ctx.ob(R, f"{KAP}::_kappa::range", ok,
           f"kappa in [{iv[0]:.4f}, {iv[1]:.4f}] for R/X >= 0" if ok else
           f"kappa = {norm(rets[0].value, 60)} ranges over {iv} for R/X >= 0, outside [1.02, 2]", fk.loc(rets[0]))
    # monotone decreasing in rx: kappa(0) is the maximum -> exponent coefficient negative
    iv0 = _interval(rets[0].value, {arg: (0.0, 0.0)})
    ok = iv0 is not None and abs(iv0[1] - 2.0) < 1e-9
    ctx.ob(R, f"{KAP}::_kappa::at-zero", ok, "kappa(0) = 2.0" if ok else f"kappa(0) = {iv0}", fk.loc(rets[0]))
    # method B
    fb = ctx.repo.func(f"{KAP}:_kappa_method_b")
    consts = {"kappa_max": [], "kappa_korr": []}
    for n in ast.walk(fb.node):
        if isinstance(n, ast.Assign):
            t = n.targets[0]
            name = t.id if isinstance(t, ast.Name) else (t.value.id if isinstance(t, ast.Subscript) and isinstance(t.value, ast.Name) else None)
            if name in consts:
                v = n.value
                if isinstance(v, ast.Call) and last_attr(v) == "full" and len(v.args) == 2:
                    v = v.args[1]
                if isinstance(v, ast.Constant) and isinstance(v.value, (int, float)):
                    consts[name].append(float(v.value))
                else:
                    consts[name].append(None)
    rets = [n for n in walk_no_nested(fb.node) if isinstance(n, ast.Return)]
    clip = rets[0].value if rets and isinstance(rets[0].value, ast.Call) and last_attr(rets[0].value) == "clip" else None
    ok = False
    detail = "return np.clip(kappa_korr * _kappa(rx), 1, kappa_max) not recognised"
    if clip is not None and len(clip.args) == 3 and None not in consts["kappa_max"] and None not in consts["kappa_korr"] \
            and consts["kappa_max"] and consts["kappa_korr"]:
        lo = _interval(clip.args[1], {})
        inner = clip.args[0]
        uses = names_in(inner)
        kk = (min(consts["kappa_korr"]), max(consts["kappa_korr"]))
        prod_lo = kk[0] * iv[0] if iv else None
        hi = max(consts["kappa_max"])
        upper_is_max = isinstance(clip.args[2], ast.Name) and clip.args[2].id == "kappa_max"
        calls_kappa = any(call_name(c) == "_kappa" for c in calls_in(inner))
        ok = lo is not None and upper_is_max and calls_kappa and "kappa_korr" in uses and hi <= 2.0 and prod_lo is not None and \
            max(lo[0], prod_lo) >= 1.02 - 1e-12
        detail = f"clip(kappa_korr in {sorted(set(consts['kappa_korr']))} * kappa, {lo}, kappa_max in {sorted(set(consts['kappa_max']))})"
    ctx.ob(R, f"{KAP}::_kappa_method_b::clip-range", ok,
           detail + " stays in [1.02, 2.0]" if ok else detail + ": kappa of method B can leave [1.02, 2.0]", fb.loc(rets[0]) if rets else fb.loc())
    # every producer goes through _kappa
    fa = ctx.repo.func(f"{KAP}:_add_kappa_to_ppc")
    asg = [n for n in ast.walk(fa.node) if isinstance(n, ast.Assign) and isinstance(n.targets[0], ast.Name) and n.targets[0].id == "kappa"]
    ok = len(asg) >= 3 and all(isinstance(n.value, ast.Call) and call_name(n.value) in ("_kappa", "_kappa_method_c", "_kappa_method_b") for n in asg)
    ctx.ob(R, f"{KAP}::_add_kappa_to_ppc::producers", ok, "kappa comes from _kappa / method B / method C only", fa.loc())
    fc = ctx.repo.func(f"{KAP}:_kappa_method_c")
    rets = [n for n in walk_no_nested(fc.node) if isinstance(n, ast.Return)]
    ok = len(rets) == 1 and isinstance(rets[0].value, ast.Call) and call_name(rets[0].value) == "_kappa"
    ctx.ob(R, f"{KAP}::_kappa_method_c::returns-kappa", ok, "method C returns _kappa(R/X at the equivalent frequency)", fc.loc())


# ------------------------------------------------------------------------------------------------ locality
REDUCTIONS = {"sum", "max", "min", "mean", "nanmax", "nanmin", "nansum", "prod", "cumsum", "median", "amax", "amin", "dot", "average"}


def rule_local(ctx):
    R = "SC-LOCAL"
    ctx.rule(R, "in _calc_ikss (voltage-source part) and _calc_rx every store into rows `bus_idx` reads ppci['bus'] only at rows "
                "`bus_idx` (or a selection derived from it) and applies no reduction over the faulted buses; per-bus vectors are "
                "indexed with bus_idx")
    for fq, cols in ((f"{CUR}:_calc_ikss", ("IKSS1", "SKSS", "R_EQUIV_OHM", "X_EQUIV_OHM")), (f"{IMP}:_calc_rx", ("R_EQUIV", "X_EQUIV"))):
        fi = ctx.repo.func(fq)
        env = {}
        derived = {"bus_idx"}
        n = 0
        for st in stmts_in_order(fi.node.body):
            if isinstance(st, ast.Assign) and isinstance(st.targets[0], ast.Name):
                env.setdefault(st.targets[0].id, []).append(st.value)
                v = st.value
                if isinstance(v, ast.Subscript) and isinstance(v.value, ast.Name) and v.value.id in derived:
                    derived.add(st.targets[0].id)
            for col in cols:
                if not _col_store(st, col):
                    continue
                t = st.targets[0] if isinstance(st, ast.Assign) else st.target
                row = t.slice.elts[0]
                if not (isinstance(row, ast.Name) and row.id in derived):
                    continue
                n += 1
                # expand local names (two levels)
                exprs = [st.value]
                seen = set()
                frontier = [st.value]
                for _ in range(3):
                    nxt = []
                    for e in frontier:
                        for nm in names_in(e):
                            if nm in env and nm not in seen and nm not in derived:
                                seen.add(nm)
                                nxt += env[nm]
                    exprs += nxt
                    frontier = nxt
                bad = None
                for e in exprs:
                    for node in ast.walk(e):
                        if isinstance(node, ast.Call) and last_attr(node) in REDUCTIONS and "shape" not in norm(node):
                            bad = f"reduction {norm(node, 50)}"
                        if isinstance(node, ast.Subscript) and norm(node.value).replace('"', "'") == "ppci['bus']" and isinstance(node.slice, ast.Tuple):
                            r0 = node.slice.elts[0]
                            if isinstance(r0, ast.Slice):
                                # whole-column read: allowed only for per-bus vectors that are indexed by bus_idx afterwards (baseI)
                                continue
                            if not (isinstance(r0, ast.Name) and r0.id in derived):
                                bad = f"row selection {norm(r0, 40)} in {norm(node, 60)}"
                ctx.ob(R, f"{fi.module.name}::{fi.qualname}::{col}:{norm(st.value, 40)}", bad is None,
                       f"{col} of a faulted bus is computed from that bus's row only" if bad is None else
                       f"{col} at the faulted buses depends on other rows ({bad}): the result of a bus depends on which other buses are faulted",
                       fi.loc(st))
        if n < (3 if "ikss" in fq else 2):
            ctx.fail(f"{fq}: stores into the fault-bus rows not found ({n})")
    # whole-vector quantities (defined from a full column of ppci['bus']) are indexed with the fault-bus selection where they
    # enter the per-bus formulas
    fi = ctx.repo.func(f"{CUR}:_calc_ikss")
    whole = set()
    for st in stmts_in_order(fi.node.body):
        if isinstance(st, ast.Assign) and isinstance(st.targets[0], ast.Name):
            for node in ast.walk(st.value):
                if isinstance(node, ast.Subscript) and norm(node.value).replace('"', "'") == "ppci['bus']" and isinstance(node.slice, ast.Tuple) \
                        and isinstance(node.slice.elts[0], ast.Slice):
                    whole.add(st.targets[0].id)
    whole -= {"V0"}
    pm = {c: p for p in ast.walk(fi.node) for c in ast.iter_child_nodes(p)}
    n_use = 0
    bad = None
    for node in ast.walk(fi.node):
        if isinstance(node, ast.Name) and node.id in whole and isinstance(node.ctx, ast.Load):
            par = pm.get(node)
            # only uses inside statements that compute per-bus results
            st = node
            while st in pm and not isinstance(st, ast.stmt):
                st = pm[st]
            tgt = norm(st.targets[0]) if isinstance(st, ast.Assign) else (norm(st.target) if isinstance(st, ast.AugAssign) else "")
            if not (tgt.startswith("ikss1") or "bus_idx" in tgt):
                continue
            n_use += 1
            if not (isinstance(par, ast.Subscript) and par.value is node and any(isinstance(x, ast.Name) and x.id in ("bus_idx", "gen_bus_idx") for x in ast.walk(par.slice))):
                bad = norm(st, 60)
    ctx.ob(R, f"{CUR}::_calc_ikss::vectors-indexed-by-fault-bus", bad is None and n_use >= 1,
           f"whole-network vectors {sorted(whole)} are taken at the faulted bus ({n_use} uses)" if bad is None and n_use >= 1 else
           f"'{bad}' uses a whole-network vector without selecting the faulted bus" if bad else "no per-bus use of the base-current vector found", fi.loc())


def _negated(e):
    if isinstance(e, ast.UnaryOp) and isinstance(e.op, ast.USub):
        return True
    return isinstance(e, ast.BinOp) and isinstance(e.op, (ast.Mult, ast.MatMult)) and _negated(e.left)


def rule_sibling(ctx):
    R = "SC-SIBLING"
    ctx.rule(R, "the inverse_y=True branch (explicit Zbus) and the inverse_y=False branch (factorised solves) compute the same "
                "quantity: z_equiv = diagonal entry + fault impedance in both; V_ikss = V0 - Z i (or -Z i without valid pre-fault "
                "voltage) in both")
    fi = ctx.repo.func(f"{IMP}:_calc_rx")
    br = [n for n in walk_no_nested(fi.node) if isinstance(n, ast.If) and "inverse_y" in norm(n.test)]
    if len(br) != 1:
        ctx.fail("_calc_rx: inverse_y dispatch not found")
    def zeq(block):
        for st in block:
            if isinstance(st, ast.Assign) and norm(st.targets[0]) == "z_equiv":
                return st.value
        return None
    a, b = zeq(br[0].body), zeq(br[0].orelse)
    def plus_fault(e):
        return isinstance(e, ast.BinOp) and isinstance(e.op, ast.Add) and "fault_impedance" in (norm(e.right), norm(e.left))
    ok = a is not None and b is not None and plus_fault(a) and plus_fault(b)
    ctx.ob(R, f"{IMP}::_calc_rx::fault-impedance-in-both", ok,
           "both branches add the fault impedance to the diagonal entry" if ok else
           f"branches differ: '{norm(a, 50) if a is not None else None}' vs '{norm(b, 50) if b is not None else None}': results depend on inverse_y", fi.loc(br[0]))
    ok = a is not None and b is not None and "bus_idx" in names_in(a) and "bus_idx" in names_in(b)
    ctx.ob(R, f"{IMP}::_calc_rx::diagonal-at-fault-bus", ok, "both branches take the diagonal entry at the faulted buses", fi.loc(br[0]))
    # r/x from the same z
    sts = list(stmts_in_order(fi.node.body))
    rs = [st for st in sts if _col_store(st, "R_EQUIV")]
    xs = [st for st in sts if _col_store(st, "X_EQUIV")]
    ok = len(rs) == 1 and len(xs) == 1 and norm(rs[0].value).endswith(".real") and norm(xs[0].value).endswith(".imag") and \
        norm(rs[0].value)[:-5] == norm(xs[0].value)[:-5] == "z_equiv"
    ctx.ob(R, f"{IMP}::_calc_rx::r-x-from-z", ok, "R_EQUIV = Re z, X_EQUIV = Im z of the same z", fi.loc())
    # fault impedance per unit: divided by a base impedance that depends on the bus voltage and the base power
    defs = {st.targets[0].id: st.value for st in sts if isinstance(st, ast.Assign) and isinstance(st.targets[0], ast.Name)}
    fz = [st for st in sts if isinstance(st, ast.Assign) and norm(st.targets[0]) == "fault_impedance" and "r_fault" in names_in(st.value)]
    ok = False
    if fz and isinstance(fz[0].value, ast.BinOp) and isinstance(fz[0].value.op, ast.Div):
        den = fz[0].value.right
        dn = names_in(den)
        txt = norm(den) + "".join(norm(defs[n]) for n in dn if n in defs)
        ok = "BASE_KV" in txt and "baseMVA" in txt and {"r_fault", "x_fault"} <= names_in(fz[0].value.left)
    ctx.ob(R, f"{IMP}::_calc_rx::fault-impedance-per-unit", ok,
           "fault impedance (r + j x) is divided by the base impedance Un^2 / S_base" if ok else
           "the fault impedance in ohm is not converted with the base impedance of the faulted bus", fi.loc(fz[0]) if fz else fi.loc())
    # kappa method C works on a deep copy whose branch reactances and generator admittances were changed: both
    # branches must rebuild their solver object (Zbus / factorisation) from the new Ybus unconditionally
    fkc = ctx.repo.func(f"{KAP}:_kappa_method_c")
    brk = [n for n in walk_no_nested(fkc.node) if isinstance(n, ast.If) and "inverse_y" in norm(n.test)]
    ok = False
    why = "inverse_y dispatch not found"
    if brk:
        a_calls = [call_name(c) for st in brk[0].body for c in calls_in(st)]
        else_ = brk[0].orelse
        direct = [st for st in else_ if isinstance(st, ast.Assign) and "ybus_fact" in norm(st.targets[0]) and
                  any(call_name(c) == "factorized" for c in calls_in(st))]
        ok = "_calc_zbus" in a_calls and bool(direct)
        why = "the factorisation of the modified network is conditional (a stored one can be reused)" if not direct else "Zbus not rebuilt"
        pos_y = [i for i, st in enumerate(fkc.node.body) if any(call_name(c) == "_calc_ybus" for c in calls_in(st))]
        pos_b = fkc.node.body.index(brk[0]) if brk[0] in fkc.node.body else -1
        ok = ok and bool(pos_y) and pos_y[-1] < pos_b
    ctx.ob(R, f"{KAP}::_kappa_method_c::solver-rebuilt", ok,
           "both branches rebuild Zbus / the factorisation from the Ybus of the modified copy" if ok else
           f"_kappa_method_c: {why}: kappa (and ip, ith) then depend on inverse_y", fkc.loc(brk[0]) if brk else fkc.loc())
    # V_ikss
    fk = ctx.repo.func(f"{CUR}:_calc_ikss")
    br = [n for n in ast.walk(fk.node) if isinstance(n, ast.If) and "inverse_y" in norm(n.test)]
    if not br:
        ctx.fail("_calc_ikss: inverse_y dispatch not found")
    vs = [n for n in ast.walk(br[0]) if isinstance(n, ast.Assign) and "V_ikss" in norm(n.targets[0]) and isinstance(n.value, ast.IfExp)]
    shapes = []
    for n in vs:
        v = n.value
        shapes.append((norm(v.test), isinstance(v.body, ast.BinOp) and isinstance(v.body.op, ast.Sub) and "V0" in norm(v.body.left),
                       _negated(v.orelse)))
    ok = len(shapes) == 2 and shapes[0] == shapes[1] == ("valid_V", True, True)
    ctx.ob(R, f"{CUR}::_calc_ikss::superposition-in-both", ok,
           "both branches: V = V0 - Z i if the pre-fault voltage is valid else -Z i" if ok else f"branches differ: {shapes}", fk.loc(br[0]))


def rule_k_independent(ctx):
    """the network that is shared by all faulted buses must not depend on which buses are faulted in this call"""
    R = "SC-K-INDEPENDENT"
    ctx.rule(R, "_create_k_updated_ppci: every store into the shared `ppci` (the network used for all non-power-station fault buses) and "
                "every condition guarding such a store is independent of the parameter ppci_bus (the buses faulted in this call); only the "
                "per-bus copies ppci_gen may depend on it - otherwise calc_sc(bus=[a]) and calc_sc(bus=[a, b]) differ at bus a")
    fi = ctx.repo.func("pandapower.shortcircuit.ppc_conversion:_create_k_updated_ppci")
    tainted = {"ppci_bus"}
    changed = True
    while changed:
        changed = False
        for st in ast.walk(fi.node):
            if isinstance(st, ast.Assign) and len(st.targets) == 1 and isinstance(st.targets[0], ast.Name) and st.targets[0].id not in tainted \
                    and names_in(st.value) & tainted:
                tainted.add(st.targets[0].id)
                changed = True
            if isinstance(st, ast.For) and isinstance(st.target, ast.Name) and st.target.id not in tainted and names_in(st.iter) & tainted:
                tainted.add(st.target.id)
                changed = True
    n = 0

    def root(t):
        while isinstance(t, (ast.Subscript, ast.Attribute)):
            t = t.value
        return t.id if isinstance(t, ast.Name) else None

    def scan(body, guards):
        nonlocal n
        for st in body:
            if isinstance(st, ast.If):
                scan(st.body, guards + [st.test])
                scan(st.orelse, guards + [st.test])
            elif isinstance(st, (ast.For, ast.While)):
                scan(st.body, guards + [st.iter if isinstance(st, ast.For) else st.test])
            elif isinstance(st, (ast.Assign, ast.AugAssign)):
                tg = st.targets[0] if isinstance(st, ast.Assign) else st.target
                if root(tg) == "ppci" and isinstance(tg, ast.Subscript):
                    n += 1
                    used = names_in(st.value) | names_in(tg)
                    for g in guards:
                        used |= names_in(g)
                    bad = sorted(used & tainted)
                    ctx.ob(R, f"pandapower.shortcircuit.ppc_conversion::_create_k_updated_ppci::store#{n}", not bad,
                           f"`{norm(tg, 60)}` independent of the faulted buses" if not bad else
                           f"`{norm(st, 90)}` (or its guard) depends on {bad}, i.e. on the buses faulted in this call", fi.loc(st))
    scan(fi.node.body, [])
    if n < 5:
        ctx.fail(f"_create_k_updated_ppci: only {n} stores into the shared ppci found (confirmed: 6)")


def run(ctx):
    ctx.assume("shapes: unit dimensions from the column naming convention and the ppc column table; a literal that is an exact "
               "power of ten is a unit conversion")
    ctx.assume("decides dimension / base-power degree / literal factor / range / locality of the closed forms, not the Thevenin "
               "impedance (a linear solve)")
    R = "SC-SHAPE"
    ctx.rule(R, "each short-circuit result / admittance has the required unit, decimal scale, base-power degree 0 and depends on the "
                "stated quantities (voltage factor of the right case, equivalent impedance, rated voltage)")
    run_cases(ctx, R, shape_cases(), aspects=("units", "base", "dec", "needs"))
    ctx.require_min(R, 40)
    rule_k_independent(ctx)
    from ppsa import facts as _facts
    RT = "SC-TEMP"
    ctx.rule(RT, "the resistance correction of the minimum short-circuit current uses the end temperature of the line and the fixed "
                 "coefficient 0.004/K of IEC 60909: with short_circuit=True the factor depends on endtemp_degree and not on the "
                 "load-flow columns alpha / temperature_degree_celsius")
    run_cases(ctx, RT, [Case("sc-temperature", "pandapower.build_branch:_end_temperature_correction_factor", [
        Sink("ret", {}, 0, ["net.line.endtemp_degree"], forbids=["net.line.alpha", "net.line.temperature_degree_celsius"], deps_only=True),
    ], args={"short_circuit": _facts.const(True), "dc": _facts.const(False)})], aspects=("needs", "forbids"))
    ctx.info("not decided by the shape domain: GS_P/BS_P of _add_gen_sc_z_kg_ks (NaN-initialised helper array), IKSS2/IKCV "
             "(matrix products)")
    from rules import _lints
    RA = "SC-ACCUMULATE"
    ctx.rule(RA, "the short-circuit admittances of several elements at one bus add up: in-place adds into ppc['bus'][idx, GS|BS] use "
                 "the unique group key of _sum_by_group (numpy's fancy-index += keeps only the last of repeated indices), so the "
                 "Thevenin impedance sees every ext_grid / motor / generator / ward")
    fis = [ctx.repo.func(f"{BBU}:_add_ext_grid_sc_impedance"), ctx.repo.func(f"{BBU}:_add_motor_impedances_ppc"),
           ctx.repo.func(f"{BBU}:_add_load_sc_impedances_ppc"), ctx.repo.func(f"{PPC}:_add_ward_sc_z"), ctx.repo.func(f"{PPC}:_add_gen_sc_z_kg_ks"),
           ctx.repo.func("pandapower.pd2ppc_zero:_add_gen_sc_impedance_zero"), ctx.repo.func("pandapower.pd2ppc_zero:_add_ext_grid_sc_impedance_zero")]
    n = _lints.accumulate_unique(ctx, RA, fis, allowed={
        ("_add_gen_sc_impedance_zero", "eg_buses_ppc"): "constant dummy admittance 1/(1e3+1e3j) that only keeps the zero-sequence "
                                                        "matrix regular: its multiplicity is immaterial"})
    if n < 10:
        ctx.fail(f"SC-ACCUMULATE: only {n} in-place adds of short-circuit admittances found")
    rule_factor(ctx)
    rule_kappa(ctx)
    rule_local(ctx)
    rule_sibling(ctx)
    ctx.require_min("SC-FACTOR", 9)
    ctx.require_min("KAPPA-RANGE", 5)
    ctx.require_min("SC-LOCAL", 6)
    # sibling branches of _current_source_current: the converter-current angle is taken from the network impedance alone
    # (before the fault impedance is added to the diagonal) in the Zbus branch and in the LU branch alike
    fcs = ctx.repo.func(f"{CUR}:_current_source_current")
    brs = [n for n in walk_no_nested(fcs.node) if isinstance(n, ast.If) and "inverse_y" in norm(n.test)]
    if len(brs) != 1:
        ctx.fail("_current_source_current: inverse_y dispatch not found")
    for nm, blk in (("zbus", brs[0].body), ("lu", brs[0].orelse)):
        ang = [st for st in ast.walk(ast.Module(body=blk, type_ignores=[])) if isinstance(st, ast.Assign) and "PHI_IKCV_DEGREE" in norm(st.targets[0]) and "diagZ" in norm(st.value)]
        add = [st for st in blk if isinstance(st, ast.AugAssign) and norm(st.target).replace(" ", "") == "diagZ[bus_idx]" and "fault_impedance" in norm(st.value)]
        ok = len(ang) == 1 and len(add) == 1 and ang[0].lineno < add[0].lineno
        ctx.ob("SC-SIBLING", f"{CUR}::_current_source_current::angle-before-fault-impedance:{nm}", ok,
               "angle from the network impedance, fault impedance added afterwards" if ok else
               "the fault impedance is added to the diagonal before the converter-current angle is derived from it (the other solver branch "
               "does it afterwards): results depend on inverse_y and on the other faulted buses", fcs.loc(add[0]) if add else fcs.loc())
    # every network of the power-station loop is solved with the factorisation of ITS admittance matrix
    fcc = ctx.repo.func("pandapower.shortcircuit.calc_sc:_calc_current")
    fac = [st for st in ast.walk(fcc.node) if isinstance(st, ast.Assign) and "ybus_fact" in norm(st.targets[0])]
    ok = len(fac) == 1 and norm(fac[0].targets[0]).replace(" ", "").replace('"', "'").startswith("this_ppci['internal']") and \
        norm(fac[0].value).replace(" ", "").replace('"', "'").startswith("factorized(this_ppci['internal']['Ybus']")
    ctx.ob("SC-SIBLING", "pandapower.shortcircuit.calc_sc::_calc_current::own-factorisation", ok,
           "ybus_fact = factorized(Ybus of the same ppci)" if ok else
           "the LU factorisation is not (only) computed from the admittance matrix of the ppci it is stored in: the corrected power-station "
           "networks are solved with the matrix of another network when inverse_y=False", fcc.loc(fac[0]) if fac else fcc.loc())
    # a fault impedance with only a resistive or only a reactive part is a fault impedance
    fi = ctx.repo.func(f"{IMP}:_calc_rx")
    t = next((n for n in walk_no_nested(fi.node) if isinstance(n, ast.If) and "r_fault" in names_in(n.test) and "x_fault" in names_in(n.test)), None)
    ok = t is not None and isinstance(t.test, ast.BoolOp) and isinstance(t.test.op, ast.Or)
    ctx.ob("SC-SIBLING", f"{IMP}::_calc_rx::fault-impedance-if-any-part", ok,
           f"fault impedance applied when `{norm(t.test, 60) if t is not None else '?'}`", fi.loc(t) if t is not None else fi.loc())
    ctx.require_min("SC-SIBLING", 5)


def variants(repo):
    V = Variant
    cu = "pandapower/shortcircuit/currents.py"
    im = "pandapower/shortcircuit/impedance.py"
    ka = "pandapower/shortcircuit/kappa.py"
    bb = "pandapower/build_bus.py"
    pc = "pandapower/shortcircuit/ppc_conversion.py"
    return [
        V("fault impedance only with both parts", im, replace_once("if r_fault > 0 or x_fault > 0:", "if r_fault > 0 and x_fault > 0:"), "fault-impedance-if-any-part"),
        V("angle after the fault impedance in the zbus branch", cu, in_function("_current_source_current", lambda s: s.replace("        diagZ = np.diag(Zbus).copy()  # here diagZ is not writeable\n", "        diagZ = np.diag(Zbus).copy()  # here diagZ is not writeable\n        diagZ[bus_idx] += fault_impedance\n", 1).replace("            ppci[\"bus\"][buses, PHI_IKCV_DEGREE] = -np.angle(diagZ[buses], deg=True) + extra_angle\n        diagZ[bus_idx] += fault_impedance\n        i_kss_2 = 1 / diagZ", "            ppci[\"bus\"][buses, PHI_IKCV_DEGREE] = -np.angle(diagZ[buses], deg=True) + extra_angle\n        i_kss_2 = 1 / diagZ", 1)), "angle-before-fault-impedance:zbus"),
        V("one factorisation for all networks", "pandapower/shortcircuit/calc_sc.py", replace_once('this_ppci["internal"]["ybus_fact"] = factorized(this_ppci["internal"]["Ybus"].tocsc())', 'this_ppci["internal"]["ybus_fact"] = ppci_orig["internal"].setdefault("ybus_fact", factorized(this_ppci["internal"]["Ybus"].tocsc()))'), "own-factorisation"),
        V("power station correction only when a generator bus is faulted", pc, replace_once("    if np.any(ps_gen_bus_mask):\n", "    if ps_gen_bus.size > 0:\n"), "SC-K-INDEPENDENT"),
        V("min-case line resistance with the load-flow alpha", "pandapower/build_branch.py", in_function("_end_temperature_correction_factor", replace_once("        alpha = 4e-3\n    else:", "        alpha = net[element].alpha.values.astype(np.float64) if 'alpha' in net[element].columns else 4e-3\n    else:")), "SC-TEMP"),
        V("baseI without base power", cu, in_function("_calc_ikss", replace_once('* np.sqrt(3) / ppci["baseMVA"]', "* np.sqrt(3)")), "ikss-3ph-max:store:ppc.bus.IKSS1"),
        V("2ph without base power", cu, replace_once('/ 2 * ppci["baseMVA"])', "/ 2)"), "ikss-2ph-max:store:ppc.bus.IKSS1"),
        V("2ph divided by sqrt3", cu, replace_once('ppci["bus"][bus_idx, BASE_KV] / 2 * ppci["baseMVA"])', 'ppci["bus"][bus_idx, BASE_KV] / np.sqrt(3) * ppci["baseMVA"])'), "ratio-2ph-3ph"),
        V("3ph baseI without sqrt3", cu, in_function("_calc_ikss", replace_once('ppci["bus"][:, BASE_KV] * np.sqrt(3) / ppci["baseMVA"]', 'ppci["bus"][:, BASE_KV] / ppci["baseMVA"]')), "3ph:IKSS1"),
        V("skss without sqrt3", cu, replace_once('ppci["bus"][bus_idx, SKSS] = np.sqrt(3) * ikss * ppci["bus"][bus_idx, BASE_KV]', 'ppci["bus"][bus_idx, SKSS] = ikss * ppci["bus"][bus_idx, BASE_KV]'), "3ph:SKSS"),
        V("skss kv squared", cu, replace_once('ppci["bus"][bus_idx, SKSS] = np.sqrt(3) * ikss * ppci["bus"][bus_idx, BASE_KV]', 'ppci["bus"][bus_idx, SKSS] = np.sqrt(3) * ikss * ppci["bus"][bus_idx, BASE_KV] ** 2'), "ikss-3ph-max:store:ppc.bus.SKSS"),
        V("min case uses cmax", cu, in_function("_calc_ikss", replace_once('ppci["bus"][bus_idx, C_MAX if case == "max" else C_MIN]', 'ppci["bus"][bus_idx, C_MAX]')), "ikss-3ph-min:store:ppc.bus.IKSS1"),
        V("rk from x", cu, in_function("_calc_ikss", replace_once('ppci["bus"][bus_idx, R_EQUIV_OHM] = baseZ * ppci["bus"][bus_idx, R_EQUIV]', 'ppci["bus"][bus_idx, R_EQUIV_OHM] = baseZ * ppci["bus"][bus_idx, X_EQUIV]')), "store:ppc.bus.R_EQUIV_OHM"),
        V("rk without base", cu, in_function("_calc_ikss", replace_once('baseZ = ppci["bus"][bus_idx, BASE_KV] ** 2 / ppci["baseMVA"]', 'baseZ = ppci["bus"][bus_idx, BASE_KV] ** 2')), "store:ppc.bus.R_EQUIV_OHM"),
        V("ip without sqrt2", cu, replace_once('ip = np.sqrt(2) * (ppci["bus"][:, KAPPA] * ppci["bus"][:, IKSS1] + ppci["bus"][:, IKSS2])', 'ip = (ppci["bus"][:, KAPPA] * ppci["bus"][:, IKSS1] + ppci["bus"][:, IKSS2])'), "_calc_ip::IP"),
        V("kappa on both parts", cu, replace_once('ip = np.sqrt(2) * (ppci["bus"][:, KAPPA] * ppci["bus"][:, IKSS1] + ppci["bus"][:, IKSS2])', 'ip = np.sqrt(2) * ppci["bus"][:, KAPPA] * (ppci["bus"][:, IKSS1] + ppci["bus"][:, IKSS2])'), "kappa-on-ikss1"),
        V("1ph z without doubling", cu, in_function("_calc_ikss_1ph", replace_once('ppci["bus"][bus_idx, X_EQUIV] * 1j) * 2 +', 'ppci["bus"][bus_idx, X_EQUIV] * 1j) +')), "z-2z1-plus-z0"),
        V("1ph without sqrt3", cu, in_function("_calc_ikss_1ph", replace_once('ppci["bus"][bus_idx, IKSS1] = np.sqrt(3) * c / z_equiv', 'ppci["bus"][bus_idx, IKSS1] = c / z_equiv')), "_calc_ikss_1ph::IKSS1"),
        V("kappa coefficient", ka, replace_once("return 1.02 + .98 * np.exp(-3 * rx)", "return 1.02 + 1.98 * np.exp(-3 * rx)"), "_kappa::range"),
        V("kappa growing", ka, replace_once("return 1.02 + .98 * np.exp(-3 * rx)", "return 1.02 + .98 * np.exp(3 * rx)"), "_kappa::range"),
        V("method b max", ka, replace_once('kappa_max = np.full(ppc["bus"].shape[0], 2.)', 'kappa_max = np.full(ppc["bus"].shape[0], 2.3)'), "clip-range"),
        V("method b not clipped", ka, replace_once("return np.clip(kappa_korr * _kappa(rx_equiv), 1, kappa_max)", "return kappa_korr * _kappa(rx_equiv)"), "clip-range"),
        V("ikss uses mean impedance", cu, in_function("_calc_ikss", replace_once('z_equiv = ppci["bus"][bus_idx, R_EQUIV] + ppci["bus"][bus_idx, X_EQUIV] * 1j  # removed the abs()', 'z_equiv = np.mean(ppci["bus"][bus_idx, R_EQUIV]) + ppci["bus"][bus_idx, X_EQUIV] * 1j')), "SC-LOCAL"),
        V("ikss reads first fault bus", cu, in_function("_calc_ikss", replace_once('z_equiv = ppci["bus"][bus_idx, R_EQUIV] + ppci["bus"][bus_idx, X_EQUIV] * 1j  # removed the abs()', 'z_equiv = ppci["bus"][bus_idx[0], R_EQUIV] + ppci["bus"][bus_idx, X_EQUIV] * 1j')), "SC-LOCAL"),
        V("baseI of all buses", cu, in_function("_calc_ikss", replace_once("        ikss1 /= baseI[bus_idx]\n", "        ikss1 /= baseI[:n_sc_bus]\n")), "vectors-indexed-by-fault-bus"),
        V("fault impedance only with zbus", im, replace_once("        z_equiv = _calc_zbus_diag(net, ppci, bus_idx) + fault_impedance", "        z_equiv = _calc_zbus_diag(net, ppci, bus_idx)"), "fault-impedance-in-both"),
        V("fault impedance in ohm", im, replace_once("fault_impedance = (r_fault + x_fault * 1j) / base_r", "fault_impedance = (r_fault + x_fault * 1j)"), "fault-impedance-per-unit"),
        V("superposition sign differs", cu, in_function("_calc_ikss", replace_once("V_ikss[:, [ix]] = V0[:, [ix]] - ybus_fact(ikss) if valid_V else -ybus_fact(ikss)", "V_ikss[:, [ix]] = V0[:, [ix]] - ybus_fact(ikss) if valid_V else ybus_fact(ikss)")), "superposition-in-both"),
        V("ext grid s_sc not per unit", bb, in_function("_add_ext_grid_sc_impedance", replace_once("s_sc = eg[\"s_sc_%s_mva\" % case].values/ppc['baseMVA']", 's_sc = eg["s_sc_%s_mva" % case].values')), "ext-grid-max:store:ppc.bus.GS"),
        V("ext grid min uses max column", bb, in_function("_add_ext_grid_sc_impedance", replace_once('rx = eg["rx_%s" % case].values', 'rx = eg["rx_max"].values')), "ext-grid-min:store:ppc.bus.GS"),
        V("motor efficiency not percent", bb, in_function("_add_motor_impedances_ppc", replace_once("s_motor = p_mech / (efficiency/100 * cos_phi)", "s_motor = p_mech / (efficiency * cos_phi)")), "motor:store:ppc.bus.GS"),
        V("gen x without rated power", pc, in_function("_add_gen_sc_z_kg_ks", replace_once("r_gen, x_gen = rdss_ohm, xdss_pu * vn_gen ** 2 / sn_gen", "r_gen, x_gen = rdss_ohm, xdss_pu * vn_gen ** 2")), "gen:store:ppc.bus.GS"),
        V("kappa c reuses the stored factorisation", ka, replace_once("    else:\n        # Factorization Ybus once\n        ppc_c[\"internal\"][\"ybus_fact\"]", "    elif \"ybus_fact\" not in ppc_c[\"internal\"]:\n        # Factorization Ybus once\n        ppc_c[\"internal\"][\"ybus_fact\"]"), "solver-rebuilt"),
        V("ext grids at one bus overwrite each other", bb, in_function("_add_ext_grid_sc_impedance", lambda s: s.replace('ppc["bus"][buses, GS] += gs * ppc[\'baseMVA\']', 'ppc["bus"][eg_buses_ppc, GS] += y_grid.real * ppc[\'baseMVA\']', 1)), "SC-ACCUMULATE"),
        # twins
        V("twin: reorder ikss 2ph", cu, replace_once('np.abs(c / z_equiv / ppci["bus"][bus_idx, BASE_KV] / 2 * ppci["baseMVA"])', 'np.abs(c * ppci["baseMVA"] / (2 * z_equiv * ppci["bus"][bus_idx, BASE_KV]))'), None),
        V("twin: kappa constants named", ka, replace_once("return 1.02 + .98 * np.exp(-3 * rx)", "return 1.02 + 0.98 * np.exp(-3. * rx)"), None),
    ]
