"""C29 - protection devices: structural clauses of the trip decision only.

Not decided: monotonicity of the melting / inverse-time curves over run-time characteristic data and settings.
Decided (necessary conditions of "trips exactly above the pick-up value, never earlier for a smaller current, reports the
device's own switch current"):

 ACT-CURRENT  Fuse and OCRelay read the current from net.res_switch_sc.ikss_ka (scenario "sc") / net.res_switch.i_ka ("pp") at
              their own switch_index, raise for any other scenario, and report exactly that value, the tripped flag and the
              computed time in the result
 TRIP-CHAIN   every threshold chain in protection_function tests the thresholds from the most to the least severe stage with a
              strict comparison of the measured current, sets tripped True with the time of that stage in every stage and
              tripped False with an infinite time in the final else (fuse: below start -> no trip / inf, up to stop -> curve,
              above -> 0 s)
 IDMT-FORM    the inverse-time expression tms*k / ((i/I_s)**alpha - 1) + t_grade is the same in the IDMT and IDTOC branches and
              is guarded by i > I_s (denominator positive)
 FUSE-UNIT    the fuse compares and evaluates its characteristic with i_ka * 1000 (ampere) everywhere
 PURE-STR     __str__ / __repr__ of protection devices store nothing (printing a device must not change its behaviour)
"""
import ast

from ppsa.astutil import norm, dotted, inline_locals
from ppsa.selftest import Variant, replace_once, in_function

FU = "pandapower.protection.protection_devices.fuse"
OC = "pandapower.protection.protection_devices.ocrelay"
DEVICES = ((FU, "Fuse"), (OC, "OCRelay"))
TABLE = {"sc": ("res_switch_sc", "ikss_ka"), "pp": ("res_switch", "i_ka")}


def _n(e, k=200):
    return norm(e, k).replace(" ", "").replace('"', "'")


def _chain(node):
    """flatten if/elif/else -> [(test or None, body)]"""
    out = []
    cur = node
    while True:
        out.append((cur.test, cur.body))
        if len(cur.orelse) == 1 and isinstance(cur.orelse[0], ast.If):
            cur = cur.orelse[0]
        else:
            out.append((None, cur.orelse))
            return out


def rule_current(ctx):
    R = "ACT-CURRENT"
    ctx.rule(R, "scenario 'sc' -> net.res_switch_sc.ikss_ka.at[self.switch_index], 'pp' -> net.res_switch.i_ka.at[self.switch_index], "
                "anything else raises; the result reports switch_id = self.switch_index, activation_parameter_value = that current, "
                "trip_melt = self.has_tripped(), trip_melt_time_s = the computed time")
    for mod, cls in DEVICES:
        fi = ctx.repo.func(f"{mod}:{cls}.protection_function")
        first = next((st for st in fi.node.body if isinstance(st, ast.If) and "scenario" in _n(st.test)), None)
        if first is None:
            ctx.fail(f"{cls}.protection_function: scenario dispatch not found")
        seen = {}
        for test, body in _chain(first):
            if test is None:
                ok = any(isinstance(x, ast.Raise) for x in body)
                ctx.ob(R, f"{mod}::{cls}.protection_function::scenario-else", ok, "unknown scenario raises", fi.loc(first))
                continue
            t = _n(test)
            sc = next((k for k in TABLE if t == f"scenario=='{k}'"), None)
            val = next((_n(st.value) for st in body if isinstance(st, ast.Assign) and _n(st.targets[0]) == "i_ka"), None)
            seen[sc] = val
        for k, (tab, col) in TABLE.items():
            want = f"net.{tab}.{col}.at[self.switch_index]"
            ctx.ob(R, f"{mod}::{cls}.protection_function::scenario-{k}", seen.get(k) == want,
                   f"scenario {k!r}: i_ka = {seen.get(k)} (expected {want})", fi.loc(first))
        res = next((st.value for st in ast.walk(fi.node) if isinstance(st, ast.Assign) and isinstance(st.value, ast.Dict)
                    and any(isinstance(k, ast.Constant) and k.value == "trip_melt" for k in st.value.keys)), None)
        if res is None:
            ctx.fail(f"{cls}.protection_function: result dictionary not found")
        got = {k.value: _n(v) for k, v in zip(res.keys, res.values) if isinstance(k, ast.Constant)}
        want = {"switch_id": "self.switch_index", "activation_parameter_value": "i_ka", "trip_melt": "self.has_tripped()",
                "trip_melt_time_s": "act_time_s", "activation_parameter": "self.activation_parameter"}
        for k, v in want.items():
            ctx.ob(R, f"{mod}::{cls}.protection_function::result.{k}", got.get(k) == v, f"{k} = {got.get(k)}", fi.loc())
        ht = ctx.repo.func(f"{mod}:{cls}.has_tripped")
        ctx.ob(R, f"{mod}::{cls}.has_tripped::returns-flag", any(isinstance(x, ast.Return) and _n(x.value) == "self.tripped" for x in ast.walk(ht.node)),
               "has_tripped returns self.tripped", ht.loc())


def _stage(body, fn=None):
    """(tripped literal, time expr text) assigned in a branch body"""
    tr = tm = None
    for st in body:
        if isinstance(st, ast.Assign):
            t = _n(st.targets[0])
            if t == "self.tripped" and isinstance(st.value, ast.Constant):
                tr = st.value.value
            if t == "act_time_s":
                tm = _n(inline_locals(fn, st.value, keep=("i_ka", "c")) if fn is not None else st.value)
    return tr, tm


def rule_chain(ctx):
    R = "TRIP-CHAIN"
    ctx.rule(R, "relay: each type's chain is `i_ka > <threshold>` stages in the order I_gg, I_g, I_s (those the type has), each stage sets "
                "tripped True and the time of its own stage (t_gg, t_g, inverse-time), the else sets tripped False and np.inf; "
                "fuse: `i*1000 < i_start_a` -> False/inf, `<= i_stop_a` -> True/curve(i*1000), else True/0")
    fi = ctx.repo.func(f"{OC}:OCRelay.protection_function")
    ORDER = ["self.I_gg", "self.I_g", "self.I_s"]
    TIME = {"self.I_gg": "self.t_gg", "self.I_g": "self.t_g"}
    WANT = {"DTOC": ["self.I_gg", "self.I_g"], "IDMT": ["self.I_s"], "IDTOC": ["self.I_gg", "self.I_g", "self.I_s"]}
    found = set()
    for st in fi.node.body:
        if not (isinstance(st, ast.If) and _n(st.test).startswith("self.oc_relay_type==")):
            continue
        typ = _n(st.test).split("==")[1].strip("'")
        inner = next((x for x in st.body if isinstance(x, ast.If)), None)
        if inner is None:
            continue
        found.add(typ)
        ch = _chain(inner)
        ths = []
        ok = True
        why = []
        for test, body in ch:
            tr, tm = _stage(body)
            if test is None:
                if not (tr is False and tm in ("np.inf", "numpy.inf", "inf", "float('inf')")):
                    ok = False
                    why.append(f"else: tripped={tr}, time={tm}")
                continue
            t = _n(test)
            if not (isinstance(test, ast.Compare) and len(test.ops) == 1 and isinstance(test.ops[0], ast.Gt) and _n(test.left) == "i_ka"):
                ok = False
                why.append(f"test `{t}` is not a strict `i_ka > threshold`")
                continue
            th = _n(test.comparators[0])
            ths.append(th)
            if tr is not True:
                ok = False
                why.append(f"stage {th}: tripped={tr}")
            if th in TIME and tm != TIME[th]:
                ok = False
                why.append(f"stage {th}: time {tm}, expected {TIME[th]}")
            if th == "self.I_s" and not (tm and "self.I_s" in tm and "self.tms" in tm):
                ok = False
                why.append(f"stage I_s: time {tm}")
        if ths != WANT.get(typ):
            ok = False
            why.append(f"stages {ths}, expected {WANT.get(typ)}")
        ctx.ob(R, f"{OC}::OCRelay.protection_function::{typ}", ok, f"stages {ths}" if ok else "; ".join(why), fi.loc(inner))
    if found != set(WANT):
        ctx.fail(f"OCRelay.protection_function: chains found for {sorted(found)}, expected {sorted(WANT)}")
    ff = ctx.repo.func(f"{FU}:Fuse.protection_function")
    inner = next((st for st in ff.node.body if isinstance(st, ast.If) and "i_start_a" in _n(st.test)), None)
    if inner is None:
        ctx.fail("Fuse.protection_function: threshold chain not found")
    ch = _chain(inner)
    got = [(None if t is None else _n(inline_locals(ff.node, t, keep=("i_ka",))),) + _stage(b, ff.node) for t, b in ch]
    want = [("i_ka*1000<self.i_start_a", False, "np.inf"), ("i_ka*1000<=self.i_stop_a", True, "c(i_ka*1000)"), (None, True, "0")]
    ctx.ob(R, f"{FU}::Fuse.protection_function::chain", got == want, f"chain {got}", ff.loc(inner))


def rule_idmt(ctx):
    R = "IDMT-FORM"
    ctx.rule(R, "the inverse-time expression is tms*k/((i_ka/I_s)**alpha - 1) + t_grade in both the IDMT and the IDTOC branch (sibling "
                "agreement) and only under `i_ka > self.I_s`")
    fi = ctx.repo.func(f"{OC}:OCRelay.protection_function")
    forms = []
    for n in ast.walk(fi.node):
        if isinstance(n, ast.If):
            tr, tm = _stage(n.body)
            if tm and "self.I_s" in tm:
                forms.append((tm, n))
    want = "self.tms*self.k/((i_ka/self.I_s)**self.alpha-1)+self.t_grade"
    if len(forms) < 2:
        ctx.fail(f"IDMT-FORM: {len(forms)} inverse-time stages found (confirmed: 2)")
    for i, (tm, n) in enumerate(forms):
        g = _n(n.test)
        ok = tm == want and g == "i_ka>self.I_s"
        ctx.ob(R, f"{OC}::OCRelay.protection_function::inverse-time{i}", ok,
               f"under `{g}`: time = {tm}" + ("" if g == "i_ka>self.I_s" else " - at i = I_s the denominator is zero"), fi.loc(n))


def rule_unit(ctx):
    R = "FUSE-UNIT"
    ctx.rule(R, "Fuse.protection_function uses the switch current in ampere (i_ka * 1000) in every comparison with i_start_a / i_stop_a "
                "and in the call of the characteristic, whose support points create_characteristic takes as i_start_a / i_stop_a")
    ff = ctx.repo.func(f"{FU}:Fuse.protection_function")
    n = 0
    for x in ast.walk(ff.node):
        uses = None
        if isinstance(x, ast.Compare) and any(s in _n(x) for s in ("i_start_a", "i_stop_a")):
            uses = x.left
        if isinstance(x, ast.Call) and isinstance(x.func, ast.Name) and x.func.id == "c" and x.args:
            uses = x.args[0]
        if uses is not None:
            n += 1
            ctx.ob(R, f"{FU}::Fuse.protection_function::ampere#{n}", _n(inline_locals(ff.node, uses, keep=("i_ka",))) in ("i_ka*1000", "1000*i_ka", "i_ka*1000.0", "i_ka*1e3"),
                   f"`{norm(x, 60)}` uses {norm(uses, 30)}", ff.loc(x))
    if n < 3:
        ctx.fail(f"FUSE-UNIT: only {n} uses of the current found (confirmed: 3)")
    fc = ctx.repo.func(f"{FU}:Fuse.create_characteristic")
    t = {_n(st.targets[0]): _n(st.value) for st in fc.node.body if isinstance(st, ast.Assign)}
    ctx.ob(R, f"{FU}::Fuse.create_characteristic::range", t.get("self.i_start_a") == "min(x_values)" and t.get("self.i_stop_a") == "max(x_values)",
           f"i_start_a = {t.get('self.i_start_a')}, i_stop_a = {t.get('self.i_stop_a')}", fc.loc())


def rule_pure(ctx):
    R = "PURE-STR"
    ctx.rule(R, "__str__ and __repr__ of every class in pandapower/protection store nothing (no assignment to an attribute or subscript, "
                "no augmented assignment, no del)")
    n = 0
    for mn in ctx.repo.module_names():
        if not mn.startswith("pandapower.protection"):
            continue
        for fi in ctx.repo.module(mn).functions.values():
            if fi.name not in ("__str__", "__repr__"):
                continue
            n += 1
            bad = [x for x in ast.walk(fi.node)
                   if (isinstance(x, (ast.Assign, ast.AugAssign, ast.AnnAssign)) and any(isinstance(t, (ast.Attribute, ast.Subscript))
                       for t in (x.targets if isinstance(x, ast.Assign) else [x.target]))) or isinstance(x, ast.Delete)]
            ctx.ob(R, f"{mn}::{fi.qualname}::no-store", not bad,
                   "no stores" if not bad else f"`{norm(bad[0], 80)}`: converting the device to text changes it", fi.loc(bad[0]) if bad else fi.loc())
    if n < 2:
        ctx.fail(f"PURE-STR: only {n} __str__/__repr__ methods found under pandapower.protection (confirmed: Fuse, OCRelay)")


def run(ctx):
    ctx.assume("decides the structure of the trip decision (source of the current, threshold chains, stage times, unit, purity of "
               "__str__); monotonicity of run-time characteristic curves and of user settings is not decided")
    rule_current(ctx)
    rule_chain(ctx)
    rule_idmt(ctx)
    rule_unit(ctx)
    rule_pure(ctx)
    rule_settings(ctx)


OCM = "pandapower.protection.protection_devices.ocrelay"
PAIRS = {("switch_id", "switch_id"), ("t_g", "t_g"), ("t_gg", "t_gg"), ("t_g", "t_grade"), ("t_gg", "tms"), ("t_grade", "t_grade"), ("tms", "tms")}


def rule_settings(ctx):
    R = "SETTING-ROLE"
    ctx.rule(R, "OCRelay.create_protection_function computes a pick-up current by the same formula in every relay type that has it "
                "(I_g, I_gg of DTOC and IDTOC; I_s of IDMT and IDTOC): the factor that scales it is part of the device's settings, not "
                "of the relay type; time_grading copies user time settings column by column under their names (t_g <- t_g | t_grade, "
                "t_gg <- t_gg | tms): swapped stage times make the larger current trip later")
    fi = ctx.repo.func(f"{OCM}:OCRelay.create_protection_function")
    auto = {}
    for br in ast.walk(fi.node):
        if isinstance(br, ast.If) and "pickup_current_manual is None" in ast.unparse(br.test):
            for st in br.body:
                if isinstance(st, ast.Assign) and isinstance(st.targets[0], ast.Attribute) and ast.unparse(st.targets[0]).startswith("self.I_"):
                    v = norm(inline_locals(fi.node, st.value), 300)
                    auto.setdefault(st.targets[0].attr, []).append((v, st))
    if len(auto) < 3:
        ctx.fail(f"create_protection_function: automatic pick-up currents found for {sorted(auto)} only (confirmed: I_g, I_gg, I_s)")
    for attr, vals in sorted(auto.items()):
        forms = sorted({v for v, _ in vals})
        ok = len(forms) == 1
        odd = vals[-1][1]
        ctx.ob(R, f"{OCM}::OCRelay.create_protection_function::{attr}", ok,
               f"{attr} = {forms[0][:80]} in {len(vals)} relay type(s)" if ok else
               f"{attr} is computed as `{forms[0][:90]}` in one relay type and as `{forms[1][:90]}` in another: the same settings give "
               "different pick-up values, the relay does not trip exactly above the pick-up derived from its factor", fi.loc(odd))
    ft = ctx.repo.func(f"{OCM}:time_grading")
    n = 0
    for br in ast.walk(ft.node):
        if not (isinstance(br, ast.If) and "time_settings.columns" in ast.unparse(br.test)):
            continue
        layouts = [[e.value for e in lst.elts] for lst in ast.walk(br.test) if isinstance(lst, ast.List)
                   and lst.elts and all(isinstance(e, ast.Constant) and isinstance(e.value, str) for e in lst.elts)]
        for st in br.body:
            if not (isinstance(st, ast.Assign) and isinstance(st.targets[0], ast.Subscript) and ast.unparse(st.targets[0].value) == "protection_time_settings"):
                continue
            n += 1
            tk = st.targets[0].slice
            tnames = [tk.value] if isinstance(tk, ast.Constant) else [e.value for e in tk.elts if isinstance(e, ast.Constant)] if isinstance(tk, ast.List) else []
            bad = None
            v = st.value
            if isinstance(v, ast.Subscript) and ast.unparse(v.value) == "time_settings" and isinstance(v.slice, ast.Constant):
                if (tnames[0] if tnames else None, v.slice.value) not in PAIRS:
                    bad = f"`{norm(st, 80)}` stores the user's column '{v.slice.value}' as '{tnames[0] if tnames else '?'}'"
            else:
                pos = next((x for x in ast.walk(v) if isinstance(x, ast.Subscript) and isinstance(x.value, ast.Attribute) and x.value.attr == "iloc"), None)
                cols = None
                if pos is not None and isinstance(pos.slice, ast.Tuple) and len(pos.slice.elts) == 2 and isinstance(pos.slice.elts[1], ast.List) \
                        and all(isinstance(e, ast.Constant) for e in pos.slice.elts[1].elts):
                    cols = [e.value for e in pos.slice.elts[1].elts]
                if cols is None or not layouts or len(cols) != len(tnames):
                    bad = f"`{norm(st, 80)}` copies time settings by position in a way that cannot be matched to column names"
                else:
                    for lay in layouts:
                        for t, c in zip(tnames, cols):
                            if c >= len(lay) or (t, lay[c]) not in PAIRS:
                                bad = bad or f"`{norm(st, 80)}`: for the layout {lay} column {c} ('{lay[c] if c < len(lay) else '?'}') is stored as '{t}'"
            ctx.ob(R, f"{OCM}::time_grading::{norm(st.targets[0], 50)}<-{norm(v, 40)}", bad is None,
                   "user time setting copied under its own role" if bad is None else bad +
                   ": the stage times are exchanged, so a current above I>> trips later than one between I> and I>>", ft.loc(st))
    if n < 6:
        ctx.fail(f"time_grading: only {n} column copies of manual time settings found (confirmed: 11)")


def variants(repo):
    fu = "pandapower/protection/protection_devices/fuse.py"
    oc = "pandapower/protection/protection_devices/ocrelay.py"
    V = Variant
    return [
        V("fuse str sets characteristic index", fu, replace_once("        s = 'Protection Device: %s \\nType: %s \\nName: %s' % (self.__class__.__name__, self.fuse_type, self.name)\n",
                                                                 "        s = 'Protection Device: %s \\nType: %s \\nName: %s' % (self.__class__.__name__, self.fuse_type, self.name)\n        self.characteristic_index = 1\n"), "PURE-STR"),
        V("IDTOC inverse pick-up from the wrong factor", oc, replace_once("                self.I_s = float(net_sc.line.max_i_ka.iloc[line_idx]) * self.inverse_overload_factor\n            else:\n                self.I_g = float(self.pickup_current_manual.I_g.iloc[self.switch_index])\n                self.I_gg = float(self.pickup_current_manual.I_g.iloc[self.switch_index])\n                self.I_s", "                self.I_s = float(net_sc.line.max_i_ka.iloc[line_idx]) * self.overload_factor\n            else:\n                self.I_g = float(self.pickup_current_manual.I_g.iloc[self.switch_index])\n                self.I_gg = float(self.pickup_current_manual.I_g.iloc[self.switch_index])\n                self.I_s"), "create_protection_function::I_s"),
        V("manual stage times copied by position", oc, in_function("time_grading", replace_once("            protection_time_settings['t_g'] = time_settings['t_g']\n            protection_time_settings['t_gg'] = time_settings['t_gg']\n\n        if time_settings.columns.values.tolist() == ['switch_id', 'tms', 't_grade']:", "            protection_time_settings[['t_g', 't_gg']] = time_settings.iloc[:, [1, 2]].values\n\n        if time_settings.columns.values.tolist() == ['switch_id', 'tms', 't_grade']:")), "time_grading"),
        V("twin: manual stage times by position, right order", oc, in_function("time_grading", replace_once("            protection_time_settings['t_g'] = time_settings['t_g']\n            protection_time_settings['t_gg'] = time_settings['t_gg']\n\n        if time_settings.columns.values.tolist() == ['switch_id', 'tms', 't_grade']:", "            protection_time_settings[['t_gg', 't_g']] = time_settings.iloc[:, [1, 2]].values\n\n        if time_settings.columns.values.tolist() == ['switch_id', 'tms', 't_grade']:")), None),
        V("twin: pick-up through a local", oc, replace_once("                self.I_s = float(net_sc.line.max_i_ka.iloc[line_idx]) * self.inverse_overload_factor\n            else:\n                self.I_g = float(self.pickup_current_manual.I_g.iloc[self.switch_index])\n                self.I_gg = float(self.pickup_current_manual.I_g.iloc[self.switch_index])\n                self.I_s", "                max_i_ka = float(net_sc.line.max_i_ka.iloc[line_idx])\n                self.I_s = max_i_ka * self.inverse_overload_factor\n            else:\n                self.I_g = float(self.pickup_current_manual.I_g.iloc[self.switch_index])\n                self.I_gg = float(self.pickup_current_manual.I_g.iloc[self.switch_index])\n                self.I_s"), None),
        V("relay reads load-flow current in sc scenario", oc, in_function("protection_function", replace_once("i_ka = net.res_switch_sc.ikss_ka.at[self.switch_index]", "i_ka = net.res_switch.i_ka.at[self.switch_index]")), "scenario-sc"),
        V("fuse reads by position", fu, in_function("protection_function", replace_once("net.res_switch_sc.ikss_ka.at[self.switch_index]", "net.res_switch_sc.ikss_ka.iat[self.switch_index]")), "scenario-sc"),
        V("relay stages swapped", oc, replace_once("            if i_ka > self.I_gg:\n                self.tripped = True\n                act_time_s = self.t_gg\n            elif i_ka > self.I_g:\n                self.tripped = True\n                act_time_s = self.t_g\n            else:",
                                                    "            if i_ka > self.I_g:\n                self.tripped = True\n                act_time_s = self.t_g\n            elif i_ka > self.I_gg:\n                self.tripped = True\n                act_time_s = self.t_gg\n            else:"), "protection_function::DTOC"),
        V("stage time of the other stage", oc, replace_once("            elif i_ka > self.I_g:\n                self.tripped = True\n                act_time_s = self.t_g\n            elif i_ka > self.I_s:",
                                                            "            elif i_ka > self.I_g:\n                self.tripped = True\n                act_time_s = self.t_gg\n            elif i_ka > self.I_s:"), "protection_function::IDTOC"),
        V("non-strict pickup", oc, replace_once("        if self.oc_relay_type == 'IDMT':\n            if i_ka > self.I_s:", "        if self.oc_relay_type == 'IDMT':\n            if i_ka >= self.I_s:"), "protection_function::IDMT"),
        V("no-trip branch reports tripped", oc, replace_once("            else:\n                self.tripped = False\n                act_time_s = np.inf\n\n        if self.oc_relay_type == 'IDMT':", "            else:\n                self.tripped = True\n                act_time_s = np.inf\n\n        if self.oc_relay_type == 'IDMT':"), "protection_function::DTOC"),
        V("idtoc inverse-time without grading", oc, replace_once("act_time_s = (self.tms * self.k) / (((i_ka / self.I_s)**self.alpha)-1) + self.t_grade", "act_time_s = (self.tms * self.k) / (((i_ka / self.I_s)**self.alpha)-1)"), "inverse-time"),
        V("fuse compares kA with A", fu, replace_once("        elif i_ka * 1000 <= self.i_stop_a:", "        elif i_ka <= self.i_stop_a:"), "Fuse.protection_function"),
        V("fuse curve in kA", fu, replace_once("act_time_s = c(i_ka * 1000)", "act_time_s = c(i_ka)"), "Fuse.protection_function"),
        V("fuse trips below start", fu, replace_once("        if i_ka * 1000 < self.i_start_a:\n            self.tripped = False", "        if i_ka * 1000 < self.i_start_a:\n            self.tripped = True"), "Fuse.protection_function::chain"),
        V("result reports rated current", fu, replace_once('"activation_parameter_value": i_ka,', '"activation_parameter_value": self.rated_i_a,'), "result.activation_parameter_value"),
        V("twin: ampere in a local", fu, in_function("protection_function", lambda s: s.replace('        c = net.characteristic.at[self.characteristic_index, "object"]\n', '        c = net.characteristic.at[self.characteristic_index, "object"]\n        i_a = i_ka * 1000\n').replace("act_time_s = c(i_ka * 1000)", "act_time_s = c(i_a)")), None),
    ]
