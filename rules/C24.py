"""C24 - batch creation equals single creation: sibling agreement.

Decided for every (single, batch) creator pair:
 * STD-KEYS    the standard-type keys consumed (ti[k], ti.get(k), k in ti, comprehensions over literal
               key tuples, f-strings over loop constants) by the single creator equal those consumed by
               its batch sibling (the std-type dict is a tracked mapping in the abstract interpreter)
 * COLUMNS     the table columns a single creator can write equal the batch sibling's
 * CHECKS      both siblings call the bus existence check and the index check
 * SIGNATURE   same parameter names modulo the plural naming
 * COST-PRED   the duplicate-cost predicate of the batch check is a disjunction of 'poly exists' and
               'pwl exists' like the single check (a bitwise & of two counts misses duplicates)
Not decided: equality of the produced values.
"""
import ast

from ppsa import facts
from ppsa.astutil import norm, dotted
from ppsa.selftest import Variant, replace_once, in_function

C = "pandapower.create"
STD_PAIRS = [
    (f"{C}.trafo_create:create_transformer", f"{C}.trafo_create:create_transformers"),
    (f"{C}.trafo_create:create_transformer3w", f"{C}.trafo_create:create_transformers3w"),
    (f"{C}.line_create:create_line", f"{C}.line_create:create_lines"),
    (f"{C}.line_create:create_line_dc", f"{C}.line_create:create_lines_dc"),
]
PAIRS = STD_PAIRS + [
    (f"{C}.bus_create:create_bus", f"{C}.bus_create:create_buses"),
    (f"{C}.bus_create:create_bus_dc", f"{C}.bus_create:create_buses_dc"),
    (f"{C}.line_create:create_line_from_parameters", f"{C}.line_create:create_lines_from_parameters"),
    (f"{C}.line_create:create_line_dc_from_parameters", f"{C}.line_create:create_lines_dc_from_parameters"),
    (f"{C}.trafo_create:create_transformer_from_parameters", f"{C}.trafo_create:create_transformers_from_parameters"),
    (f"{C}.trafo_create:create_transformer3w_from_parameters", f"{C}.trafo_create:create_transformers3w_from_parameters"),
    (f"{C}.load_create:create_load", f"{C}.load_create:create_loads"),
    (f"{C}.sgen_create:create_sgen", f"{C}.sgen_create:create_sgens"),
    (f"{C}.gen_create:create_gen", f"{C}.gen_create:create_gens"),
    (f"{C}.storage_create:create_storage", f"{C}.storage_create:create_storages"),
    (f"{C}.shunt_create:create_shunt", f"{C}.shunt_create:create_shunts"),
    (f"{C}.ward_create:create_ward", f"{C}.ward_create:create_wards"),
    (f"{C}.switch_create:create_switch", f"{C}.switch_create:create_switches"),
    (f"{C}.impedance_create:create_impedance", f"{C}.impedance_create:create_impedances"),
    (f"{C}.cost_create:create_poly_cost", f"{C}.cost_create:create_poly_costs"),
    (f"{C}.cost_create:create_pwl_cost", f"{C}.cost_create:create_pwl_costs"),
]
SINGLE_CHECKS = {"_check_element", "_check_branch_element", "_check_node_element", "_check_multiple_node_elements"}
EXISTENCE = {"single": {"_check_element", "_check_branch_element", "_check_node_element", "<inline existence check>"},
             "batch": {"_check_multiple_elements", "_check_multiple_branch_elements", "_check_multiple_node_elements",
                       "_check_multiple_branch_elements"}}
INDEXCHK = {"single": {"_get_index_with_check"}, "batch": {"_get_multiple_index_with_check"}}

# parameter-name normalisation single -> batch
PLURAL = {"bus": "buses", "from_bus": "from_buses", "to_bus": "to_buses", "hv_bus": "hv_buses", "mv_bus": "mv_buses",
          "lv_bus": "lv_buses", "element": "elements", "bus_dc": "buses_dc", "from_bus_dc": "from_buses_dc",
          "to_bus_dc": "to_buses_dc"}
SIG_EXCEPTIONS = {
    "create_lines": {"alpha", "temperature_degree_celsius", "endtemp_degree"},
    "create_lines_dc": {"alpha", "temperature_degree_celsius", "endtemp_degree"},
    "create_lines_from_parameters": {"alpha", "temperature_degree_celsius", "endtemp_degree"},
    "create_lines_dc_from_parameters": {"alpha", "temperature_degree_celsius", "endtemp_degree"},
    "create_buses": {"nr_buses"}, "create_buses_dc": {"nr_buses_dc", "nr_buses"},
}


COL_EXCEPTIONS = {
    # single writes the placeholder std_type=None; the three temperature parameters reach the batch side through **kwargs
    "create_lines_from_parameters": {"std_type", "endtemp_degree", "alpha", "temperature_degree_celsius"},
    "create_lines_dc_from_parameters": {"std_type", "endtemp_degree", "alpha", "temperature_degree_celsius"},
}


def _facts(ctx, fq):
    it, fr = facts.analyse(ctx.repo, fq, defaults=False, max_depth=3, track_calls=True)
    keys = {k for (m, k, f, n) in it.keyreads if m.startswith("std")}
    cols = set()
    called = set()
    for ce in it.calls:
        nm = ce.callee.name
        called.add(nm)
        args, kw = ce.args, ce.kwargs
        if nm in ("_set_entries", "_set_multiple_entries"):
            ent = kw.get("entries") or (args[3] if len(args) > 3 else None)
            if ent is not None and ent.kind == "dict" and isinstance(ent.data, dict):
                cols |= {k for k in ent.data if isinstance(k, str)}
        elif nm == "_set_value_if_not_nan":
            c = args[3] if len(args) > 3 else kw.get("column")
            if c is not None and c.is_const:
                cols.add(c.data)
        elif nm == "_add_to_entries_if_not_nan":
            c = args[4] if len(args) > 4 else kw.get("column")
            if c is not None and c.is_const:
                cols.add(c.data)
    for name, args, kw, fn, node in it.ext_calls:
        if name.endswith("DataFrame") and args and args[0].kind == "dict" and isinstance(args[0].data, dict) and fn is not None \
                and fn.name.startswith("create_"):
            cols |= {k for k in args[0].data if isinstance(k, str)}
    fi = ctx.repo.func(fq)
    inline = False
    scan = [fi] + [ce.callee for ce in it.calls if ce.callee.name.startswith("create_")]
    for n in (x for f in scan for x in ast.walk(f.node)):
        if isinstance(n, ast.If) and any(isinstance(x, ast.Raise) for b in n.body for x in ast.walk(b)):
            t = ast.unparse(n.test).replace('"', "'")
            if ".index" in t and ("bus" in t or "net[" in t):
                inline = True
    if inline:
        called.add("<inline existence check>")
    return keys, cols, called


def rule_std_keys_siblings(ctx, R, require=60):
    """the single and the batch creator of an element consume the same standard-type keys (callable from C25 as well)"""
    cache = {}
    for single, batch in STD_PAIRS:
        for fq in (single, batch):
            cache[fq] = _facts(ctx, fq)
    for single, batch in STD_PAIRS:
        ks, kb = cache[single][0], cache[batch][0]
        if not ks or not kb:
            ctx.fail(f"no standard-type key reads recognised in {single if not ks else batch}")
        if "*" in ks or "*" in kb:
            ks = kb = ks | kb
        sn, bn = single.split(":")[1], batch.split(":")[1]
        for k in sorted(ks | kb):
            ok = k in ks and k in kb
            ctx.ob(R, f"{batch.split(':')[0]}::{bn}::{k}", ok,
                   f"std-type key '{k}': {sn}={'read' if k in ks else 'NOT read'}, {bn}={'read' if k in kb else 'NOT read'}",
                   ctx.repo.func(batch if k not in kb else single).loc())
    ctx.require_min(R, require)


def run(ctx):
    ctx.assume("decides sibling agreement of key sets, column sets, check calls, signatures and predicate structure; "
               "not the values written")
    R = "STD-KEYS"
    ctx.rule(R, "the set of standard-type keys read by a single creator equals the set read by its batch sibling")
    cache = {}
    for single, batch in PAIRS:
        for fq in (single, batch):
            cache[fq] = _facts(ctx, fq)
    for single, batch in STD_PAIRS:
        ks, kb = cache[single][0], cache[batch][0]
        if not ks or not kb:
            ctx.fail(f"no standard-type key reads recognised in {single if not ks else batch}")
        if "*" in ks or "*" in kb:
            # one side copies the whole type dict: it consumes every key
            ks = kb = ks | kb
        sn, bn = single.split(":")[1], batch.split(":")[1]
        for k in sorted(ks | kb):
            ok = k in ks and k in kb
            ctx.ob(R, f"{batch.split(':')[0]}::{bn}::{k}", ok,
                   f"std-type key '{k}': {sn}={'read' if k in ks else 'NOT read'}, {bn}={'read' if k in kb else 'NOT read'}",
                   ctx.repo.func(batch if k not in kb else single).loc())
    ctx.require_min(R, 60)

    R2 = "COLUMNS"
    ctx.rule(R2, "the set of table columns a single creator writes (entries dict keys, _set_value_if_not_nan targets) equals the "
                 "set its batch sibling writes (entries keys, _add_to_entries_if_not_nan targets), following *_from_parameters delegates")
    R3 = "CHECKS"
    ctx.rule(R3, "both siblings call a bus/element existence check and an index check")
    R4 = "SIGNATURE"
    ctx.rule(R4, "parameter names of a single creator equal those of its batch sibling modulo plural naming")
    for single, batch in PAIRS:
        fs, fb = ctx.repo.func(single), ctx.repo.func(batch)
        _, cs, calls_s = cache[single]
        _, cb, calls_b = cache[batch]
        if cs and cb and (single, batch) not in STD_PAIRS:
            # (std-type pairs are compared by STD-KEYS: their batch side delegates to *_from_parameters, whose
            #  optional columns are written only for non-NaN arguments)
            colexc = COL_EXCEPTIONS.get(fb.name, set())
            only_s = sorted(c for c in cs - cb if c not in colexc)
            only_b = sorted(c for c in cb - cs if c not in colexc)
            ctx.ob(R2, f"{fb.module.name}::{fb.qualname}::columns", not only_s and not only_b,
                   f"{len(cs & cb)} common columns" + (f"; only single: {only_s}" if only_s else "") + (f"; only batch: {only_b}" if only_b else ""),
                   fb.loc(), detail={"single": sorted(cs), "batch": sorted(cb)})
        for label, table in (("existence", EXISTENCE), ("index", INDEXCHK)):
            s_ok = bool(calls_s & (table["single"] | table["batch"]))
            b_ok = bool(calls_b & (table["single"] | table["batch"]))
            if "cost" in single and label == "existence":
                s_ok = s_ok or "_cost_existance_check" in calls_s or "_costs_existance_check" in calls_s
                b_ok = b_ok or "_costs_existance_check" in calls_b or "_cost_existance_check" in calls_b
            ctx.ob(R3, f"{fb.module.name}::{fb.qualname}::{label}-check", s_ok == b_ok and (b_ok or label == "existence"),
                   f"{label} check: {fs.qualname} calls {sorted(calls_s & (table['single'] | table['batch'] | {'_cost_existance_check'}))}, "
                   f"{fb.qualname} calls {sorted(calls_b & (table['single'] | table['batch'] | {'_costs_existance_check'}))}", fb.loc())
        ps = {PLURAL.get(p, p) for p in fs.params}
        pb = set(fb.params)
        exc = SIG_EXCEPTIONS.get(fb.name, set())
        diff = sorted((ps ^ pb) - exc - {PLURAL.get(e, e) for e in exc})
        ctx.ob(R4, f"{fb.module.name}::{fb.qualname}::signature", not diff,
               f"parameters agree ({len(ps & pb)} common)" if not diff else f"parameters differ: {diff}", fb.loc())
    ctx.require_min(R3, 36)

    R5 = "COST-PRED"
    ctx.rule(R5, "_costs_existance_check (batch) signals a duplicate when a poly cost OR a pwl cost exists, like "
                 "_cost_existance_check (single): the two counts are combined with + / or, never with bitwise &")
    fi = ctx.repo.func(f"{C}._utils:_costs_existance_check")
    rets = [n for n in ast.walk(fi.node) if isinstance(n, ast.Return) and n.value is not None]
    if len(rets) < 2:
        ctx.fail("_costs_existance_check: return statements not found")
    for i, r in enumerate(rets):
        v = r.value
        bad = isinstance(v, ast.BinOp) and isinstance(v.op, ast.BitAnd)
        both = "poly" in ast.unparse(v) and "pwl" in ast.unparse(v)
        ctx.ob(R5, f"{C}._utils::_costs_existance_check::return{i}", both and not bad,
               f"returns {norm(v, 70)}" + (" : bitwise & of the two counts is 0 whenever only one table has the duplicate" if bad else ""),
               fi.loc(r))
    # the power_type filter of the pwl table applies only when a power_type is given (the single check has a separate branch for
    # power_type is None): a comparison `== power_type` that is reachable with power_type None empties the pwl half of the check
    def known_false_with_none(test):
        if isinstance(test, ast.Call) and isinstance(test.func, ast.Name) and test.func.id == "isinstance" and test.args \
                and isinstance(test.args[0], ast.Name) and test.args[0].id == "power_type":
            return True
        if isinstance(test, ast.Compare) and isinstance(test.left, ast.Name) and test.left.id == "power_type" and len(test.ops) == 1 \
                and isinstance(test.comparators[0], ast.Constant) and test.comparators[0].value is None:
            return isinstance(test.ops[0], (ast.IsNot, ast.NotEq))
        if isinstance(test, ast.BoolOp) and isinstance(test.op, ast.And):
            return any(known_false_with_none(v) for v in test.values)
        if isinstance(test, ast.BoolOp) and isinstance(test.op, ast.Or):
            return all(known_false_with_none(v) for v in test.values)
        return False

    def known_true_with_none(test):
        if isinstance(test, ast.Compare) and isinstance(test.left, ast.Name) and test.left.id == "power_type" and len(test.ops) == 1 \
                and isinstance(test.comparators[0], ast.Constant) and test.comparators[0].value is None:
            return isinstance(test.ops[0], (ast.Is, ast.Eq))
        return False
    for f_ in (fi, ctx.repo.func(f"{C}._utils:_cost_existance_check")):
        pm = {c: p_ for p_ in ast.walk(f_.node) for c in ast.iter_child_nodes(p_)}
        k = 0
        for node in ast.walk(f_.node):
            if isinstance(node, ast.Compare) and isinstance(node.comparators[0], ast.Name) and node.comparators[0].id == "power_type" \
                    and "power_type" in ast.unparse(node.left) and isinstance(node.ops[0], ast.Eq):
                k += 1
                cur, reach = node, True
                while cur in pm:
                    par = pm[cur]
                    if isinstance(par, ast.If):
                        in_body = any(cur is x or any(cur is y for y in ast.walk(x)) for x in par.body)
                        if in_body and known_false_with_none(par.test):
                            reach = False
                        if (not in_body) and known_true_with_none(par.test):
                            reach = False
                    cur = par
                ctx.ob(R5, f"{C}._utils::{f_.qualname}::power-type-filter{k}", not reach,
                       "the power_type filter is applied only when a power_type is given" if not reach else
                       f"`{norm(node, 60)}` is evaluated with power_type None as well: nothing equals None, the pwl costs drop out of the "
                       "duplicate check (a second cost for the element is accepted)", f_.loc(node))
    fs = ctx.repo.func(f"{C}._utils:_cost_existance_check")
    ors = [n for n in ast.walk(fs.node) if isinstance(n, ast.BoolOp) and isinstance(n.op, ast.Or)]
    ctx.ob(R5, f"{C}._utils::_cost_existance_check::disjunction", len(ors) >= 2, "single check combines poly/pwl with 'or'", fs.loc())
    rule_series_align(ctx)
    rule_batch_guards(ctx)
    rule_index_table(ctx)


def rule_series_align(ctx):
    """batch creators hand every entry to _check_entry: a pandas Series is stored by label (DataFrame.assign aligns it with
    the new element indices) only when ALL of its labels are new element indices, otherwise by position like a list"""
    R = "SERIES-ALIGN"
    ctx.rule(R, "in create._utils._check_entry the Series branch returns the positional values unless every label of the Series is "
                "one of the new indices (not all(isin(val.index, index))): with a partial overlap label alignment would shift the "
                "values and fill the rest with NaN, where the single creators take them in order; _set_multiple_entries passes "
                "every entry through _check_entry")
    fi = ctx.repo.func(f"{C}._utils:_check_entry")
    found = 0
    ALL = {"np_all", "all", "np.all", "numpy.all"}
    ANY = {"np_any", "any", "np.any", "numpy.any"}
    for node in ast.walk(fi.node):
        if not isinstance(node, ast.If):
            continue
        if not any(isinstance(x, ast.Return) and isinstance(x.value, ast.Attribute) and x.value.attr == "values" for x in node.body):
            continue
        found += 1
        terms = node.test.values if isinstance(node.test, ast.BoolOp) and isinstance(node.test.op, ast.And) else [node.test]
        ok = False
        why = norm(node.test, 90)
        for t in terms:
            neg = isinstance(t, ast.UnaryOp) and isinstance(t.op, ast.Not)
            c = t.operand if neg else t
            if not isinstance(c, ast.Call):
                continue
            fn = dotted(c.func) or (c.func.attr if isinstance(c.func, ast.Attribute) else "")
            arg = c.args[0] if c.args else (c.func.value if isinstance(c.func, ast.Attribute) else None)
            if arg is None or "isin" not in ast.unparse(arg):
                continue
            inv = isinstance(arg, ast.UnaryOp) and isinstance(arg.op, ast.Invert)
            last = fn.split(".")[-1]
            is_all = fn in ALL or last == "all"
            is_any = fn in ANY or last == "any"
            # not all(isin)  |  any(~isin)
            ok = (neg and is_all and not inv) or ((not neg) and is_any and inv)
        ctx.ob(R, f"{C}._utils::_check_entry::series-positional", ok,
               "a Series is kept label-aligned only when all its labels are new indices" if ok else
               f"`if {why}` decides whether a Series is taken by position: a Series whose labels overlap the new indices only "
               "partly is then aligned by label (values shifted, NaN elsewhere) while the single creators take its values in order",
               fi.loc(node))
    if not found:
        ctx.fail("_check_entry: the branch returning val.values was not found")
    fs = ctx.repo.func(f"{C}._utils:_set_multiple_entries")
    txt = ast.unparse(fs.node)
    ctx.ob(R, f"{C}._utils::_set_multiple_entries::all-entries-checked", "_check_entry(v, index) for k, v in entries.items()" in txt,
           "every entry passes _check_entry", fs.loc())


def rule_batch_guards(ctx):
    R = "BATCH-GUARD"
    ctx.rule(R, "_get_multiple_index_with_check returns a passed index vector only after the duplicate check and the collision check; "
                "create_lines decides the optional zero-sequence / alpha columns over all given types (any(...)), not from the first "
                "one; create_transformers3w lets an explicit tap_changer_type argument override the standard type (assigned after the "
                "update from the type)")
    U = f"{C}._utils"
    fi = ctx.repo.func(f"{U}:_get_multiple_index_with_check")
    body = fi.node.body
    raises = [i for i, st in enumerate(body) if isinstance(st, ast.If) and any(isinstance(x, ast.Raise) for x in ast.walk(st))]
    early = []
    for i, st in enumerate(body):
        for x in ast.walk(st):
            if isinstance(x, ast.Return) and isinstance(x.value, ast.Name) and x.value.id == "index" and (not raises or i < max(raises)):
                early.append(x)
    ctx.ob(R, f"{U}::_get_multiple_index_with_check::checks-dominate-return", len(raises) >= 2 and not early,
           "the passed index is returned only after both checks" if len(raises) >= 2 and not early else
           f"`return index` at line {early[0].lineno if early else '?'} precedes a check: duplicate or colliding indices are accepted on that path",
           fi.loc(early[0]) if early else fi.loc())
    fl = ctx.repo.func(f"{C}.line_create:create_lines")
    n = 0
    for node in ast.walk(fl.node):
        if isinstance(node, ast.If):
            t = ast.unparse(node.test)
            if "lineparam" in t and any(p in ast.unparse(node) for p in ("r0_ohm_per_km", "alpha")) and " in " in t:
                n += 1
                ok = "lineparam[0]" not in t.replace(" ", "")
                ctx.ob(R, f"{C}.line_create::create_lines::optional-columns#{n}", ok,
                       f"`{t[:90]}`" if ok else f"`{t[:90]}` looks at the first standard type only: the optional data of the other types is dropped", fl.loc(node))
    if n < 1:
        ctx.fail("create_lines: tests for the optional standard-type columns not found")
    fsh = ctx.repo.func(f"{C}.shunt_create:create_shunts")
    dv = next((st for st in ast.walk(fsh.node) if isinstance(st, ast.Assign) and ast.unparse(st.targets[0]) == "vn_kv"), None)
    t = ast.unparse(dv.value).replace(" ", "") if dv is not None else ""
    ok = dv is not None and ".loc[buses]" in t and "isin" not in t
    ctx.ob(R, f"{C}.shunt_create::create_shunts::default-vn_kv", ok, f"default vn_kv = {t}" if ok else
           f"`vn_kv = {t[:90]}` takes the bus voltages in bus-table order, not in the order of `buses`: shunt k gets the voltage of another bus", fsh.loc(dv) if dv is not None else fsh.loc())
    fa = ctx.repo.func(f"{U}:_add_to_entries_if_not_nan")
    blk = next((x for x in ast.walk(fa.node) if isinstance(x, ast.If) and "_not_nan(values)" in ast.unparse(x.test)), None)
    fl = [x.lineno for x in ast.walk(blk) if isinstance(x, ast.Call) and isinstance(x.func, ast.Attribute) and x.func.attr == "fillna"] if blk is not None else []
    ca = [x.lineno for st in (blk.body if blk is not None else []) for x in ast.walk(st) if isinstance(x, ast.Call) and ast.unparse(x.func) == "_try_astype"]
    ok = bool(fl) and bool(ca) and max(fl) < min(ca)
    ctx.ob(R, f"{U}::_add_to_entries_if_not_nan::fill-before-cast", ok, "missing entries are filled with the default before the dtype cast" if ok else
           "the dtype cast precedes fillna(default): NaN cast to bool is True, so unspecified entries of a flag vector become True instead of the default",
           fa.loc(blk) if blk is not None else fa.loc())
    ft = ctx.repo.func(f"{C}.trafo_create:create_transformers3w")
    upd = [st.lineno for st in ast.walk(ft.node) if isinstance(st, ast.Expr) and isinstance(st.value, ast.Call) and ast.unparse(st.value.func) == "params.update"
           and "std_params" in ast.unparse(st.value)]
    expl = [st for st in ast.walk(ft.node) if isinstance(st, ast.Assign) and ast.unparse(st.targets[0]).replace('"', "'") == "params['tap_changer_type']"]
    ok = bool(upd) and bool(expl) and all(st.lineno > max(upd) for st in expl)
    ctx.ob(R, f"{C}.trafo_create::create_transformers3w::explicit-after-type", ok,
           "explicit tap_changer_type assigned after the update from the standard type" if ok else
           "the explicit tap_changer_type is assigned before params.update(<standard type>): the type's value overwrites the argument", ft.loc(expl[0]) if expl else ft.loc())


def rule_index_table(ctx):
    """a creator checks new indices against, and writes its rows into, one and the same table"""
    R = "INDEX-TABLE"
    ctx.rule(R, "in every creation function the table name handed to _get_index_with_check / _get_multiple_index_with_check is the table "
                "name handed to _set_entries / _set_multiple_entries (and to _add_to_entries_if_not_nan): an index is checked against the "
                "table the rows are written to")
    n = 0
    for mn in ctx.repo.module_names():
        if not mn.startswith(f"{C}.") or mn.endswith("._utils"):
            continue
        for fi in ctx.repo.module(mn).functions.values():
            chk, wr = set(), set()
            first = None
            for c in ast.walk(fi.node):
                if isinstance(c, ast.Call) and isinstance(c.func, ast.Name) and len(c.args) >= 2 and isinstance(c.args[1], ast.Constant) and isinstance(c.args[1].value, str):
                    if c.func.id in ("_get_index_with_check", "_get_multiple_index_with_check"):
                        chk.add(c.args[1].value)
                        first = first or c
                    elif c.func.id in ("_set_entries", "_set_multiple_entries"):
                        wr.add(c.args[1].value)
            if not chk or not wr:
                continue
            n += 1
            ok = chk == wr
            ctx.ob(R, f"{mn}::{fi.qualname}::index-table", ok,
                   f"index checked against and rows written to {sorted(wr)}" if ok else
                   f"{fi.qualname} checks the new indices against {sorted(chk)} but writes the rows to {sorted(wr)}: an index that exists in "
                   f"{sorted(wr)} is accepted (duplicate index), the single creator rejects it", fi.loc(first))
    if n < 40:
        ctx.fail(f"INDEX-TABLE: only {n} creation functions with an index check and a table write found (confirmed: > 40)")


def variants(repo):
    t = "pandapower/create/trafo_create.py"
    l = "pandapower/create/line_create.py"
    u = "pandapower/create/_utils.py"
    ld = "pandapower/create/load_create.py"
    V = Variant
    return [
        V("batch trafo drops vector_group", t, in_function("create_transformers", replace_once('"si0_hv_partial", "vector_group",', '"si0_hv_partial",')), "create_transformers::vector_group"),
        V("batch trafo3w drops tap_side", t, in_function("create_transformers3w", lambda s: s.replace('"tap_side"', '"tap_sidex"', 1)), "create_transformers3w"),
        V("loads batch skips bus check", ld, in_function("create_loads", lambda s: s.replace("    _check_multiple_elements(net, buses, \"bus\")\n", "", 1) if "_check_multiple_elements(net, buses, \"bus\")" in s else s.replace("_check_multiple_elements(", "len(", 1)), "CHECKS"),
        V("batch lines drop zero sequence", l, in_function("create_lines", lambda s: s.replace('            for param in ("r0_ohm_per_km", "x0_ohm_per_km", "c0_nf_per_km"):\n                entries[param] = lineparam[param]\n', '            pass\n', 1)), "create_lines::x0_ohm_per_km"),
        V("batch dc lines drop alpha", l, in_function("create_lines_dc", lambda s: s.replace('        if "alpha" in net.line.columns and "alpha" in lineparam:\n            entries["alpha"] = lineparam["alpha"]\n', '', 1)), "create_lines_dc::alpha"),
        V("pwl power_type filter without guard", u, in_function("_costs_existance_check", replace_once("        if isinstance(power_type, str):\n            pwl_exist &= (net.pwl_cost.power_type == power_type).values", "        pwl_exist &= (net.pwl_cost.power_type == power_type).values")), "power-type-filter"),
        V("wards checked against the storage table", "pandapower/create/ward_create.py", replace_once('index = _get_multiple_index_with_check(net, "ward", index, len(buses))', 'index = _get_multiple_index_with_check(net, "storage", index, len(buses))'), "INDEX-TABLE"),
        V("default shunt voltage in bus-table order", "pandapower/create/shunt_create.py", replace_once("vn_kv = net.bus.vn_kv.loc[buses]", "vn_kv = net.bus.vn_kv.values[net.bus.index.isin(buses)]"), "default-vn_kv"),
        V("cast before filling the default", u, in_function("_add_to_entries_if_not_nan", lambda s: s.replace("        if _not_nan(default_val):\n            entries[column] = entries[column].fillna(default_val)\n        _try_astype(entries, column, dtype)\n", "        _try_astype(entries, column, dtype)\n        if _not_nan(default_val):\n            entries[column] = entries[column].fillna(default_val)\n", 1)), "fill-before-cast"),
        V("empty table skips the duplicate check", u, replace_once("    u, c = uni(index, return_counts=True)\n", "    if not len(net[table]):\n        return index\n    u, c = uni(index, return_counts=True)\n"), "BATCH-GUARD"),
        V("zero sequence decided by the first type", l, in_function("create_lines", lambda s: s.replace('        for param in ("r0_ohm_per_km", "x0_ohm_per_km", "c0_nf_per_km"):\n            if any(param in line_param_dict for line_param_dict in lineparam):\n', '        if "r0_ohm_per_km" in lineparam[0]:\n            for param in ("r0_ohm_per_km", "x0_ohm_per_km", "c0_nf_per_km"):\n', 1)), "BATCH-GUARD"),
        V("series kept by label on partial overlap", u, replace_once("not np_all(isin(val.index, index))", "not np_any(isin(val.index, index))"), "SERIES-ALIGN"),
        V("twin: any label outside", u, replace_once("not np_all(isin(val.index, index))", "np_any(~isin(val.index, index))"), None),
        V("cost pred and", u, in_function("_costs_existance_check", replace_once("return sum(poly_exist) + sum(pwl_exist)", "return sum(poly_exist) & sum(pwl_exist)")), "COST-PRED"),
    ]
