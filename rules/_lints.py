"""Small structural lints shared by several properties (contradiction / sibling rules in the sense of the design,
section 2.1).  Each takes the Ctx, a rule name and the functions to look at and records one obligation per site."""
import ast

from ppsa.astutil import norm, dotted, call_name, last_attr, names_in, walk_no_nested, stmts_in_order


def _bound_from_sum_by_group(fn):
    """names bound as the first element of `a, b, c = _sum_by_group(...)` (unique, sorted group keys)"""
    out = set()
    for n in ast.walk(fn):
        if isinstance(n, ast.Assign) and isinstance(n.value, ast.Call) and (call_name(n.value) or "").endswith("_sum_by_group"):
            t = n.targets[0]
            if isinstance(t, ast.Tuple) and t.elts and isinstance(t.elts[0], ast.Name):
                out.add(t.elts[0].id)
        if isinstance(n, ast.Assign) and isinstance(n.value, ast.Call) and last_attr(n.value) == "unique" and isinstance(n.targets[0], ast.Name):
            out.add(n.targets[0].id)
    return out


def accumulate_unique(ctx, R, fis, cols=("GS", "BS", "PD", "QD"), allowed=None):
    """`ppc["bus"][IDX, COL] += V` does not accumulate over repeated entries of IDX (numpy fancy indexing): IDX must be the
    group key returned by _sum_by_group / np.unique, a boolean mask (np.ix_) or a scalar"""
    allowed = allowed or {}
    n = 0
    for fi in fis:
        uniq = _bound_from_sum_by_group(fi.node)
        for st in walk_no_nested(fi.node):
            if not isinstance(st, ast.AugAssign) or not isinstance(st.op, (ast.Add, ast.Sub)):
                continue
            t = st.target
            if not (isinstance(t, ast.Subscript) and isinstance(t.value, ast.Subscript) and isinstance(t.slice, ast.Tuple) and len(t.slice.elts) == 2):
                continue
            mat = norm(t.value).replace('"', "'")
            if not (mat.endswith("['bus']") or mat.endswith("['bus_dc']")):
                continue
            col = t.slice.elts[1]
            cname = col.id if isinstance(col, ast.Name) else None
            if cname not in cols:
                continue
            idx = t.slice.elts[0]
            n += 1
            key = f"{fi.module.name}::{fi.qualname}::{norm(t, 60)}"
            why = allowed.get((fi.qualname, norm(idx)))
            ok = (isinstance(idx, ast.Name) and idx.id in uniq) or why is not None
            ctx.ob(R, key, ok,
                   (f"index {norm(idx)} is a unique group key" if why is None else f"listed: {why}") if ok else
                   f"`{norm(st, 80)}`: the index {norm(idx)} can hold the same bus more than once (several elements at one bus) and numpy's "
                   "in-place add does not accumulate over repeated indices - only the last element at a bus is counted", fi.loc(st))
    return n


def split_divisor(ctx, R, fis):
    """`X[I, C] = total / len(J)` shares a total among the rows I: J must be I"""
    n = 0
    for fi in fis:
        for st in walk_no_nested(fi.node):
            if not isinstance(st, ast.Assign) or len(st.targets) != 1:
                continue
            t = st.targets[0]
            if not (isinstance(t, ast.Subscript) and isinstance(t.slice, ast.Tuple) and len(t.slice.elts) == 2):
                continue
            rows = t.slice.elts[0]
            for node in ast.walk(st.value):
                if isinstance(node, ast.BinOp) and isinstance(node.op, ast.Div) and isinstance(node.right, ast.Call) \
                        and call_name(node.right) == "len" and node.right.args:
                    n += 1
                    j = node.right.args[0]
                    ok = norm(j) == norm(rows)
                    ctx.ob(R, f"{fi.module.name}::{fi.qualname}::{norm(t, 50)}", ok,
                           f"the total is divided by the number of rows it is assigned to ({norm(rows)})" if ok else
                           f"`{norm(st, 90)}`: the value is shared among the rows {norm(rows)} but divided by len({norm(j)}); the shares "
                           "do not add up to the total", fi.loc(st))
        # total / COUNT[IDX] with COUNT = bincount(A): the count must be taken over the same selection A == IDX
        counts = {}
        for st in walk_no_nested(fi.node):
            if isinstance(st, ast.Assign) and isinstance(st.targets[0], ast.Name) and isinstance(st.value, ast.Call) \
                    and last_attr(st.value) == "bincount" and st.value.args:
                counts[st.targets[0].id] = st.value.args[0]
        for st in walk_no_nested(fi.node):
            if not isinstance(st, ast.Assign):
                continue
            for node in ast.walk(st.value):
                if isinstance(node, ast.BinOp) and isinstance(node.op, ast.Div) and isinstance(node.right, ast.Subscript) \
                        and isinstance(node.right.value, ast.Name) and node.right.value.id in counts:
                    n += 1
                    a, idx = counts[node.right.value.id], node.right.slice
                    ok = norm(a) == norm(idx)
                    ctx.ob(R, f"{fi.module.name}::{fi.qualname}::count:{node.right.value.id}", ok,
                           f"the share is divided by the number of rows of the same selection ({norm(idx)})" if ok else
                           f"the total of the rows selected by {norm(idx)} is divided by a count over {norm(a)}: rows outside the selection "
                           "reduce the share and the shares do not add up to the total", fi.loc(st))
    return n


TYPE_TABLE = {"l": "line", "t": "trafo", "t3": "trafo3w", "b": "bus"}


def type_table_agree(ctx, R, fis, columns=("element_type", "et")):
    """in a conjunction  (X.<type column> == "<T>") & X.element.isin(<net>.<T2>.index)  the table T2 must be the table of T"""
    n = 0
    for fi in fis:
        for node in ast.walk(fi.node):
            if not (isinstance(node, ast.BinOp) and isinstance(node.op, ast.BitAnd)):
                continue
            parts = []

            def flat(e):
                if isinstance(e, ast.BinOp) and isinstance(e.op, ast.BitAnd):
                    flat(e.left)
                    flat(e.right)
                else:
                    parts.append(e)
            flat(node)
            tcode = None
            for p in parts:
                if isinstance(p, ast.Compare) and len(p.ops) == 1 and isinstance(p.ops[0], ast.Eq) and isinstance(p.comparators[0], ast.Constant) \
                        and isinstance(p.comparators[0].value, str):
                    l = norm(p.left)
                    if any(l.endswith("." + c) or l.endswith(f"['{c}']") or l.endswith(f'["{c}"]') for c in columns):
                        tcode = p.comparators[0].value
            if tcode is None:
                continue
            want = TYPE_TABLE.get(tcode, tcode)
            for p in parts:
                if isinstance(p, ast.Call) and last_attr(p) == "isin" and p.args and "element" in norm(p.func):
                    a = p.args[0]
                    d = dotted(a) or norm(a)
                    # <net>.<table>.index  /  <net>[<table>].index
                    segs = d.split(".")
                    if len(segs) >= 3 and segs[-1] == "index":
                        tab = segs[-2]
                        n += 1
                        ok = tab == want
                        ctx.ob(R, f"{fi.module.name}::{fi.qualname}::{tcode}:{norm(p, 60)}", ok,
                               f"rows of type '{tcode}' are matched against {want}.index" if ok else
                               f"rows with type '{tcode}' are matched against the index of table '{tab}' instead of '{want}': references to "
                               f"{want} elements that do not exist survive (or existing ones are dropped)", fi.loc(p))
        # second form:  X[X.<type column> == '<T>'].element.isin(<net>.<T2>.index)
        for node in ast.walk(fi.node):
            if not (isinstance(node, ast.Call) and last_attr(node) == "isin" and node.args and isinstance(node.func, ast.Attribute)):
                continue
            recv = node.func.value
            if not (isinstance(recv, ast.Attribute) and recv.attr == "element" and isinstance(recv.value, ast.Subscript)):
                continue
            flt = recv.value.slice
            tcode = None
            for c in ast.walk(flt):
                if isinstance(c, ast.Compare) and len(c.ops) == 1 and isinstance(c.ops[0], ast.Eq) and isinstance(c.comparators[0], ast.Constant) \
                        and isinstance(c.comparators[0].value, str) and any(norm(c.left).endswith("." + col) for col in columns):
                    tcode = c.comparators[0].value
            if tcode is None:
                continue
            want = TYPE_TABLE.get(tcode, tcode)
            d = dotted(node.args[0]) or norm(node.args[0])
            segs = d.split(".")
            if len(segs) >= 3 and segs[-1] == "index":
                n += 1
                ok = segs[-2] == want
                ctx.ob(R, f"{fi.module.name}::{fi.qualname}::{tcode}:{norm(node, 60)}", ok,
                       f"rows of type '{tcode}' are matched against {want}.index" if ok else
                       f"rows with type '{tcode}' are matched against the index of table '{segs[-2]}' instead of '{want}'", fi.loc(node))
    return n


def same_table_guard(ctx, R, fi, column):
    """`if '<column>' in net[A].columns: ... net[B]['<column>']` : A and B must be the same table expression"""
    n = 0
    for node in ast.walk(fi.node):
        tests = []
        if isinstance(node, ast.IfExp):
            tests.append((node.test, [node.body]))
        if isinstance(node, ast.If):
            tests.append((node.test, node.body))
        for test, body in tests:
            for c in ast.walk(test):
                if isinstance(c, ast.Compare) and len(c.ops) == 1 and isinstance(c.ops[0], ast.In) and isinstance(c.left, ast.Constant) \
                        and c.left.value == column and norm(c.comparators[0]).endswith(".columns"):
                    guard_tab = norm(c.comparators[0])[: -len(".columns")]
                    used = set()
                    for b in body:
                        for s in ast.walk(b):
                            if isinstance(s, ast.Subscript) and isinstance(s.slice, ast.Constant) and s.slice.value == column:
                                used.add(norm(s.value))
                            if isinstance(s, ast.Subscript) and isinstance(s.slice, ast.Tuple) and any(
                                    isinstance(e, ast.Constant) and e.value == column for e in s.slice.elts):
                                v = s.value
                                if isinstance(v, ast.Attribute) and v.attr in ("loc", "at"):
                                    used.add(norm(v.value))
                    if not used and isinstance(node, ast.IfExp) and isinstance(node.body, ast.Constant) and node.body.value == column:
                        # s = '<column>' if '<column>' in net[A].columns else '<other>'  ...  net[B].loc[.., s]
                        var = None
                        for a_ in ast.walk(fi.node):
                            if isinstance(a_, ast.Assign) and a_.value is node and isinstance(a_.targets[0], ast.Name):
                                var = a_.targets[0].id
                        if var:
                            for s_ in ast.walk(fi.node):
                                if isinstance(s_, ast.Subscript) and isinstance(s_.slice, ast.Name) and s_.slice.id == var:
                                    used.add(norm(s_.value))
                                if isinstance(s_, ast.Subscript) and isinstance(s_.slice, ast.Tuple) and any(
                                        isinstance(e, ast.Name) and e.id == var for e in s_.slice.elts):
                                    v = s_.value
                                    if isinstance(v, ast.Attribute) and v.attr in ("loc", "at"):
                                        used.add(norm(v.value))
                    if not used:
                        continue
                    n += 1
                    ok = used == {guard_tab}
                    ctx.ob(R, f"{fi.module.name}::{fi.qualname}::guard:{column}", ok,
                           f"the presence of '{column}' is tested on the table it is read from ({guard_tab})" if ok else
                           f"'{column}' is tested on {guard_tab} but read from {sorted(used)}: KeyError, or the wrong limit, when only one of "
                           "the tables has the column", fi.loc(c))
    return n


def duplicate_operands(ctx, R, fis):
    """`a and a`, `a or a`, `m1 & m1`, `m1 | m1`: one of two intended tests is missing (copy/paste slip); expected count zero"""
    n = 0
    for fi in fis:
        for node in walk_no_nested(fi.node):
            ops = None
            if isinstance(node, ast.BoolOp):
                ops = node.values
            elif isinstance(node, ast.BinOp) and isinstance(node.op, (ast.BitAnd, ast.BitOr)):
                ops = []

                def flat(e, op=type(node.op)):
                    if isinstance(e, ast.BinOp) and isinstance(e.op, op):
                        flat(e.left)
                        flat(e.right)
                    else:
                        ops.append(e)
                flat(node)
            if not ops or len(ops) < 2:
                continue
            n += 1
            seen = {}
            for o in ops:
                t = norm(o, 400)
                if len(t) > 8 and t in seen:
                    ctx.ob(R, f"{fi.module.name}::{fi.qualname}::dup:{t[:60]}", False,
                           f"`{norm(node, 120)}` tests `{t[:80]}` twice: the second operand was meant to be a different test, one condition is "
                           "never examined", fi.loc(node))
                seen[t] = o
    return n


def dup_sweep(ctx, R, modules, minimum=20):
    """duplicate-operand lint over the functions of the named modules; fails closed when nothing was examined"""
    ctx.rule(R, "no boolean / mask conjunction or disjunction tests the same operand twice (`a and a`, `m & m`): the second operand "
                "was meant to be another test (the other end of a switch, the other column of a pair) - contradiction lint, expected "
                "count zero in: " + ", ".join(m.split(".", 1)[1] for m in modules))
    fis = []
    for mn in modules:
        fis += list(ctx.repo.module(mn).functions.values())
    n = duplicate_operands(ctx, R, fis)
    ctx.ob(R, "sweep::" + "+".join(m.rsplit(".", 1)[-1] for m in modules), n >= minimum,
           f"{n} conjunctions / disjunctions examined" if n >= minimum else f"only {n} conjunctions found in the swept modules", "", nontrivial=False)
    return n


def both_switch_ends(ctx, R):
    """a closed bus-bus switch fuses two buses only if both are in service: both implementations test both ends"""
    ctx.rule(R, "bus fusing over closed bus-bus switches requires both ends in service: create_bus_lookup's mask tests "
                "switch.bus and switch.element, the numba twin ds_create tests bus1 and bus2 (sibling agreement)")
    fi = ctx.repo.func("pandapower.build_bus:create_bus_lookup")
    m = [n for n in ast.walk(fi.node) if isinstance(n, ast.Assign) and isinstance(n.targets[0], ast.Name) and n.targets[0].id == "closed_bb_switch_mask"]
    if not m:
        raise_err = True
        from ppsa.loader import AnalysisError
        raise AnalysisError("create_bus_lookup: closed_bb_switch_mask not found")
    t = norm(m[0].value, 2000).replace('"', "'")
    cols = {c for c in ("bus", "element", "closed", "et") if f"['switch']['{c}']" in t}
    isin_cols = set()
    for c in ast.walk(m[0].value):
        if isinstance(c, ast.Call) and last_attr(c) == "isin" and c.args:
            a = norm(c.args[0]).replace('"', "'")
            for col in ("bus", "element"):
                if f"['{col}']" in a:
                    isin_cols.add(col)
    ok = cols == {"bus", "element", "closed", "et"} and isin_cols == {"bus", "element"}
    ctx.ob(R, "pandapower.build_bus::create_bus_lookup::mask", ok,
           "closed bus-bus switches with both ends in service" if ok else
           f"the mask reads columns {sorted(cols)} and tests in-service membership of {sorted(isin_cols)} only: a switch to an out-of-service "
           "bus fuses (or a valid one does not)", fi.loc(m[0]))
    fd = ctx.repo.func("pandapower.build_bus:ds_create")
    tests = [n for n in ast.walk(fd.node) if isinstance(n, ast.If) and "bus_in_service" in norm(n.test)]
    ok = bool(tests) and all({"bus1", "bus2"} <= names_in(n.test) for n in tests)
    ctx.ob(R, "pandapower.build_bus::ds_create::both-ends", ok,
           "the numba path tests bus1 and bus2" if ok else "the numba path does not test the in-service state of both switch ends",
           fd.loc(tests[0]) if tests else fd.loc())


def et_exact(ctx, R, fis, minimum=3):
    """type codes of referencing tables (switch.et: b, l, t, t3; measurement.element_type ...) are compared for equality:
    prefix / substring matching confuses 't' with 't3' (and 'trafo' with 'trafo3w')"""
    ctx.rule(R, "element type codes (switch.et, *.element_type) are matched by equality / isin, never by startswith / contains / "
                "first-letter slicing: 't' is a prefix of 't3', 'trafo' of 'trafo3w'")
    n = 0
    for fi in fis:
        for node in walk_no_nested(fi.node):
            t = None
            if isinstance(node, ast.Compare) and len(node.ops) == 1 and isinstance(node.ops[0], (ast.Eq, ast.NotEq, ast.In, ast.NotIn)):
                l = norm(node.left).replace('"', "'")
                if l.endswith(".et") or l.endswith("['et']") or l.endswith(".et.values") or l.endswith("['et'].values"):
                    n += 1
            if isinstance(node, ast.Call) and last_attr(node) in ("startswith", "contains", "endswith", "find", "match"):
                recv = norm(node.func).replace('"', "'")
                args = " ".join(norm(a) for a in node.args).replace('"', "'")
                if ".et." in recv or "['et']" in recv or ".et.values" in args or "['et']" in args or ".element_type." in recv or "['element_type']" in recv:
                    t = node
            if isinstance(node, ast.Assign) and isinstance(node.targets[0], ast.Name) and "et" in node.targets[0].id.split("_") \
                    and isinstance(node.value, ast.Subscript) and isinstance(node.value.value, ast.Name) and "type" in node.value.value.id \
                    and isinstance(node.value.slice, (ast.Constant, ast.Slice)):
                t = node
            if t is not None:
                n += 1
                ctx.ob(R, f"{fi.module.name}::{fi.qualname}::{norm(t, 60)}", False,
                       f"`{norm(t, 90)}` matches type codes by prefix / first letter: rows of 't3' (three-winding) switches are treated as "
                       "'t' (two-winding) rows with the same index, or the other way round", fi.loc(t))
    ctx.ob(R, "sweep", n >= minimum, f"{n} type-code comparisons examined", "", nontrivial=False)
    return n


def in_service_factor(ctx, rule, fi, acc_names=("p", "q"), mask_name="vl"):
    """Inside every `if len(<table>) > 0:` block of an aggregation function that binds `vl = _is_elements[<type>]`, every term
    appended or added to the accumulators p / q carries the factor vl: an out-of-service element contributes nothing.
    Returns the number of terms checked."""
    import ast
    from ppsa.astutil import norm, names_in
    n = 0

    def terms(st):
        v = st.value
        tgt = st.targets[0].id
        if isinstance(v, ast.Call) and (norm(v.func, 30).endswith("hstack")) and v.args and isinstance(v.args[0], (ast.List, ast.Tuple)):
            return [e for e in v.args[0].elts if not (isinstance(e, ast.Name) and e.id == tgt)]
        if isinstance(v, ast.BinOp) and isinstance(v.op, ast.Add):
            out = []
            for side in (v.left, v.right):
                if not (isinstance(side, ast.Name) and side.id == tgt):
                    out.append(side)
            return out
        return None

    for blk in ast.walk(fi.node):
        if not isinstance(blk, ast.If):
            continue
        binds = [s for s in blk.body if isinstance(s, ast.Assign) and isinstance(s.targets[0], ast.Name) and s.targets[0].id == mask_name
                 and "_is_elements" in norm(s.value, 80)]
        if not binds:
            continue
        typ = norm(binds[0].value, 80)
        for st in ast.walk(blk):
            if isinstance(st, ast.Assign) and len(st.targets) == 1 and isinstance(st.targets[0], ast.Name) and st.targets[0].id in acc_names:
                ts = terms(st)
                if ts is None:
                    continue
                for t in ts:
                    n += 1
                    ok = mask_name in names_in(t)
                    ctx.ob(rule, f"{fi.module.name}::{fi.qualname}::{typ}:{st.targets[0].id}#{n}", ok,
                           f"term `{norm(t, 70)}` carries the in-service factor" if ok else
                           f"`{norm(st, 110)}`: the term is not multiplied by the in-service mask {mask_name} ({typ}) - an out-of-service "
                           "element still contributes to the bus admittance while its result row reports zero", fi.loc(st))
    return n


def split_total(ctx, rule):
    """pfsoln._split_p_for_gens_at_same_bus, several generators at one reference bus: only the reference rows (ext_grids) are
    assigned - the other generators keep their set-point - and the amount shared among them is the bus power minus the
    set-points of those other generators, in the weighted and in the unweighted branch alike."""
    import ast
    from ppsa.astutil import norm, inline_locals
    fi = ctx.repo.func("pandapower.pypower.pfsoln:_split_p_for_gens_at_same_bus")
    outer = next((n for n in fi.node.body if isinstance(n, ast.If)), None)
    if outer is None:
        ctx.fail("_split_p_for_gens_at_same_bus: the `len(gens_at_bus) > 1` branch was not found")
    KEEP = ("p_bus", "gens_at_bus", "ext_grids", "gen", "ref_gens", "slack_weights", "sum_slack_weights")
    want_total = "p_bus-sum(gen[setdiff1d(gens_at_bus,ext_grids),PG])"
    n = 0
    for st in ast.walk(outer):
        if not (isinstance(st, ast.Assign) and isinstance(st.targets[0], ast.Subscript) and norm(st.targets[0].value, 10) == "gen"):
            continue
        if st in outer.orelse or any(st is x for b in outer.orelse for x in ast.walk(b)):
            continue   # single generator at the bus
        n += 1
        rows = norm(st.targets[0].slice, 60).replace(" ", "").strip("()")
        ok_rows = rows == "ext_grids,PG"
        v = norm(inline_locals(outer, st.value, keep=KEEP), 400).replace(" ", "")
        if "slack_weights" in v:
            ok_total = f"({want_total}-sum(gen[ext_grids,PG]))*slack_weights/sum_slack_weights" in v
        else:
            ok_total = v == f"({want_total})/len(ext_grids)"
        ctx.ob(rule, f"pandapower.pypower.pfsoln::_split_p_for_gens_at_same_bus::total#{n}", ok_rows and ok_total,
               "reference rows share the bus power minus the other generators' set-points" if ok_rows and ok_total else
               (f"`{norm(st, 120)}` assigns rows [{rows}]: generators that are not reference machines lose their set-point" if not ok_rows else
                f"`{norm(st, 120)}` shares `{v[:90]}`: the set-points of the other generators at the bus are not subtracted (or not for this branch)"),
               fi.loc(st))
    ext = [s for s in ast.walk(outer) if isinstance(s, ast.Assign) and norm(s.targets[0], 20) == "ext_grids"]
    ok = bool(ext) and norm(ext[0].value, 80).replace(" ", "") == "intersect1d(gens_at_bus,ref_gens)"
    ctx.ob(rule, "pandapower.pypower.pfsoln::_split_p_for_gens_at_same_bus::reference-rows", ok,
           f"ext_grids = {norm(ext[0].value, 60) if ext else '?'}", fi.loc())
    if n < 2:
        ctx.fail(f"_split_p_for_gens_at_same_bus: {n} sharing statements found (confirmed: 2)")
    return n


def pfsoln_twins(ctx, rule):
    """pypower/pfsoln.py::pfsoln and pf/pfsoln_numba.py::pfsoln are two implementations behind one slot (selected by the numba
    option): the generator bookkeeping - which generators are `on`, their buses, the bus power, the calls of _update_v/_update_q/
    _update_p - must be identical; only the branch flow computation differs."""
    import ast
    from ppsa.astutil import norm
    a = ctx.repo.func("pandapower.pypower.pfsoln:pfsoln")
    b = ctx.repo.func("pandapower.pf.pfsoln_numba:pfsoln")
    NAMES = ("on", "gbus", "Ibus", "Sbus")
    CALLS = ("_update_v", "_update_q", "_update_p")

    def facts(fi):
        out = []
        for st in sorted((x for x in ast.walk(fi.node) if isinstance(x, (ast.Assign, ast.Expr))), key=lambda x: x.lineno):
            if isinstance(st, ast.Assign) and len(st.targets) == 1 and isinstance(st.targets[0], ast.Name) and st.targets[0].id in NAMES:
                guard = ""
                out.append((st.targets[0].id, norm(st.value, 300).replace(" ", ""), st))
            elif isinstance(st, ast.Expr) and isinstance(st.value, ast.Call) and isinstance(st.value.func, ast.Name) and st.value.func.id in CALLS:
                out.append((st.value.func.id, norm(st.value, 300).replace(" ", ""), st))
        return out
    fa, fb = facts(a), facts(b)
    n = 0
    for i in range(max(len(fa), len(fb))):
        xa = fa[i] if i < len(fa) else ("<missing>", "", None)
        xb = fb[i] if i < len(fb) else ("<missing>", "", None)
        n += 1
        ok = xa[:2] == xb[:2]
        ctx.ob(rule, f"pandapower.pf.pfsoln_numba::pfsoln::step{i}:{xb[0]}", ok,
               f"{xb[0]}: identical in both implementations" if ok else
               f"numba twin: `{xb[0]} = {xb[1][:110]}`, pypower twin: `{xa[0]} = {xa[1][:110]}` - results depend on the numba option",
               b.loc(xb[2]) if xb[2] is not None else b.loc())
    if n < 8:
        ctx.fail(f"pfsoln twins: only {n} bookkeeping steps found (confirmed: 9)")
    # guard of the limited-generator extension
    for fi in (a, b):
        g = [x for x in ast.walk(fi.node) if isinstance(x, ast.If) and "limited_gens" in norm(x.test, 80)]
        ok = bool(g) and norm(g[0].test, 100).replace(" ", "") == "limited_gensisnotNoneandlen(limited_gens)>0"
        ctx.ob(rule, f"{fi.module.name}::pfsoln::limited-guard", ok, f"guard `{norm(g[0].test, 80) if g else '?'}`", fi.loc())
    return n


def dc_cache_refresh(ctx, rule):
    """run_dc_pf._run_dc_pf, recycled branch: `if array_equal(internal['shift'], branch[:, SHIFT]): <read cached K...> else: <recompute>`
    - the recompute branch must store every key the reuse branch reads and the key the test compares, otherwise a later run with an
    unchanged shift reuses stale phase-shift injections."""
    import ast
    from ppsa.astutil import norm
    fi = ctx.repo.func("pandapower.pf.run_dc_pf:_run_dc_pf")

    def keys_read(node):
        out = set()
        for x in ast.walk(node):
            if isinstance(x, ast.Subscript) and isinstance(x.ctx, ast.Load) and isinstance(x.slice, ast.Constant) and isinstance(x.slice.value, str) \
                    and norm(x.value, 40).replace('"', "'").replace(" ", "") == "ppci['internal']":
                out.add(x.slice.value)
        return out

    def keys_stored(stmts):
        out = set()
        for s in stmts:
            for x in ast.walk(s):
                if isinstance(x, ast.Assign):
                    for t in x.targets:
                        if isinstance(t, ast.Subscript) and isinstance(t.slice, ast.Constant) and norm(t.value, 40).replace('"', "'").replace(" ", "") == "ppci['internal']":
                            out.add(t.slice.value)
                if isinstance(x, ast.Call) and isinstance(x.func, ast.Attribute) and x.func.attr == "update" and \
                        norm(x.func.value, 40).replace('"', "'").replace(" ", "") == "ppci['internal']":
                    out |= {k.arg for k in x.keywords if k.arg}
                    for a in x.args:
                        if isinstance(a, ast.Dict):
                            out |= {k.value for k in a.keys if isinstance(k, ast.Constant)}
        return out
    found = 0
    for n in ast.walk(fi.node):
        if isinstance(n, ast.If) and "array_equal" in norm(n.test, 120) and "'shift'" in norm(n.test, 120).replace('"', "'") and n.orelse:
            found += 1
            need = keys_read(n.test) | set().union(*[keys_read(s) for s in n.body])
            have = keys_stored(n.orelse)
            missing = sorted(need - have)
            ctx.ob(rule, "pandapower.pf.run_dc_pf::_run_dc_pf::shift-cache", not missing,
                   f"recompute branch stores {sorted(have)}; reuse branch reads {sorted(need)}" if not missing else
                   f"when the phase shift changed, the cache keys {missing} are not refreshed although the reuse branch reads them: the next "
                   "recycled run with an unchanged shift uses stale phase-shift injections", fi.loc(n))
    if not found:
        ctx.fail("_run_dc_pf: the shift comparison of the recycled branch was not found")
    # the non-recycled branch stores the same keys
    top = next((n for n in fi.node.body if isinstance(n, ast.If) and "recycle" in norm(n.test, 200)), None)
    if top is not None:
        have = keys_stored(top.orelse)
        need = {"Bbus", "Bf", "Pbusinj", "Pfinj", "Cft", "shift", "branch"}
        ctx.ob(rule, "pandapower.pf.run_dc_pf::_run_dc_pf::full-build-cache", need <= have, f"full build stores {sorted(have)}", fi.loc(top))
    return found


def type_loop_complete(ctx, rule, fis, minimum=1):
    """A `for <x> in [<literal list of element types>]:` loop handles every listed type: no return / break inside its body (an early
    exit after handling one type silently skips the later ones).  Returns the number of loops checked."""
    import ast
    from ppsa.astutil import norm, fold, NOFOLD
    n = 0
    for fi in fis:
        for lp in ast.walk(fi.node):
            if not isinstance(lp, ast.For):
                continue
            v = fold(lp.iter)
            if v is NOFOLD or not isinstance(v, (list, tuple)) or len(v) < 2:
                continue
            flat = [x for e in v for x in (e if isinstance(e, (list, tuple)) else [e])]
            if not any(isinstance(x, str) for x in flat):
                continue
            n += 1
            bad = []
            def scan(body, depth):
                for st in body:
                    if isinstance(st, (ast.Return, ast.Break)) :
                        bad.append(st)
                    elif isinstance(st, (ast.For, ast.While)):
                        # break inside a nested loop leaves only that loop; a return leaves the function
                        for x in ast.walk(st):
                            if isinstance(x, ast.Return):
                                bad.append(x)
                    elif isinstance(st, (ast.FunctionDef, ast.Lambda)):
                        continue
                    else:
                        for f in ("body", "orelse", "finalbody", "handlers"):
                            sub = getattr(st, f, None)
                            if isinstance(sub, list):
                                scan([h for h in sub if not isinstance(h, ast.ExceptHandler)] + [y for h in sub if isinstance(h, ast.ExceptHandler) for y in h.body], depth + 1)
            scan(lp.body, 0)
            ctx.ob(rule, f"{fi.module.name}::{fi.qualname}::for-{norm(lp.target, 30)}-in-{norm(lp.iter, 40)}", not bad,
                   f"loop over {norm(lp.iter, 60)} handles every listed type" if not bad else
                   f"`{norm(bad[0], 40)}` inside the loop over {norm(lp.iter, 60)}: the types after the one that reaches it are skipped", fi.loc(bad[0]) if bad else fi.loc(lp))
    if n < minimum:
        ctx.fail(f"{rule}: only {n} loops over literal element-type lists found (minimum {minimum})")
    return n


def stale_loop_variable(ctx, rule, fis):
    """A name that a `for` body reads, that an EARLIER loop of the same function assigned inside its body, and that is neither assigned
    in this body, nor its loop target, nor re-assigned at function level between the two loops, carries the value of the last iteration
    of the earlier loop into every iteration of this one (per-row quantity used stale).  Returns loops checked."""
    import ast
    from ppsa.astutil import norm
    n = 0
    for fi in fis:
        loops = [st for st in fi.node.body if isinstance(st, (ast.For, ast.While))]
        if len(loops) < 2:
            continue
        def assigned(nodes):
            out = set()
            for b in nodes:
                for x in ast.walk(b):
                    if isinstance(x, ast.Name) and isinstance(x.ctx, ast.Store):
                        out.add(x.id)
            return out
        for li, lp in enumerate(loops):
            n += 1
            own = assigned(lp.body) | (assigned([lp.target]) if isinstance(lp, ast.For) else set())
            reads = {x.id for b in lp.body for x in ast.walk(b) if isinstance(x, ast.Name) and isinstance(x.ctx, ast.Load)}
            stale = set()
            for prev in loops[:li]:
                cand = (assigned(prev.body) - (assigned([prev.target]) if isinstance(prev, ast.For) else set())) & reads - own
                if not cand:
                    continue
                # re-assigned at function level between the loops?
                between = [st for st in fi.node.body if prev.end_lineno < st.lineno < lp.lineno and not isinstance(st, (ast.For, ast.While))]
                cand -= assigned(between)
                stale |= cand
            ctx.ob(rule, f"{fi.module.name}::{fi.qualname}::loop@{li}", not stale,
                   "every per-iteration quantity is computed in the loop that uses it" if not stale else
                   f"the loop at line {lp.lineno} reads {sorted(stale)}, last assigned inside an earlier loop: every iteration uses the value of "
                   "that loop's final row", fi.loc(lp))
    return n


def dead_local_stores(ctx, rule, fis, ignore=("_",)):
    """A plain local name that a function assigns and never reads (nor returns, nor closes over) is a computation whose result
    is lost - typically a clamp / filter / copy whose original is used afterwards instead.  One obligation per function."""
    import ast
    n = 0
    for fi in fis:
        stores, loads = {}, set()
        for x in ast.walk(fi.node):
            if isinstance(x, ast.Name):
                if isinstance(x.ctx, ast.Store):
                    stores.setdefault(x.id, x)
                else:
                    loads.add(x.id)
            elif isinstance(x, (ast.Global, ast.Nonlocal)):
                loads |= set(x.names)
        # names bound by for / with / except / comprehension targets and tuple unpacking are conventional throw-aways
        conventional = set()
        for x in ast.walk(fi.node):
            if isinstance(x, (ast.For, ast.comprehension)):
                conventional |= {y.id for y in ast.walk(x.target) if isinstance(y, ast.Name)}
            if isinstance(x, ast.Assign):
                for t in x.targets:
                    if isinstance(t, (ast.Tuple, ast.List)):
                        conventional |= {y.id for y in ast.walk(t) if isinstance(y, ast.Name)}
            if isinstance(x, ast.withitem) and x.optional_vars is not None:
                conventional |= {y.id for y in ast.walk(x.optional_vars) if isinstance(y, ast.Name)}
            if isinstance(x, ast.ExceptHandler) and x.name:
                conventional.add(x.name)
        dead = sorted(k for k in stores if k not in loads and k not in conventional and not k.startswith(ignore))
        n += 1
        ctx.ob(rule, f"{fi.module.name}::{fi.qualname}::dead-stores", not dead,
               "every assigned local is used" if not dead else
               f"local(s) {dead} are assigned and never read: the computed value is lost and the original object is used instead", fi.loc(stores[dead[0]]) if dead else fi.loc())
    return n


def zip_alignment(ctx, rule, fis, minimum=1):
    """Names bound together by one tuple-unpacking (parallel lists: types, members, reference columns) and later iterated with zip()
    must not be re-bound individually in between: filtering one of them shifts the pairing.  Returns zip calls checked."""
    import ast
    from ppsa.astutil import norm
    n = 0
    for fi in fis:
        groups = []
        for st in ast.walk(fi.node):
            if isinstance(st, ast.Assign) and len(st.targets) == 1 and isinstance(st.targets[0], ast.Tuple) and \
                    all(isinstance(e, ast.Name) for e in st.targets[0].elts) and len(st.targets[0].elts) >= 2 and isinstance(st.value, ast.Call):
                groups.append(([e.id for e in st.targets[0].elts], st))
        if not groups:
            continue
        for z in ast.walk(fi.node):
            if not (isinstance(z, ast.Call) and isinstance(z.func, ast.Name) and z.func.id == "zip" and len(z.args) >= 2 and
                    all(isinstance(a, ast.Name) for a in z.args)):
                continue
            names = [a.id for a in z.args]
            for gnames, gst in groups:
                if len(set(names) & set(gnames)) >= 2 and gst.lineno < z.lineno:
                    n += 1
                    rebound = []
                    for st in ast.walk(fi.node):
                        if isinstance(st, (ast.Assign, ast.AugAssign)) and gst.lineno < st.lineno <= z.lineno and st is not gst:
                            tg = st.targets if isinstance(st, ast.Assign) else [st.target]
                            for t in tg:
                                if isinstance(t, ast.Name) and t.id in names and t.id in gnames:
                                    rebound.append((t.id, st))
                    ctx.ob(rule, f"{fi.module.name}::{fi.qualname}::zip({','.join(names)})", not rebound,
                           "parallel lists iterated as they were returned" if not rebound else
                           f"`{norm(rebound[0][1], 90)}` re-binds {rebound[0][0]} alone between the unpacking and zip({', '.join(names)}): the "
                           "remaining entries are paired with the members of other rows", fi.loc(rebound[0][1]) if rebound else fi.loc(z))
    if n < minimum:
        ctx.fail(f"{rule}: only {n} zip() calls over jointly unpacked lists found (minimum {minimum})")
    return n


NON_INPLACE = {"drop", "rename", "fillna", "replace", "set_index", "reset_index", "sort_values", "sort_index", "astype", "dropna",
               "drop_duplicates", "reindex", "append", "assign", "clip", "round", "where", "mask", "merge", "join"}


def discarded_results(ctx, rule, fis, methods=("drop", "dropna", "drop_duplicates", "rename", "set_index", "reset_index", "reindex", "assign", "merge")):
    """An expression statement `<frame>.<method>(...)` of a pandas method that returns a new object (no inplace=True) discards its
    result: the statement is a no-op, the rows / columns it meant to remove or change are still there.  One obligation per function
    that contains such calls to one of `methods` on a net table expression."""
    import ast
    from ppsa.astutil import norm
    n = 0
    for fi in fis:
        bad = []
        seen = 0
        for st in ast.walk(fi.node):
            if isinstance(st, ast.Expr) and isinstance(st.value, ast.Call) and isinstance(st.value.func, ast.Attribute) and st.value.func.attr in methods:
                base = norm(st.value.func.value, 80)
                if not ("net" in base or "[elm]" in base or "_df" in base or "table" in base):
                    continue
                seen += 1
                inplace = any(k.arg == "inplace" and isinstance(k.value, ast.Constant) and k.value.value is True for k in st.value.keywords)
                if not inplace:
                    bad.append(st)
        if seen or bad:
            n += 1
            ctx.ob(rule, f"{fi.module.name}::{fi.qualname}::discarded", not bad,
                   "every table-modifying call is in place or assigned" if not bad else
                   f"`{norm(bad[0], 80)}` returns a new table that is discarded: nothing is removed / changed", fi.loc(bad[0]) if bad else fi.loc())
    return n


def class_level_mutables(ctx, rule, modules):
    """A mutable literal bound at class level ([] / {} / set() / dict() / list()) that methods mutate through self.<attr> (append, extend,
    insert, update, add, item assignment) without __init__ binding a fresh object is shared by all instances."""
    import ast
    n = 0
    MUT = ("append", "extend", "insert", "update", "add", "setdefault", "pop", "remove", "clear")
    for mn in modules:
        mod = ctx.repo.module(mn)
        for cls in [c for c in ast.walk(mod.tree) if isinstance(c, ast.ClassDef)]:
            attrs = {}
            for st in cls.body:
                tg = None
                if isinstance(st, ast.Assign) and len(st.targets) == 1 and isinstance(st.targets[0], ast.Name):
                    tg, v = st.targets[0].id, st.value
                elif isinstance(st, ast.AnnAssign) and isinstance(st.target, ast.Name) and st.value is not None:
                    tg, v = st.target.id, st.value
                if tg and (isinstance(v, (ast.List, ast.Dict, ast.Set)) or (isinstance(v, ast.Call) and isinstance(v.func, ast.Name) and v.func.id in ("list", "dict", "set", "defaultdict"))):
                    attrs[tg] = st
            if not attrs:
                continue
            init_binds = set()
            mutated = {}
            for fn in [f for f in cls.body if isinstance(f, ast.FunctionDef)]:
                if fn.name == "__init__":
                    for x in fn.body:     # unconditional bindings only: a binding under an if leaves the class object on the other path
                        if isinstance(x, (ast.Assign, ast.AnnAssign)):
                            for t in (x.targets if isinstance(x, ast.Assign) else [x.target]):
                                if isinstance(t, ast.Attribute) and isinstance(t.value, ast.Name) and t.value.id == "self":
                                    init_binds.add(t.attr)
                for x in ast.walk(fn):
                    if isinstance(x, ast.Call) and isinstance(x.func, ast.Attribute) and x.func.attr in MUT and isinstance(x.func.value, ast.Attribute) \
                            and isinstance(x.func.value.value, ast.Name) and x.func.value.value.id == "self" and x.func.value.attr in attrs:
                        mutated.setdefault(x.func.value.attr, x)
                    if isinstance(x, (ast.Assign, ast.AugAssign)):
                        for t in (x.targets if isinstance(x, ast.Assign) else [x.target]):
                            if isinstance(t, ast.Subscript) and isinstance(t.value, ast.Attribute) and isinstance(t.value.value, ast.Name) \
                                    and t.value.value.id == "self" and t.value.attr in attrs:
                                mutated.setdefault(t.value.attr, x)
            for a, st in attrs.items():
                n += 1
                bad = a in mutated and a not in init_binds
                ctx.ob(rule, f"{mn}::{cls.name}::{a}", not bad,
                       f"class attribute {a}: " + ("re-bound per instance in __init__" if a in init_binds else "never mutated through self"),
                       f"{mod.relpath}:{st.lineno}") if not bad else \
                    ctx.ob(rule, f"{mn}::{cls.name}::{a}", False,
                           f"{cls.name}.{a} is a mutable class attribute that methods mutate through self.{a} and __init__ does not re-bind: all "
                           "instances share one object, what one instance registers is seen by every other", f"{mod.relpath}:{st.lineno}")
    return n


def ref_gens(ctx, rule):
    """pd2ppc._ppc2ppci: the reference machines are the in-service ext_grids AND the in-service slack generators; the slack generators are
    looked up by index label (the gen lookup is label-indexed)."""
    import ast
    from ppsa.astutil import norm, names_in
    ctx.rule(rule, "_ppc2ppci: slack generators are appended to ref_gens whenever there are any (independent of ext_grids: pfsoln writes the slack "
                   "power only to reference machines), and they are addressed by their index labels in the label-indexed gen lookup")
    fi = ctx.repo.func("pandapower.pd2ppc:_ppc2ppci")
    blk = next((n for n in ast.walk(fi.node) if isinstance(n, ast.If) and "slack" in norm(n.test, 120) and any("ref_gens" in norm(st, 200) for st in n.body)), None)
    if blk is None:
        ctx.fail("_ppc2ppci: slack generator block not found")
    t = norm(blk.test, 160).replace(" ", "")
    ok = "ref_gens" not in names_in(blk.test) and "ext_grid" not in t
    ctx.ob(rule, "pandapower.pd2ppc::_ppc2ppci::slack-gens-always", ok,
           f"slack generators become reference machines when `{t[:90]}`" if ok else
           f"`{t[:110]}` makes the slack generators reference machines only without ext_grids: with an ext_grid elsewhere their slack power is never written back",
           fi.loc(blk))
    sg = next((st for st in blk.body if isinstance(st, ast.Assign) and norm(st.targets[0], 20) == "slack_gens"), None)
    v = norm(sg.value, 200).replace(" ", "") if sg is not None else ""
    ok = sg is not None and "net.gen.index" in v and "flatnonzero" not in v and "arange" not in v
    ctx.ob(rule, "pandapower.pd2ppc::_ppc2ppci::slack-gens-by-label", ok,
           f"slack_gens = {v[:100]}" if ok else f"`slack_gens = {v[:100]}` are row positions, but net._pd2ppc_lookups['gen'] is indexed by label: for a "
           "gen table with other labels the wrong generator (or -1) becomes the reference machine", fi.loc(sg) if sg is not None else fi.loc())
