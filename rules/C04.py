"""C04 - setpoints and response laws: dependence and shape clauses.

Decided:
 * SETPOINT-FLOW  ext_grid / gen setpoint columns flow into the ppc columns that fix them (VG, bus VM, bus VA,
                  PG with scaling, Q limits) and results are read back from the element's own ppc rows
                  (through the element lookup)
 * RESPONSE-LAW   res_load follows p*scaling*(cp + ci*v + cz*v^2) (checked in C01 ZIP-LAW, re-used here for the
                  per-load table) and res_shunt / ward / xward constant-Z parts have degree 2 in the bus voltage,
                  degree 1 in step, and the (vn_bus/vn_shunt)^2 factor
 * QLIM-LOOP      in _run_ac_pf_with_qlims_enforced a generator violating its upper (lower) limit is fixed at
                  QMAX (QMIN); the loop is left only when no violation remains; afterwards Qg of the limited
                  generators is the stored limit and the bus demand is restored
Not decided: that the solver converges to the setpoints.
"""
import ast

from ppsa import facts, shape as sh
from ppsa.absint import AV, E
from ppsa.astutil import norm, names_in
from ppsa.obligations import Case, Sink, run_cases
from ppsa.selftest import Variant, replace_once, in_function

BG = "pandapower.build_gen"
RG = "pandapower.results_gen"
RB = "pandapower.results_bus"
NR = "pandapower.pf.run_newton_raphson_pf"


def cases():
    pf = {"mode": "pf", "calculate_voltage_angles": True, "distributed_slack": False, "enforce_q_lims": True}
    out = [
        Case("gen-builder", f"{BG}:_build_gen_ppc", [
            Sink("store:ppc.gen.VG", {}, None, ["net.ext_grid.vm_pu", "is.ext_grid"], fn="_build_pp_ext_grid"),
            Sink("store:ppc.bus.VM", {}, None, ["net.ext_grid.vm_pu"], fn="_build_pp_ext_grid"),
            Sink("store:ppc.bus.VA", {}, None, ["net.ext_grid.va_degree"], fn="_build_pp_ext_grid"),
            Sink("store:ppc.gen.VG", {}, None, ["net.gen.vm_pu", "is.gen"], fn="_build_pp_gen"),
            Sink("store:ppc.bus.VM", {}, None, ["net.gen.vm_pu"], fn="_build_pp_gen"),
            Sink("store:ppc.gen.PG", {"V": 1, "A": 1}, 6, ["net.gen.p_mw", "net.gen.scaling", "is.gen"], fn="_build_pp_gen", sign=1),
            Sink("store:ppc.gen.QMIN", {"V": 1, "A": 1}, None, ["net.gen.min_q_mvar"], fn="add_q_constraints"),
            Sink("store:ppc.gen.QMAX", {"V": 1, "A": 1}, None, ["net.gen.max_q_mvar"], fn="add_q_constraints"),
        ], options=pf),
        Case("gen-builder-no-angles", f"{BG}:_build_gen_ppc", [
            Sink("store:ppc.gen.VG", {}, None, ["net.ext_grid.vm_pu"], fn="_build_pp_ext_grid"),
        ], options=dict(pf, calculate_voltage_angles=False)),
        Case("gen-results", f"{RG}:_get_gen_results", [
            Sink("store:net.res_gen.p_mw", {"V": 1, "A": 1}, 6, ["ppc.gen.PG", "lookup.gen", "is.gen"]),
            Sink("store:net.res_gen.q_mvar", {"V": 1, "A": 1}, 6, ["ppc.gen.QG", "lookup.gen"]),
            Sink("store:net.res_ext_grid.p_mw", {"V": 1, "A": 1}, 6, ["ppc.gen.PG", "lookup.ext_grid", "is.ext_grid"]),
            Sink("store:net.res_ext_grid.q_mvar", {"V": 1, "A": 1}, 6, ["ppc.gen.QG", "lookup.ext_grid"]),
            Sink("store:net.res_gen.vm_pu", {}, None, ["net.gen.bus", "lookup.bus", "ppc.bus.*"], deps_only=True),
        ], options={"ac": True, "mode": "pf", "distributed_slack": False}),
        Case("shunt-results", f"{RB}:_get_shunt_results", [
            Sink("store:net.res_shunt.p_mw", {"V": 1, "A": 1, "vm": 2}, 6, ["net.shunt.p_mw", "net.shunt.step", "net.shunt.vn_kv", "ppc.bus.BASE_KV", "ppc.bus.VM", "is.shunt"],
                 together=[("net.shunt.p_mw", "net.shunt.step")]),
            Sink("store:net.res_shunt.q_mvar", {"V": 1, "A": 1, "vm": 2}, 6, ["net.shunt.q_mvar", "net.shunt.step", "ppc.bus.VM"],
                 together=[("net.shunt.q_mvar", "net.shunt.step")]),
        ], options={"ac": True, "mode": "pf"}, args={"bus_pq": AV(E, "val", None, sh.ZERO)}),
    ]
    return out


def rule_qlim(ctx):
    R = "QLIM-LOOP"
    ctx.rule(R, "Q-limit enforcement: violators of the upper limit are fixed at QMAX, of the lower limit at QMIN; the loop "
                "ends only through the no-violation branch; afterwards gen[limited, QG] = fixedQg[limited] and the bus demand "
                "backup is restored")
    fi = ctx.repo.func(f"{NR}:_run_ac_pf_with_qlims_enforced")
    fn = fi.node
    defs = {}
    for n in ast.walk(fn):
        if isinstance(n, ast.Assign) and len(n.targets) == 1 and isinstance(n.targets[0], ast.Name):
            defs.setdefault(n.targets[0].id, []).append(n.value)

    def side(name, seen=()):
        """'max' / 'min' if the index set derives from a comparison with QMAX / QMIN"""
        for d in defs.get(name, []):
            t = ast.unparse(d)
            for c in ast.walk(d):
                if isinstance(c, ast.Compare) and "QG" in ast.unparse(c):
                    txt = ast.unparse(c)
                    if "QMAX" in txt and isinstance(c.ops[0], ast.Gt):
                        return "max"
                    if "QMIN" in txt and isinstance(c.ops[0], ast.Lt):
                        return "min"
            for nm in names_in(d):
                if nm != name and nm not in seen and nm in defs and nm not in ("gen", "mx", "mn", "k", "len"):
                    s = side(nm, seen + (name,))
                    if s:
                        return s
        return None

    found = 0
    for n in ast.walk(fn):
        if isinstance(n, ast.Assign) and isinstance(n.targets[0], ast.Subscript) and isinstance(n.targets[0].value, ast.Name) \
                and n.targets[0].value.id == "fixedQg" and isinstance(n.targets[0].slice, ast.Name):
            idx = n.targets[0].slice.id
            s = side(idx)
            val = ast.unparse(n.value)
            want = {"max": "QMAX", "min": "QMIN"}.get(s)
            found += 1
            ok = want is not None and want in val and f"gen[{idx}," in val.replace(" ", "").replace("gen[" + idx + ",", f"gen[{idx},")
            ctx.ob(R, f"{NR}::_run_ac_pf_with_qlims_enforced::fixedQg[{idx}]", ok,
                   f"generators violating the {s} limit are fixed at {norm(n.value, 30)}" + ("" if ok else f" (required gen[{idx}, {want}])"), fi.loc(n))
    if found < 2:
        ctx.fail("_run_ac_pf_with_qlims_enforced: fixedQg assignments not found")
    # loop exit
    loops = [n for n in ast.walk(fn) if isinstance(n, ast.While)]
    ok = False
    if loops:
        w = loops[0]
        brk = [b for b in ast.walk(w) if isinstance(b, ast.Break)]
        ifs = [i for i in w.body if isinstance(i, ast.If) and "len(mx)" in ast.unparse(i.test) and "len(mn)" in ast.unparse(i.test)]
        ok = (isinstance(w.test, ast.Constant) and w.test.value is True and len(brk) == 1 and ifs
              and any(isinstance(x, ast.Break) for x in ifs[0].orelse) and " or " in ast.unparse(ifs[0].test))
    ctx.ob(R, f"{NR}::_run_ac_pf_with_qlims_enforced::exit", ok, "the loop is left only when neither upper nor lower violations remain", fi.loc(loops[0]) if loops else fi.loc())
    txt = ast.unparse(fn)
    after = txt.split("while True:")[-1]
    tail = [n for n in fn.body if isinstance(n, ast.If) and "len(limited)" in ast.unparse(n.test)]
    t = ast.unparse(tail[0]) if tail else ""
    ctx.ob(R, f"{NR}::_run_ac_pf_with_qlims_enforced::restore", "gen[limited, QG] = fixedQg[limited]" in t and "bus[:, [PD, QD]] = bus_backup_p_q" in t
           and "gen[limited, GEN_STATUS] = 1" in t,
           "after the loop Qg of limited gens is the stored limit, they are switched on again and the bus demand is restored", fi.loc(tail[0]) if tail else fi.loc())
    # the demand adjustment of a switched-off generator takes P and Q from the generator matrix row (QG of a generator limited in an
    # earlier round is zero after pfsoln, PD is restored every round, QD is not: any other source double counts)
    adj = []
    if loops:
        for st in ast.walk(loops[0]):
            tgt = st.targets[0] if isinstance(st, ast.Assign) else (st.target if isinstance(st, ast.AugAssign) else None)
            if tgt is not None and isinstance(tgt, ast.Subscript) and norm(tgt.value, 10) == "bus" and any(c in norm(tgt.slice, 40) for c in ("PD", "QD")) \
                    and norm(tgt.slice, 40).replace(" ", "").startswith(("bi,", "(bi,")):
                adj.append(st)
    okadj = bool(adj)
    srcs = []
    for st in adj:
        val = st.value
        cols = norm((st.targets[0] if isinstance(st, ast.Assign) else st.target).slice, 40).replace(" ", "")
        sub = [x for x in ast.walk(val) if isinstance(x, ast.Subscript) and norm(x.value, 10) == "gen"]
        srcs.append(f"{cols} <- {[norm(x, 40) for x in sub] or norm(val, 60)}")
        want = cols.replace("bi,", "limited[i],").replace("PD", "PG").replace("QD", "QG")
        if not any(norm(x.slice, 40).replace(" ", "") == want for x in sub) or "fixedQg" in norm(val, 200):
            okadj = False
    ctx.ob(R, f"{NR}::_run_ac_pf_with_qlims_enforced::adjust", okadj,
           f"bus demand of a limited generator's bus is reduced by the generator row's own PG / QG: {srcs}", fi.loc(adj[0]) if adj else fi.loc())
    # the generator is pinned inside the loop: gen[mx, QG] = fixedQg[mx] and its bus becomes PQ
    ctx.ob(R, f"{NR}::_run_ac_pf_with_qlims_enforced::pin", "gen[mx, QG] = fixedQg[mx]" in txt and "BUS_TYPE] = PQ" in txt,
           "a limited generator is pinned at its limit and its bus becomes a PQ bus", fi.loc())


def run(ctx):
    ctx.assume("decides that setpoints reach the solver's fixing columns and results are read from the element's own rows, "
               "the voltage degree of the response laws and the structure of the Q-limit loop; not convergence")
    R = "SETPOINT-FLOW"
    ctx.rule(R, "setpoint columns flow into the ppc columns that fix them; results are read back through the element lookup; "
                "shunt response has degree 2 in the bus voltage")
    run_cases(ctx, R, cases(), aspects=("units", "vm", "dec", "needs", "sign"))
    ctx.require_min(R, 16)
    rule_qlim(ctx)
    from rules.C01 import rule_zip_sibling
    rule_zip_sibling(ctx)
    from rules.C01 import rule_zip
    rule_zip(ctx)      # ZIP-LAW: bus demand and per-load results follow p*scaling*(cp + ci v + cz v^2) (shared with C01)
    RC = "SETPOINT-CONFLICT"
    ctx.rule(RC, "_check_voltage_setpoints_at_same_bus compares the voltage set-points of ALL generator rows of a bus (reference buses "
                 "included): two voltage-controlling elements with different vm_pu at one bus are rejected, otherwise one of the two set-points "
                 "is silently not held")
    fcs = ctx.repo.func("pandapower.build_gen:_check_voltage_setpoints_at_same_bus")
    from ppsa.astutil import inline_locals
    for nm, want in (("gen_bus", "ppc['gen'][:,GEN_BUS].astype(np.int64)"), ("gen_vm", "ppc['gen'][:,VG]")):
        st = next((x for x in ast.walk(fcs.node) if isinstance(x, ast.Assign) and norm(x.targets[0], 12) == nm), None)
        v = norm(inline_locals(fcs.node, st.value), 200).replace(" ", "").replace('"', "'") if st is not None else ""
        ctx.ob(RC, f"pandapower.build_gen::_check_voltage_setpoints_at_same_bus::{nm}", v == want, f"{nm} = {v[:100]}" if v == want else
               f"`{nm} = {v[:110]}` does not cover every generator row: conflicting set-points at the excluded buses are accepted", fcs.loc(st) if st is not None else fcs.loc())
    RB = "BYPASS-VOLTAGE"
    ctx.rule(RB, "when every bus is a reference bus the power flow is bypassed: _bypass_pf_and_set_results hands the complex set-point "
                 "vector (V0 = vm * exp(j va), with the generator magnitudes) to pfsoln - the magnitudes alone lose the ext_grid angles")
    fb = ctx.repo.func("pandapower.powerflow:_bypass_pf_and_set_results")
    vs = [st for st in ast.walk(fb.node) if isinstance(st, ast.Assign) and norm(st.targets[0], 10) == "V"]
    call = next((c for c in ast.walk(fb.node) if isinstance(c, ast.Call) and norm(c.func, 40).endswith("pfsoln_pypower")), None)
    varg = norm(call.args[11], 20) if call is not None and len(call.args) > 11 else None
    src = norm(vs[-1].value, 120) if vs else (varg or "")
    ok = call is not None and (varg == "V0" or (varg == "V" and ("V0" in src or ("VA" in src and "VM" in src))))
    ctx.ob(RB, "pandapower.powerflow::_bypass_pf_and_set_results::complex-set-point", ok,
           f"pfsoln receives V = {src}" if ok else f"pfsoln receives V = {src}: voltage angles of the reference buses are dropped", fb.loc())
    from rules import _lints
    R6 = "SPLIT-TOTAL"
    ctx.rule(R6, "an ordinary generator at a reference bus keeps its set-point: only the reference rows are assigned the slack share, which "
                 "is the bus power minus the set-points of the other generators at that bus")
    _lints.split_total(ctx, R6)


def variants(repo):
    bg = "pandapower/build_gen.py"
    rg = "pandapower/results_gen.py"
    rb = "pandapower/results_bus.py"
    nr = "pandapower/pf/run_newton_raphson_pf.py"
    V = Variant
    return [
        V("gen p ignores scaling", bg, in_function("_build_pp_gen", lambda s: s.replace(' * gen_is_df["scaling"].values', "", 1) if ' * gen_is_df["scaling"].values' in s else s.replace("scaling", "in_service", 1)), "gen-builder:store:ppc.gen.PG"),
        V("ext_grid angle not applied", bg, in_function("_build_pp_ext_grid", lambda s: s.replace('net["ext_grid"]["va_degree"].values[eg_is]', "0.", 1) if 'net["ext_grid"]["va_degree"].values[eg_is]' in s else s.replace("va_degree", "vm_pu", 1)), "store:ppc.bus.VA"),
        V("upper violators fixed at lower limit", nr, replace_once("fixedQg[mx] = gen[mx, QMAX]", "fixedQg[mx] = gen[mx, QMIN]"), "fixedQg[mx]"),
        V("demand adjusted by the stored limit", nr, replace_once("bus[bi, [PD, QD]] = (bus[bi, [PD, QD]] - gen[limited[i], [PG, QG]])", "bus[bi, PD] -= gen[limited[i], PG]\n                bus[bi, QD] -= fixedQg[limited[i]]"), "adjust"),
        V("twin: adjustment column by column", nr, replace_once("bus[bi, [PD, QD]] = (bus[bi, [PD, QD]] - gen[limited[i], [PG, QG]])", "bus[bi, PD] -= gen[limited[i], PG]\n                bus[bi, QD] -= gen[limited[i], QG]"), None),
        V("loop exits with lower violations", nr, replace_once("if len(mx) > 0 or len(mn) > 0:", "if len(mx) > 0:"), "QLIM-LOOP"),
        V("zip result without scaling", rb, in_function("write_voltage_dependend_load_results", replace_once('pl = l["p_mw"].values * scaling * load_is * volt_depend_p', 'pl = l["p_mw"].values * load_is * volt_depend_p')), "ZIP-LAW"),
        V("set-point conflicts checked at pv buses only", bg, replace_once("    gen_vm = ppc['gen'][:, VG]\n", "    gen_vm = ppc['gen'][ppc['bus'][gen_bus, BUS_TYPE] == PV, VG]\n"), "SETPOINT-CONFLICT"),
        V("bypass with magnitudes only", "pandapower/powerflow.py", in_function("_bypass_pf_and_set_results", replace_once("    V = V0\n", '    V = ppci["bus"][:, VM]\n')), "BYPASS-VOLTAGE"),
        V("ordinary gen at the slack bus shares the slack power", "pandapower/pypower/pfsoln.py", replace_once("gen[ext_grids, PG] = p_ext_grids / len(ext_grids)", "gen[gens_at_bus, PG] = p_bus / len(gens_at_bus)"), "SPLIT-TOTAL"),
        V("zip coefficient not averaged", "pandapower/build_bus.py", in_function("_calc_pq_elements_and_add_on_ppc", replace_once("CZD_Q] = cz_q_sum / no_loads", "CZD_Q] = cz_q_sum")), "ZIP-SIBLING"),
        V("step lost for plain shunts next to table shunts", rb, in_function("_get_shunt_results", lambda s: s.replace("merged_df['p_mw'].values).astype(np.float64)\n", "merged_df['p_mw'].values).astype(np.float64)\n            step = 1\n", 1).replace("merged_df['p_mw_char'].values/merged_df['step'].values", "merged_df['p_mw_char'].values", 1)), "res_shunt.p_mw"),
        V("shunt linear in voltage", rb, in_function("_get_shunt_results", replace_once("p_shunt = u_shunt ** 2 * p_shunt_step * shunt_is * v_ratio * step", "p_shunt = u_shunt * p_shunt_step * shunt_is * v_ratio * step")), "res_shunt.p_mw"),
    ]
