"""C20 - save/load loses nothing: writer/reader table agreement.

Decided:
 * META-KEYS     every metadata key an encoder in io_utils puts next to '_object' is popped / read by the
                 decoder registered for that class, or is a keyword of pandas.read_json into which the
                 remaining dict is splatted (signature read from the installed pandas source as text)
 * SIG-DECODE    every literal (module, class) signature an encoder emits has a decoder: a registered
                 (class, module), (class, ''), ('', module) entry, or an importable module/class pair for
                 the generic 'rest' path
 * ENCRYPT-PAIR  to_json(encryption_key=...) encrypts under the same guard under which from_json /
                 from_json_string decrypt
 * DODFS-CODING  Excel/SQLite path: the (table, column) pairs to_dict_of_dfs JSON-encodes are decoded by
                 from_dict_of_dfs; the special sheet keys written are the ones read
Not decided: value equality after a round trip.
"""
import ast
import os
import re

from ppsa import facts, stubs
from ppsa.astutil import fold, NOFOLD, kwarg, dotted, norm, names_in
from ppsa.selftest import Variant, replace_once, in_function

IO = "pandapower.io_utils"
FIO = "pandapower.file_io"

ENC2DEC = {"json_dataframe": ("DataFrame", "pandas.core.frame"), "json_series": ("Series", "pandas.core.series"),
           "json_geodataframe": ("GeoDataFrame", "geopandas.geodataframe")}
BUILTIN_NAMES = {"tuple", "set", "frozenset", "complex", "list", "dict", "int", "float", "bool", "str"}


def read_json_params():
    p = os.path.join(stubs.site_packages(), "pandas", "io", "json", "_json.py")
    tree = ast.parse(open(p, encoding="utf-8").read())
    params = set()
    for n in ast.walk(tree):
        if isinstance(n, ast.FunctionDef) and n.name == "read_json":
            a = n.args
            params |= {x.arg for x in a.posonlyargs + a.args + a.kwonlyargs}
    return params


def encoder_keys(fn):
    keys = set()
    for n in ast.walk(fn):
        if isinstance(n, ast.Assign) and isinstance(n.targets[0], ast.Subscript) and isinstance(n.targets[0].value, ast.Name) \
                and n.targets[0].value.id == "d" and isinstance(n.targets[0].slice, ast.Constant):
            keys.add(n.targets[0].slice.value)
        if isinstance(n, ast.Call) and dotted(n.func) == "d.update" and n.args and isinstance(n.args[0], ast.Dict):
            keys |= {k.value for k in n.args[0].keys if isinstance(k, ast.Constant)}
    return keys


def decoder_keys(fn):
    consumed = set()
    splat = False
    for n in ast.walk(fn):
        if isinstance(n, ast.Call) and dotted(n.func) in ("self.d.pop", "self.d.get") and n.args and isinstance(n.args[0], ast.Constant):
            consumed.add(n.args[0].value)
        if isinstance(n, ast.Subscript) and dotted(n.value) == "self.d" and isinstance(n.slice, ast.Constant):
            consumed.add(n.slice.value)
        if isinstance(n, ast.Call):
            for kw in n.keywords:
                if kw.arg is None and dotted(kw.value) == "self.d" and (dotted(n.func) or "").endswith("read_json"):
                    splat = True
    return consumed, splat


def registry(ctx):
    ci = ctx.repo.cls(f"{IO}:FromSerializableRegistry")
    reg = {}
    for n in ast.walk(ci.node):
        if isinstance(n, ast.FunctionDef):
            for dec in n.decorator_list:
                if isinstance(dec, ast.Call) and (dotted(dec.func) or "").endswith("from_serializable.register"):
                    cn = kwarg(dec, "class_name")
                    mn = kwarg(dec, "module_name")
                    reg[(cn.value if cn is not None else "", mn.value if mn is not None else "")] = n
    if len(reg) < 8:
        ctx.fail("decoder registry not recognised")
    return reg


def rule_std_precedence(ctx):
    """from_json(add_basic_std_types=True) adds the *missing* library types: where the saved net has a type of the same name the
    saved data must win, i.e. in  dict(A, **B)  / {**A, **B} / A.update(B)  the overriding operand B is the loaded net's own table"""
    R = "STD-PRECEDENCE"
    ctx.rule(R, "when the basic standard types are merged into a loaded net, the loaded net's own entries override the library's "
                "(the later / keyword-splatted operand of the merge is net.std_types[...])")
    fi = ctx.repo.func("pandapower.file_io:from_json_string")
    n = 0
    for node in ast.walk(fi.node):
        if isinstance(node, ast.Assign) and "std_types" in ast.unparse(node.targets[0]) and isinstance(node.value, ast.Call) \
                and isinstance(node.value.func, ast.Name) and node.value.func.id == "dict" and node.value.args \
                and any(k.arg is None for k in node.value.keywords):
            n += 1
            over = [k.value for k in node.value.keywords if k.arg is None][-1]
            base = node.value.args[0]
            ok = "net.std_types" in ast.unparse(over) and "net.std_types" not in ast.unparse(base)
            ctx.ob(R, "pandapower.file_io::from_json_string::merge", ok,
                   "saved standard types override the library defaults" if ok else
                   f"`{ast.unparse(node.value)}`: the library data overrides a saved type of the same name - a user-modified type is lost on load",
                   fi.loc(node))
        if isinstance(node, ast.Assign) and "std_types" in ast.unparse(node.targets[0]) and isinstance(node.value, ast.Dict) \
                and len(node.value.keys) >= 2 and all(k is None for k in node.value.keys):
            n += 1
            ok = "net.std_types" in ast.unparse(node.value.values[-1])
            ctx.ob(R, "pandapower.file_io::from_json_string::merge", ok,
                   "saved standard types override the library defaults" if ok else
                   f"`{ast.unparse(node.value)}`: the library data overrides a saved type of the same name", fi.loc(node))
    if n < 1:
        ctx.fail("from_json_string: merge of the basic standard types not found")


def rule_row_select(ctx):
    """the generic DataFrame decoder is applied to every table of the file, net.group included, whose index repeats (one row per
    element type of a group): a row selector made of index labels addresses all rows sharing a label"""
    R = "ROW-SELECT"
    ctx.rule(R, "in FromSerializableRegistry.DataFrame (decoder of every table, including net.group with its repeated index) "
                "rows are selected by boolean mask or position, never by the labels X.index[...] of the masked rows")
    fi = None
    for f in ctx.repo.module(IO).functions.values():
        if f.qualname.endswith("FromSerializableRegistry.DataFrame"):
            fi = f
    if fi is None:
        ctx.fail("FromSerializableRegistry.DataFrame vanished")
    n = 0
    defs = {}
    for node in ast.walk(fi.node):
        if isinstance(node, ast.Assign) and len(node.targets) == 1 and isinstance(node.targets[0], ast.Name):
            defs.setdefault(node.targets[0].id, []).append(node.value)
    for node in ast.walk(fi.node):
        if isinstance(node, ast.Subscript) and isinstance(node.value, ast.Attribute) and node.value.attr == "loc":
            sel = node.slice.elts[0] if isinstance(node.slice, ast.Tuple) and node.slice.elts else node.slice
            exprs = [sel] + [v for nm in {x.id for x in ast.walk(sel) if isinstance(x, ast.Name)} for v in defs.get(nm, [])]
            by_label = any(isinstance(x, ast.Subscript) and isinstance(x.value, ast.Attribute) and x.value.attr == "index"
                           for e in exprs for x in ast.walk(e))
            n += 1
            ctx.ob(R, f"{IO}::FromSerializableRegistry.DataFrame::loc:{norm(sel, 50)}", not by_label,
                   "row selector is a mask" if not by_label else
                   f"`{norm(node, 70)}` selects rows by the index labels of the masked rows: in a table with a repeated index "
                   "(net.group) every row sharing a label is hit", fi.loc(node))
    if n < 1:
        ctx.fail("FromSerializableRegistry.DataFrame: the None-restoring .loc store was not found")


def rule_value_fidelity(ctx):
    """special values and dtypes are written in the form the reader understands"""
    R = "VALUE-FIDELITY"
    ctx.rule(R, "PPJSONEncoder.floatstr writes NaN / +inf / -inf as the JSON extensions 'NaN' / 'Infinity' / '-Infinity' (json.loads reads them "
                "back as floats; 'null' would come back as None); to_dict_with_coord_transform (pickle) records the dtype objects of the "
                "columns, not their names (a categorical dtype is its categories and order); to_dict_of_dfs does not override the caller's "
                "include_* switches")
    m = ctx.repo.module(IO)
    enc = next((f for f in m.functions.values() if f.qualname.endswith("PPJSONEncoder.iterencode")), None)
    if enc is None:
        ctx.fail("PPJSONEncoder.iterencode vanished")
    fs = next((n for n in ast.walk(enc.node) if isinstance(n, ast.FunctionDef) and n.name == "floatstr"), None)
    if fs is None:
        ctx.fail("PPJSONEncoder.iterencode: floatstr vanished")
    got = {}
    for n in ast.walk(fs):
        if isinstance(n, ast.If):
            t = ast.unparse(n.test).replace(" ", "")
            val = next((st.value.value for st in n.body if isinstance(st, ast.Assign) and ast.unparse(st.targets[0]) == "text" and isinstance(st.value, ast.Constant)), None)
            if val is not None:
                got[t] = val
    want = {"pd.isna(o)": "NaN", "o==_inf": "Infinity", "o==_neginf": "-Infinity"}
    for t, v in want.items():
        ctx.ob(R, f"{IO}::PPJSONEncoder.iterencode::floatstr:{t}", got.get(t) == v, f"{t} -> {got.get(t)!r} (reader expects {v!r})", enc.loc(fs))
    fp = ctx.repo.func(f"{IO}:to_dict_with_coord_transform")
    dt = [n for n in ast.walk(fp.node) if isinstance(n, ast.Dict) and any(isinstance(k, ast.Constant) and k.value == "dtypes" for k in n.keys)]
    if not dt:
        ctx.fail("to_dict_with_coord_transform: 'dtypes' entry not found")
    v = ast.unparse(dt[0].values[[k.value if isinstance(k, ast.Constant) else None for k in dt[0].keys].index("dtypes")]).replace(" ", "")
    ctx.ob(R, f"{IO}::to_dict_with_coord_transform::dtypes", "astype(" not in v and "str(" not in v and "item.dtypes" in v,
           f"'dtypes': {v}", fp.loc(dt[0]))
    fd = ctx.repo.func(f"{IO}:to_dict_of_dfs")
    params = {a.arg for a in fd.node.args.args if a.arg.startswith("include_")}
    rebound = sorted({t.id for st in ast.walk(fd.node) if isinstance(st, (ast.Assign, ast.AugAssign))
                      for t in (st.targets if isinstance(st, ast.Assign) else [st.target]) if isinstance(t, ast.Name) and t.id in params})
    ctx.ob(R, f"{IO}::to_dict_of_dfs::switches", not rebound and len(params) >= 2,
           f"include_* parameters {sorted(params)} are not rebound" if not rebound else
           f"{rebound} is overridden inside to_dict_of_dfs: tables the caller asked for are silently left out of the file", fd.loc())
    rule_precision_and_suffix(ctx)


def rule_scalar_forms(ctx):
    """the form in which an encoder writes a scalar is the form its decoder parses"""
    R = "VALUE-FIDELITY"
    m = ctx.repo.module(IO)
    reg = registry(ctx)
    n = 0
    for f in m.functions.values():
        regs = [d for d in f.node.decorator_list if isinstance(d, ast.Call) and (dotted(d.func) or "").endswith("to_serializable.register")]
        if not regs:
            continue
        for c in ast.walk(f.node):
            if not (isinstance(c, ast.Call) and dotted(c.func) == "with_signature" and len(c.args) >= 2):
                continue
            val = c.args[1]
            lits = None
            if isinstance(val, ast.IfExp) and all(isinstance(x, ast.Constant) and isinstance(x.value, str) for x in (val.body, val.orelse)):
                lits = [val.body.value, val.orelse.value]
            if lits is None:
                continue
            # which decoder gets it: the class name of the registered type (numpy.bool_ is named 'bool' in numpy 2), module as given
            mod = kwarg(c, "obj_module")
            mod = mod.value if isinstance(mod, ast.Constant) else ""
            cands = [(k, fn) for k, fn in reg.items() if k[1] == mod and k[0] and any(k[0].rstrip("_") == (ast.unparse(r.args[0]).split(".")[-1]).rstrip("_") for r in regs)]
            for key, dec in cands:
                n += 1
                rets = [r.value for r in ast.walk(dec) if isinstance(r, ast.Return) and r.value is not None]
                blunt = [r for r in rets if isinstance(r, ast.Call) and dotted(r.func) == "bool" and r.args and ast.unparse(r.args[0]) == "self.obj"]
                parses = any(isinstance(x, ast.Compare) and any(isinstance(y, ast.Constant) and isinstance(y.value, str) and y.value.lower() in
                                                               [l.lower() for l in lits] for y in ast.walk(x)) for x in ast.walk(dec)) \
                    or any(isinstance(x, ast.Call) and (dotted(x.func) or "").endswith("loads") for x in ast.walk(dec))
                ok = parses or not blunt
                ctx.ob(R, f"{IO}::{f.qualname}->{dec.name}::literal-form", ok,
                       f"{f.qualname} writes {lits} and {dec.name} parses these strings" if ok else
                       f"{f.qualname} writes the strings {lits}, {dec.name} returns `{ast.unparse(blunt[0])}`: bool() of a non-empty string is "
                       "True, so a numpy False (and every element of a boolean array) is loaded as True",
                       f"{m.relpath}:{dec.lineno}")
    if n < 1:
        ctx.fail("VALUE-FIDELITY: no encoder / decoder pair with string literals found (confirmed: json_npbool -> bool_handling)")


def rule_sniffed_json(ctx):
    """a user string is parsed as JSON only if the parse can fail harmlessly"""
    R = "VALUE-FIDELITY"
    m = ctx.repo.module(IO)
    n = 0
    for f in m.functions.values():
        tries = [t for t in ast.walk(f.node) if isinstance(t, ast.Try)]
        for br in ast.walk(f.node):
            if not isinstance(br, ast.If):
                continue
            sniff = [c for c in ast.walk(br.test) if isinstance(c, ast.Compare) and len(c.ops) == 1 and isinstance(c.ops[0], ast.In)
                     and isinstance(c.left, ast.Constant) and isinstance(c.left.value, str) and isinstance(c.comparators[0], ast.Name)]
            if not sniff:
                continue
            var = sniff[0].comparators[0].id
            loads = [c for st in br.body for c in ast.walk(st) if isinstance(c, ast.Call) and (dotted(c.func) or "").endswith("json.loads")
                     and c.args and ast.unparse(c.args[0]) == var]
            for c in loads:
                n += 1
                guarded = any(any(c in list(ast.walk(st)) for st in t.body) and t.handlers for t in tries)
                ctx.ob(R, f"{IO}::{f.qualname}::sniffed-json:{sniff[0].left.value}", guarded,
                       f"json.loads({var}) after the substring test is allowed to fail" if guarded else
                       f"`{norm(br.test, 70)}` decides by a substring that the user's string {var} is JSON and `{norm(c, 40)}` is not "
                       f"guarded: an ordinary string containing '{sniff[0].left.value}' (a net name, a description) makes to_json raise "
                       "JSONDecodeError", f.loc(c))
    if n < 1:
        ctx.fail("VALUE-FIDELITY: substring-sniffed json.loads not found (confirmed: json_pandapowernet)")


def rule_index_cast_siblings(ctx):
    """every reader converts table labels to int64 'if possible': the attempts are siblings and must tolerate the same failures"""
    R = "VALUE-FIDELITY"
    m = ctx.repo.module(IO)
    n = 0
    for f in m.functions.values():
        for t in ast.walk(f.node):
            if not (isinstance(t, ast.Try) and len(t.body) == 1 and t.handlers):
                continue
            st = t.body[0]
            txt = ast.unparse(st)
            cast = None
            for c in ast.walk(st):
                if isinstance(c, ast.Call) and "int64" in ast.unparse(c):
                    if isinstance(c.func, ast.Attribute) and c.func.attr == "astype" and ast.unparse(c.func.value).endswith((".index", ".columns", ".values")):
                        cast = c
                    if ast.unparse(c.func) == "pd.Index" and any(k.arg == "dtype" for k in c.keywords):
                        cast = c
            if cast is None:
                continue
            n += 1
            caught = set()
            for h in t.handlers:
                if h.type is None:
                    caught.add("Exception")
                else:
                    caught |= {ast.unparse(x).split(".")[-1] for x in (h.type.elts if isinstance(h.type, ast.Tuple) else [h.type])}
            ok = bool(caught & {"ValueError", "Exception", "BaseException"})
            ctx.ob(R, f"{IO}::{f.qualname}::label-cast@{norm(cast, 40)}", ok,
                   f"`{norm(cast, 50)}` may fail with {sorted(caught)}" if ok else
                   f"`{norm(cast, 60)}` is tried with `except {', '.join(sorted(caught))}` only: string labels raise ValueError (invalid literal "
                   "for int()), which the other readers catch at the same conversion - a table with string labels cannot be loaded", f.loc(t))
    if n < 4:
        ctx.fail(f"VALUE-FIDELITY: only {n} guarded label conversions found in io_utils (confirmed: 4)")


def rule_precision_and_suffix(ctx):
    rule_scalar_forms(ctx)
    rule_sniffed_json(ctx)
    rule_index_cast_siblings(ctx)
    R = "VALUE-FIDELITY"
    m = ctx.repo.module(IO)
    n = 0
    for f in m.functions.values():
        for c in ast.walk(f.node):
            if isinstance(c, ast.Call) and isinstance(c.func, ast.Attribute) and c.func.attr == "to_json" and \
                    any(k.arg in ("orient", "default_handler") for k in c.keywords):
                n += 1
                dp = next((k.value for k in c.keywords if k.arg == "double_precision"), None)
                ok = isinstance(dp, ast.Constant) and dp.value == 15
                ctx.ob(R, f"{IO}::{f.qualname}::double_precision", ok,
                       "pandas writer called with double_precision=15" if ok else
                       f"`{norm(c, 90)}` leaves the pandas default of 10 decimals: floats in this object come back with errors up to 1e-10 "
                       "while tables keep 15 digits", f.loc(c))
    if n < 2:
        ctx.fail(f"VALUE-FIDELITY: only {n} pandas to_json calls found (confirmed: DataFrame and Series encoders)")
    # suffix handling of the table names in the Excel / SQLite reader
    fr = ctx.repo.func(f"{IO}:from_dict_of_dfs")
    k = 0
    for br in ast.walk(fr.node):
        if not isinstance(br, ast.If):
            continue
        mt = re.fullmatch(r"item\.endswith\((['\"])(\w+)\1\)", ast.unparse(br.test))
        if not mt:
            continue
        suffix = mt.group(2)
        for x in [y for st in br.body for y in ast.walk(st)]:
            bad = None
            if isinstance(x, ast.Subscript) and ast.unparse(x.value) == "item" and isinstance(x.slice, ast.Slice) and x.slice.lower is None:
                k += 1
                up = x.slice.upper
                val = -up.operand.value if isinstance(up, ast.UnaryOp) and isinstance(up.op, ast.USub) and isinstance(up.operand, ast.Constant) else None
                if val != -len(suffix):
                    bad = f"`{ast.unparse(x)}` cuts {ast.unparse(up) if up is not None else '?'} characters, the suffix '{suffix}' has {len(suffix)}"
            elif isinstance(x, ast.Call) and isinstance(x.func, ast.Attribute) and ast.unparse(x.func.value) == "item" and \
                    x.func.attr in ("rstrip", "strip", "lstrip", "removesuffix", "replace", "split", "rsplit", "rpartition"):
                k += 1
                if x.func.attr in ("rstrip", "strip", "lstrip"):
                    bad = f"`{ast.unparse(x)}` strips a SET of characters, not the suffix: a key such as 'load.q_mvar' loses its trailing letters too"
            else:
                continue
            ctx.ob(R, f"{IO}::from_dict_of_dfs::suffix:{suffix}", bad is None,
                   f"the key is the sheet name without the suffix '{suffix}'" if bad is None else bad +
                   ": the dictionary key read back differs from the one that was written", fr.loc(x))
    if k < 1:
        ctx.fail("from_dict_of_dfs: derivation of the profile key from the sheet name not found")


def run(ctx):
    rule_std_precedence(ctx)
    rule_value_fidelity(ctx)
    rule_row_select(ctx)
    ctx.assume("decides agreement of the writer and reader tables (metadata keys, signatures, coding sets), not value equality")
    m = ctx.repo.module(IO)
    reg = registry(ctx)
    rj = read_json_params()
    if "orient" not in rj or "dtype" not in rj:
        ctx.fail("pandas.read_json signature not readable from the installed source")
    R = "META-KEYS"
    ctx.rule(R, "every key an encoder stores next to '_object' is consumed by the registered decoder (self.d.pop/get/[]) or is a "
                "keyword argument of pandas.read_json into which the decoder splats the remaining dict")
    for enc, (cn, mn) in ENC2DEC.items():
        fe = None
        for fi in m.functions.values():
            if fi.name == enc:
                fe = fi
        if fe is None:
            ctx.fail(f"encoder {enc} vanished")
        dec = reg.get((cn, mn))
        if dec is None:
            ctx.ob(R, f"{IO}::{enc}::decoder", False, f"no decoder registered for ({cn}, {mn})", fe.loc())
            continue
        keys = encoder_keys(fe.node)
        consumed, splat = decoder_keys(dec)
        for k in sorted(keys):
            ok = k in consumed or (splat and k in rj)
            ctx.ob(R, f"{IO}::{enc}::{k}", ok,
                   f"metadata key '{k}' " + ("is popped/read by the decoder" if k in consumed else
                                             ("is a read_json keyword" if ok else "is neither consumed by the decoder nor a read_json keyword "
                                              "(TypeError on load or silently dropped)")), fe.loc())
    ctx.require_min(R, 14)

    R2 = "SIG-DECODE"
    ctx.rule(R2, "every with_signature(..., obj_module=M, obj_class=C) emitted by an encoder has a registered decoder or names an "
                 "importable attribute for the generic decoder")
    n2 = 0
    for fi in m.functions.values():
        for c in ast.walk(fi.node):
            if isinstance(c, ast.Call) and dotted(c.func) == "with_signature":
                om, oc = kwarg(c, "obj_module"), kwarg(c, "obj_class")
                if not (isinstance(om, ast.Constant) and isinstance(om.value, str)):
                    continue
                mod = om.value
                cls = oc.value if isinstance(oc, ast.Constant) else ""
                n2 += 1
                ok = (cls, mod) in reg or (cls, "") in reg or ("", mod) in reg
                how = "registered decoder"
                if not ok and cls:
                    if mod == "builtins":
                        ok = cls in BUILTIN_NAMES
                        how = "builtin type for the generic decoder"
                    elif mod.split(".")[0] in ("numpy", "scipy"):
                        v, _ = stubs.resolve_chain(mod, [cls])
                        ok = v == "ok"
                        how = f"{mod}.{cls} exists (generic decoder)"
                elif not ok and not cls:
                    ok = True  # class taken from the object at run time: generic decoder imports module + class
                    how = "class name taken from the object; generic decoder"
                ctx.ob(R2, f"{IO}::{fi.qualname}::{mod}.{cls or '<type(obj)>'}", ok,
                       f"signature ({mod}, {cls or 'type(obj)'}): {how}" if ok else f"signature ({mod}, {cls}) has no decoder and is not importable", fi.loc(c))
    if n2 < 10:
        ctx.fail(f"SIG-DECODE: only {n2} with_signature calls with literal module found")

    R3 = "ENCRYPT-PAIR"
    ctx.rule(R3, "encrypt_string is called in to_json under `encryption_key is not None`; decrypt_string under the same guard in from_json_string, "
                 "and from_json forwards encryption_key")
    fm = ctx.repo.module(FIO)
    def guarded(fn, callee):
        for n in ast.walk(fn):
            if isinstance(n, ast.If) and "encryption_key is not None" in ast.unparse(n.test):
                if any(isinstance(c, ast.Call) and dotted(c.func) == callee for st in n.body for c in ast.walk(st)):
                    return n
        return None
    tj = [f for f in fm.functions.values() if f.name == "to_json"][-1]
    fjs = ctx.repo.func(f"{FIO}:from_json_string")
    fj = ctx.repo.func(f"{FIO}:from_json")
    ctx.ob(R3, f"{FIO}::to_json::encrypt", guarded(tj.node, "encrypt_string") is not None, "to_json encrypts when a key is given", tj.loc())
    ctx.ob(R3, f"{FIO}::from_json_string::decrypt", guarded(fjs.node, "decrypt_string") is not None, "from_json_string decrypts when a key is given", fjs.loc())
    fwd = any(isinstance(c, ast.Call) and any(k.arg == "encryption_key" and dotted(k.value) == "encryption_key" for k in c.keywords)
              for c in ast.walk(fj.node))
    ctx.ob(R3, f"{FIO}::from_json::forward", fwd, "from_json forwards encryption_key to from_json_string", fj.loc())

    R4 = "DODFS-CODING"
    ctx.rule(R4, "Excel/SQLite: every column that to_dict_of_dfs JSON-encodes (object, recycle, object-dtype columns of "
                 "q_capability_characteristic, geo of every table that has it) is decoded by from_dict_of_dfs; special keys written == read")
    ft = ctx.repo.func(f"{IO}:to_dict_of_dfs")
    ff = ctx.repo.func(f"{IO}:from_dict_of_dfs")
    schema = facts.schema_of(ctx.repo)
    # decode side
    dec_cols = set()
    geo_tables = None
    for n in ast.walk(ff.node):
        if isinstance(n, ast.For) and isinstance(n.target, ast.Name) and n.target.id == "json_column":
            v = fold(n.iter)
            if v is not NOFOLD:
                dec_cols |= set(v)
        if isinstance(n, ast.If) and any("geo" in ast.unparse(s) and "loads" in ast.unparse(s) for s in n.body):
            t = n.test
            if isinstance(t, ast.Compare) and isinstance(t.ops[0], ast.In) and ast.unparse(t.left) == "item":
                v = fold(t.comparators[0])
                geo_tables = set(v) if v is not NOFOLD else None
            elif "geo" in ast.unparse(t) and "columns" in ast.unparse(t) and geo_tables is None:
                geo_tables = "ANY"
    # encode side
    enc_cols = set()
    for n in ast.walk(ft.node):
        if isinstance(n, ast.Assign) and isinstance(n.targets[0], ast.Subscript) and dotted(n.targets[0].value) == "tab" \
                and isinstance(n.targets[0].slice, ast.Constant) and "json.dumps" in ast.unparse(n.value):
            enc_cols.add(n.targets[0].slice.value)
    if not {"object", "recycle", "geo"} <= enc_cols:
        ctx.fail(f"to_dict_of_dfs: encoded columns not recognised ({enc_cols})")
    for c in sorted(enc_cols - {"geo"}):
        ctx.ob(R4, f"{IO}::from_dict_of_dfs::column:{c}", c in dec_cols, f"JSON-encoded column '{c}' " + ("is decoded" if c in dec_cols else "is never decoded"), ff.loc())
    # q_capability_characteristic object columns
    qc = [c for c, t in (schema.structure.get("q_capability_characteristic") or {}).items() if "object" in t]
    for c in qc:
        ctx.ob(R4, f"{IO}::from_dict_of_dfs::column:q_capability_characteristic.{c}", c in dec_cols,
               f"object column q_capability_characteristic.{c} " + ("is decoded" if c in dec_cols else "is encoded but never decoded"), ff.loc())
    with_geo = sorted(t for t, cols in schema.structure.items() if cols and "geo" in cols and not t.startswith("res_"))
    if len(with_geo) < 2:
        ctx.fail("no tables with a geo column found in network_structure")
    for t in with_geo:
        ok = geo_tables == "ANY" or (geo_tables is not None and t in geo_tables)
        ctx.ob(R4, f"{IO}::from_dict_of_dfs::geo:{t}", ok,
               f"{t}.geo is JSON-encoded on write and " + ("decoded on read" if ok else f"not decoded on read (decoded only for {sorted(geo_tables) if isinstance(geo_tables, set) else geo_tables})"),
               ff.loc())
    # special keys
    written = set()
    for n in ast.walk(ft.node):
        if isinstance(n, ast.Assign) and isinstance(n.targets[0], ast.Subscript) and dotted(n.targets[0].value) == "dodfs":
            k = n.targets[0].slice
            if isinstance(k, ast.Constant):
                written.add(k.value)
            elif isinstance(k, ast.BinOp) and isinstance(k.left, ast.Constant):
                written.add(k.left.value.replace("%s", "*"))
    read_txt = ast.unparse(ff.node)
    for k in sorted(written):
        probe = k.replace("*", "")
        ok = f"'{probe}'" in read_txt or f'"{probe}"' in read_txt
        ctx.ob(R4, f"{IO}::from_dict_of_dfs::key:{k}", ok, f"special sheet '{k}' written by to_dict_of_dfs " + ("is handled" if ok else "is not handled") + " by from_dict_of_dfs", ff.loc())


def variants_r5(V):
    io = "pandapower/io_utils.py"
    return [
        V("series written with the pandas default precision", io, in_function("json_series", lambda s: s.replace("obj.to_json(orient=orient, default_handler=to_serializable,\n                                        double_precision=15)", "obj.to_json(orient=orient, default_handler=to_serializable)", 1)), "json_series::double_precision"),
        V("numpy booleans decoded with bool()", io, lambda s: s.replace('        if isinstance(self.obj, str):\n            return self.obj.lower() == "true"\n        return bool(self.obj)\n', '        return bool(self.obj)\n', 1), "literal-form"),
        V("twin: numpy booleans decoded through json", io, lambda s: s.replace('        if isinstance(self.obj, str):\n            return self.obj.lower() == "true"\n        return bool(self.obj)\n', '        return bool(json.loads(self.obj)) if isinstance(self.obj, str) else bool(self.obj)\n', 1), None),
        V("sniffed JSON parsed unguarded", io, lambda s: s.replace("            try:\n                net_dict[k] = json.loads(item)\n            except json.JSONDecodeError:\n                pass", "            net_dict[k] = json.loads(item)", 1), "sniffed-json"),
        V("pickle reader catches TypeError only", io, replace_once("                    df_index = pd.Index(df_dict['index'], dtype=numpy.int64)\n                except (TypeError, ValueError):", "                    df_index = pd.Index(df_dict['index'], dtype=numpy.int64)\n                except TypeError:"), "label-cast"),
        V("profile key derived with rstrip", io, in_function("from_dict_of_dfs", replace_once('net["profiles"][item[:-9]] = table', 'net["profiles"][item.rstrip("_profiles")] = table')), "suffix:_profiles"),
        V("profile key cut one short", io, in_function("from_dict_of_dfs", replace_once('net["profiles"][item[:-9]] = table', 'net["profiles"][item[:-8]] = table')), "suffix:_profiles"),
        V("twin: profile key through removesuffix", io, in_function("from_dict_of_dfs", replace_once('net["profiles"][item[:-9]] = table', 'net["profiles"][item.removesuffix("_profiles")] = table')), None),
    ]


def variants(repo):
    io = "pandapower/io_utils.py"
    fio = "pandapower/file_io.py"
    V = Variant
    return [
        V("free NaN written as null", io, replace_once("                text = 'NaN'", "                text = 'null'"), "VALUE-FIDELITY"),
        V("pickle records dtype names", io, replace_once('"dtypes": dict(zip(item.columns, item.dtypes))}', '"dtypes": dict(zip(item.columns, item.dtypes.astype(str)))}'), "VALUE-FIDELITY"),
        V("results dropped when not converged", io, in_function("to_dict_of_dfs", replace_once("    parameters = {}  # pd.DataFrame(columns=[\"parameter\"])\n", "    parameters = {}\n    if include_results and not net.get(\"converged\", True):\n        include_results = False\n")), "VALUE-FIDELITY"),
        V("None restored by index label", io, replace_once("df.loc[pd.isnull(df[col]), col] = None", "df.loc[df.index[pd.isnull(df[col])], col] = None"), "ROW-SELECT"),
        V("twin: mask in a local", io, replace_once("            df.loc[pd.isnull(df[col]), col] = None", "            isnull = pd.isnull(df[col])\n            df.loc[isnull, col] = None"), None),
        V("library types override saved types", fio, replace_once("net.std_types[key] = dict(std_types, **net.std_types[key])", "net.std_types[key] = dict(net.std_types[key], **std_types)"), "STD-PRECEDENCE"),
        V("new metadata key not consumed", io, in_function("json_dataframe", replace_once("    d['is_multiindex'] = isinstance(obj.index, pd.MultiIndex)\n", "    d['is_multiindex'] = isinstance(obj.index, pd.MultiIndex)\n    d['n_rows'] = len(obj)\n")), "json_dataframe::n_rows"),
        V("decoder stops popping column_names", io, replace_once("        column_names = self.d.pop('column_names', None)\n", "        column_names = None\n"), "json_dataframe::column_names"),
        V("decrypt guard lost", fio, in_function("from_json_string", replace_once("    if encryption_key is not None:\n        json_string = decrypt_string(json_string, encryption_key)\n", "")), "ENCRYPT-PAIR"),
        V("recycle not decoded", io, in_function("from_dict_of_dfs", replace_once('("object", "recycle", "q_max_characteristic", "q_min_characteristic")', '("object", "q_max_characteristic", "q_min_characteristic")')), "column:recycle"),
        V("unknown numpy class", io, replace_once("obj_module='numpy', obj_class='array'", "obj_module='numpy', obj_class='arrayx'"), "SIG-DECODE"),
    ] + variants_r5(Variant)
