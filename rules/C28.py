"""C28 - grid equivalents leave the original network unchanged: effect clause.

Decided: get_equivalent rebinds `net = deepcopy(net)` before the first store, and no function
reachable from it stores into an object that aliases the caller's net (stores are attributed to the
abstract net object they reach; deep copies carry a different tag).  Not decided: voltages of the
equivalent.
"""
import ast

from ppsa import facts
from ppsa.astutil import dotted
from ppsa.selftest import Variant, replace_once, in_function

GE = "pandapower.grid_equivalents.get_equivalent"


def run(ctx):
    ctx.assume("parameter aliasing is tracked through the resolved call graph; unresolved callees are assumed not to write the net")
    R = "EFFECT-ORIGINAL"
    ctx.rule(R, "no store reachable from get_equivalent reaches the caller's net object (only deep copies are written)")
    fi = ctx.repo.func(f"{GE}:get_equivalent")
    it, fr = facts.analyse(ctx.repo, f"{GE}:get_equivalent", defaults=False, max_depth=14, memo=True)
    to_orig = [s for s in it.stores if s.path.startswith("net.")]
    to_copy = [s for s in it.stores if s.path.startswith("net#copy")]
    if len(to_copy) < 200:
        ctx.fail(f"get_equivalent: only {len(to_copy)} stores into copies of the net recognised (analysis lost the pipeline)")
    seen = set()
    for s in to_orig:
        key = f"{s.fn.module.name}::{s.fn.qualname}::{s.path}"
        if key in seen:
            continue
        seen.add(key)
        ctx.ob(R, key, False, f"store into {s.path} of the caller's net (via {' > '.join(x.split(':')[1] for x in s.stack[-3:])})", s.fn.loc(s.node))
    per_fn = {}
    for s in to_copy:
        per_fn.setdefault(s.fn.fq, []).append(s)
    bad_fns = {s.fn.fq for s in to_orig}
    for fq, ss in sorted(per_fn.items()):
        if fq in bad_fns:
            continue
        ctx.ob(R, f"{fq.replace(':', '::')}::writes-copy-only", True,
               f"{len(ss)} store(s), all into deep copies of the net (e.g. {ss[0].path})", ss[0].fn.loc(ss[0].node))
    ctx.ob(R, f"{GE}::get_equivalent::stores", True,
           f"{len(to_copy)} stores examined, all into deep copies of the net; {len(to_orig)} into the caller's net", fi.loc())
    ctx.count("stores_into_copies", len(to_copy))
    ctx.count("calls_resolved", it.resolved_calls)
    ctx.count("calls_unresolved", it.unresolved_calls)
    # the copy of the net made by get_equivalent shares the list objects stored in object cells (net.group.element_index): mutating such
    # a cell in place reaches the caller's net although every table was copied
    from rules import C27, _lints
    C27.rule_group_cells(ctx)
    RD = "DISCARDED"
    ctx.rule(RD, "in pandapower.grid_equivalents every row/column-removing pandas call on a net table is in place or assigned: a discarded "
                 "`net[elm].drop(...)` leaves the internal branch in the equivalent, which then contains it twice")
    fis = [f for mn in ctx.repo.module_names() if mn.startswith("pandapower.grid_equivalents") for f in ctx.repo.module(mn).functions.values()]
    if _lints.discarded_results(ctx, RD, fis) < 1:
        ctx.fail("DISCARDED: no table-modifying expression statements found in pandapower.grid_equivalents")
    R2 = "COPY-FIRST"
    ctx.rule(R2, "get_equivalent rebinds net to deepcopy(net) before any statement that can write it")
    pos_copy = None
    first_call_with_net = None
    for i, st in enumerate(fi.node.body):
        if isinstance(st, ast.Assign) and any(isinstance(t, ast.Name) and t.id == "net" for t in st.targets) \
                and isinstance(st.value, ast.Call) and (dotted(st.value.func) or "").endswith("deepcopy"):
            pos_copy = i
            break
    writers = []
    if pos_copy is not None:
        for st in fi.node.body[:pos_copy]:
            for n in ast.walk(st):
                if isinstance(n, ast.Call) and any(isinstance(a, ast.Name) and a.id == "net" for a in n.args):
                    nm = dotted(n.func) or ""
                    if nm not in ("len", "isinstance", "deepcopy", "copy.deepcopy", "type"):
                        writers.append(nm)
                if isinstance(n, (ast.Assign, ast.AugAssign)):
                    tg = n.targets if isinstance(n, ast.Assign) else [n.target]
                    for t in tg:
                        if "net" in ast.unparse(t).split(".")[0].split("[")[0] and ast.unparse(t) != "net" and ast.unparse(t).startswith("net"):
                            writers.append(ast.unparse(t))
    ctx.ob(R2, f"{GE}::get_equivalent::deepcopy-first", pos_copy is not None and not writers,
           "net = deepcopy(net) precedes every use that could write" if pos_copy is not None and not writers else
           (f"statements before the deep copy touch net: {writers[:3]}" if pos_copy is not None else "no rebinding net = deepcopy(net) found"), fi.loc())


def variants(repo):
    p = "pandapower/grid_equivalents/get_equivalent.py"
    V = Variant
    return [
        V("internal impedances not dropped", "pandapower/grid_equivalents/auxiliary.py", replace_once("                net[elm] = net[elm].drop(idx_to_drop)", "                net[elm].drop(idx_to_drop)"), "DISCARDED"),
        V("group member list extended in place", "pandapower/groups.py", in_function("attach_to_group", lambda s: s.replace("            prev_elm = [prev_elm] if isinstance(prev_elm, str) or not hasattr(\n                prev_elm, \"__iter__\") else list(prev_elm)\n", "            if isinstance(prev_elm, str) or not hasattr(prev_elm, \"__iter__\"):\n                prev_elm = [prev_elm]\n            prev_elm += list(pd.Index(elm).difference(pd.Index(prev_elm)))\n", 1)), "GROUP-CELL-ALIAS"),
        V("copy removed", p, in_function("get_equivalent", replace_once("    net = deepcopy(net)\n", "    net = net\n")), "EFFECT-ORIGINAL"),
        V("shallow copy", p, in_function("get_equivalent", replace_once("    net = deepcopy(net)\n", "    net_orig = net\n    net = deepcopy(net)\n    net_orig.bus['zone'] = 'ext'\n")), "EFFECT-ORIGINAL"),
    ]
