"""C03 - energy conservation and loss sign: structural clauses.

Decided: in every branch result writer the value stored in pl_mw (ql_mvar) is the sum, with
positive sign, of exactly the values stored in that table's terminal power columns (AC), and
carries no source term at all in a DC run; the single-slack solution assigns slack P/Q from
demand + branch flows + FACTS terms.  Not decided: non-negativity of losses (numerical).
"""
from ppsa import facts, shape as sh
from ppsa.absint import AV, E
from ppsa.obligations import ka, mva
from ppsa.selftest import Variant, replace_once, in_function

RBR = "pandapower.results_branch"

WRITERS = [
    # (function, result table, P terminals, Q terminals, extra args)
    ("_get_line_results", "res_line", ["p_from_mw", "p_to_mw"], ["q_from_mvar", "q_to_mvar"]),
    ("_get_trafo_results", "res_trafo", ["p_hv_mw", "p_lv_mw"], ["q_hv_mvar", "q_lv_mvar"]),
    ("_get_trafo3w_results", "res_trafo3w", ["p_hv_mw", "p_mv_mw", "p_lv_mw"], ["q_hv_mvar", "q_mv_mvar", "q_lv_mvar"]),
    ("_get_impedance_results", "res_impedance", ["p_from_mw", "p_to_mw"], ["q_from_mvar", "q_to_mvar"]),
    ("_get_tcsc_results", "res_tcsc", ["p_from_mw", "p_to_mw"], ["q_from_mvar", "q_to_mvar"]),
    ("_get_line_dc_results", "res_line_dc", ["p_from_mw", "p_to_mw"], []),
]


def _terms(shape):
    return {(m.sign, frozenset(a for a in m.facs if not a.startswith(("lookup.", "param.")))) for m in shape}


def run(ctx):
    ctx.assume("decides the term structure of the reported losses, not their numerical sign")
    R = "LOSS-SUM"
    ctx.rule(R, "res_<branch>.pl_mw / ql_mvar is the sum with sign + of exactly the values written to the table's "
                "terminal p_* / q_* columns when ac is True")
    R0 = "LOSS-DC-ZERO"
    ctx.rule(R0, "in a DC run (ac False) pl_mw / ql_mvar of every branch table carry no source term (zeros) while p_* still report the flow")
    args = {"i_ft": ka("i_ft"), "s_ft": mva("s_ft")}
    for fn, tab, pcols, qcols in WRITERS:
        fq = f"{RBR}:{fn}"
        fi = ctx.repo.func(fq)
        a = {k: v for k, v in args.items() if k in fi.params}
        it, fr = facts.analyse(ctx.repo, fq, args=a, options={"ac": True, "mode": "pf", "tdpf": False, "trafo_loading": "current",
                                                               "consider_line_temperature": False}, schema_cols=True)
        for loss, cols in (("pl_mw", pcols), ("ql_mvar", qcols)):
            if not cols:
                continue
            hv = it.heap.get(f"net.{tab}.{loss}")
            if hv is None or facts.undecided(hv.shape):
                ctx.fail(f"{fn}: {tab}.{loss} not written / undecidable")
            want = set()
            for c in cols:
                cv = it.heap.get(f"net.{tab}.{c}")
                if cv is None or facts.undecided(cv.shape):
                    ctx.fail(f"{fn}: terminal column {tab}.{c} not written / undecidable")
                want |= _terms(cv.shape)
            got = _terms(hv.shape)
            ok = got == want and all(s == 1 for s, _ in got) and len(got) >= len(cols)
            ctx.ob(R, f"{RBR}::{fn}::{tab}.{loss}", ok,
                   f"{tab}.{loss} = " + " ".join(sorted(facts.fmt_sig(t) for t in got)) + (
                       "" if ok else "   but the terminal columns hold " + " ".join(sorted(facts.fmt_sig(t) for t in want))),
                   fi.loc())
        if fn in ("_get_tcsc_results", "_get_line_dc_results"):
            continue  # no DC variant (tcsc raises, line_dc returns early)
        it0, fr0 = facts.analyse(ctx.repo, fq, args=a, options={"ac": False, "mode": "pf", "tdpf": False, "trafo_loading": "current",
                                                                 "consider_line_temperature": False}, schema_cols=True)
        for col in ["pl_mw", "ql_mvar"]:
            hv = it0.heap.get(f"net.{tab}.{col}")
            if hv is None or facts.undecided(hv.shape):
                ctx.fail(f"{fn} (dc): {tab}.{col} not written / undecidable")
            src = [m for m in hv.shape if any(a.startswith(("ppc.", "net.")) for a in m.facs)]
            ctx.ob(R0, f"{RBR}::{fn}::{tab}.{col}", not src,
                   f"{tab}.{col} is zero-like in a DC run" if not src else f"{tab}.{col} carries {src[0]!r} in a DC run", fi.loc())
        for col in pcols:
            hv = it0.heap.get(f"net.{tab}.{col}")
            ok = hv is not None and not facts.undecided(hv.shape) and any(a.startswith("ppc.branch.P") for m in hv.shape for a in m.facs)
            ctx.ob(R0, f"{RBR}::{fn}::{tab}.{col}:dc", ok, f"{tab}.{col} still reports the branch flow in a DC run", fi.loc())
    ctx.require_min(R, 11)
    ctx.require_min(R0, 14)

    R2 = "SLACK-SUM"
    ctx.rule(R2, "pf_solution_single_slack assigns slack P (Q) from the sum of bus demand, all branch terminal flows "
                 "(= losses) and the FACTS terms")
    m = facts.matrix
    it, fr = facts.analyse(ctx.repo, "pandapower.pf.pfsoln_numba:pf_solution_single_slack",
                           args={"bus": m("bus"), "gen": m("gen"), "branch": m("branch"), "svc": m("svc"), "tcsc": m("tcsc"),
                                 "ssc": m("ssc"), "vsc": m("vsc")}, max_depth=1)
    for col, need in (("PG", ["ppc.bus.PD", "ppc.branch.PF", "ppc.branch.PT", "ppc.tcsc.TCSC_PF", "ppc.tcsc.TCSC_PT", "ppc.vsc.VSC_P"]),
                      ("QG", ["ppc.bus.QD", "ppc.branch.QF", "ppc.branch.QT", "ppc.svc.SVC_Q", "ppc.ssc.SSC_Q", "ppc.vsc.VSC_Q",
                              "ppc.tcsc.TCSC_QF", "ppc.tcsc.TCSC_QT"])):
        ss = facts.stores(it, f"ppc.gen.{col}", "pf_solution_single_slack")
        if not ss:
            ctx.fail(f"pf_solution_single_slack: no store to gen {col}")
        v = facts.joined_value(ss)
        missing = [n for n in need if n not in v.deps]
        neg = [m_ for m_ in (v.shape or []) if m_.sign != 1] if not facts.undecided(v.shape) else []
        ctx.ob(R2, f"pandapower.pf.pfsoln_numba::pf_solution_single_slack::{col}", not missing and not neg,
               f"slack {col} sums {sorted(d for d in v.deps if d.startswith('ppc.'))}" + (f"; missing {missing}" if missing else "")
               + (f"; negative term {neg[0]!r}" if neg else ""), ss[0].fn.loc(ss[0].node))


    rule_shortcut_guard(ctx)
    from rules import _lints
    R4 = "SLACK-SPLIT"
    ctx.rule(R4, "the slack power of a bus is shared among the reference generators of that bus: the divisor is the number of "
                 "exactly the rows the shares are assigned to (AC: pfsoln._split_p_for_gens_at_same_bus, DC: _run_dc_pf)")
    n = _lints.split_divisor(ctx, R4, [ctx.repo.func("pandapower.pypower.pfsoln:_split_p_for_gens_at_same_bus"),
                                       ctx.repo.func("pandapower.pf.run_dc_pf:_run_dc_pf")])
    if n < 2:
        ctx.fail("SLACK-SPLIT: the slack sharing statements were not found")
    _lints.split_total(ctx, "SPLIT-TOTAL")
    from rules import C10
    C10.rule_xward(ctx)     # SW-XWARD: the xward share closes the balance at its bus (shared with C01 / C10)
    _lints.ref_gens(ctx, "REF-GENS")
    R6 = "PFSOLN-TWIN"
    ctx.rule(R6, "the numba and the pypower implementation of pfsoln keep the same generator bookkeeping (on, gbus, Sbus, _update_v, "
                 "_update_q, extension by the Q-limited generators, _update_p): the slack power is written to the same generator rows")
    _lints.pfsoln_twins(ctx, R6)


def rule_shortcut_guard(ctx):
    """pf_solution_single_slack sums bus demand, branch flows and FACTS terms only; every other injection of the nodal balance
    (shunt conductance GS, shunt susceptance BS, voltage dependent demand, further generators, distributed slack) must keep
    it from being selected"""
    import ast
    from ppsa.astutil import norm, names_in
    R3 = "SHORTCUT-GUARD"
    ctx.rule(R3, "the condition under which _get_numba_functions selects pf_solution_single_slack depends on ppci['bus'][:, GS], "
                 "ppci['bus'][:, BS], options['voltage_depend_loads'], options['distributed_slack'] and the number of gen rows: "
                 "each is a term of the power balance that the shortcut does not sum")
    fi = ctx.repo.func("pandapower.pf.run_newton_raphson_pf:_get_numba_functions")
    sel = None
    for n in ast.walk(fi.node):
        if isinstance(n, ast.IfExp) and isinstance(n.body, ast.Name) and n.body.id == "pf_solution_single_slack":
            sel = n.test
        if isinstance(n, ast.If) and any(isinstance(x, ast.Assign) and isinstance(x.value, ast.Name) and x.value.id == "pf_solution_single_slack"
                                         for x in n.body):
            sel = n.test
    if sel is None:
        ctx.fail("_get_numba_functions: selection of pf_solution_single_slack not found")
    defs = {}
    for n in ast.walk(fi.node):
        if isinstance(n, ast.Assign) and len(n.targets) == 1 and isinstance(n.targets[0], ast.Name):
            defs.setdefault(n.targets[0].id, []).append(n.value)
    txt = norm(sel, 2000)
    seen = set()
    frontier = [sel]
    for _ in range(3):
        nxt = []
        for e in frontier:
            for nm in names_in(e):
                if nm in defs and nm not in seen:
                    seen.add(nm)
                    nxt += defs[nm]
        for e in nxt:
            txt += "|" + norm(e, 2000)
        frontier = nxt
    txt = txt.replace('"', "'")
    need = {"GS": "ppci['bus'][:,GS]", "BS": "ppci['bus'][:,BS]", "voltage_depend_loads": "options['voltage_depend_loads']",
            "distributed_slack": "options['distributed_slack']", "gen rows": "ppci['gen'].shape[0]"}
    for k, frag in need.items():
        ok = frag in txt
        ctx.ob(R3, f"pandapower.pf.run_newton_raphson_pf::_get_numba_functions::{k}", ok,
               f"the selection of the single-slack shortcut depends on {k}" if ok else
               f"pf_solution_single_slack can be selected although {k} contributes to the balance: its slack power = demand + losses "
               "leaves that term out and the slack bus is unbalanced", fi.loc())


def variants(repo):
    rb = "pandapower/results_branch.py"
    pn = "pandapower/pf/pfsoln_numba.py"
    V = Variant
    return [
        V("trafo3w loss drops lv", rb, replace_once("pl_mw = phv_mw + pmv_mw + plv_mw", "pl_mw = phv_mw + pmv_mw"), "res_trafo3w.pl_mw"),
        V("trafo loss sign", rb, in_function("_get_trafo_results", replace_once("pl_mw = p_hv_mw + p_lv_mw", "pl_mw = p_hv_mw - p_lv_mw")), "res_trafo.pl_mw"),
        V("line ql uses p", rb, in_function("_get_line_results", replace_once("ql_mvar = q_from_mvar + q_to_mvar", "ql_mvar = q_from_mvar + p_to_mw")), "res_line.ql_mvar"),
        V("impedance ac/dc swapped", rb, in_function("_get_impedance_results", lambda s: s.replace("if ac:", "if not ac:", 1)), "res_impedance"),
        V("dc line loss nonzero", rb, in_function("_get_line_results", replace_once("pl_mw = np.zeros_like(pf_mw)", "pl_mw = pf_mw + pt_mw")), "LOSS-DC-ZERO"),
        V("slack ignores to-side", pn, replace_once("p_loss = branch[:, [PF, PT]].sum()", "p_loss = branch[:, [PF]].sum()"), "SLACK-SUM"),
        V("shortcut with conductance shunts", "pandapower/pf/run_newton_raphson_pf.py", replace_once('shunt_in_net = any(ppci["bus"][:, BS]) or any(ppci["bus"][:, GS])', 'shunt_in_net = any(ppci["bus"][:, BS])'), "SHORTCUT-GUARD"),
        V("shortcut with zip loads", "pandapower/pf/run_newton_raphson_pf.py", replace_once('                                             and not options["voltage_depend_loads"] \\\n', ""), "SHORTCUT-GUARD"),
        V("ac slack split by all gens at the bus", "pandapower/pypower/pfsoln.py", replace_once("gen[ext_grids, PG] = p_ext_grids / len(ext_grids)", "gen[ext_grids, PG] = p_ext_grids / len(gens_at_bus)"), "SLACK-SPLIT"),
        V("numba pfsoln re-adds limited gens at reference buses only", "pandapower/pf/pfsoln_numba.py", replace_once("on = find((gen[:, GEN_STATUS] > 0) | isin(arange(len(gen)), limited_gens))", "on = find((gen[:, GEN_STATUS] > 0) | (isin(arange(len(gen)), limited_gens) & isin(gen[:, GEN_BUS].astype(int64), ref)))"), "PFSOLN-TWIN"),
        V("slack gens reference machines only without ext_grid", "pandapower/pd2ppc.py", replace_once('    if np.any(net.gen.slack.values[net._is_elements["gen"]]):', '    if not len(ref_gens) and np.any(net.gen.slack.values[net._is_elements["gen"]]):'), "REF-GENS"),
        V("storage not among the node elements of the xward share", "pandapower/results_bus.py", replace_once("node_elements = ['sgen', 'load', 'ward', 'xward', 'storage']", "node_elements = ['sgen', 'load', 'ward', 'xward']"), "node-elements"),
        V("equal split of the whole bus power among all gens", "pandapower/pypower/pfsoln.py", replace_once("gen[ext_grids, PG] = p_ext_grids / len(ext_grids)", "gen[gens_at_bus, PG] = p_bus / len(gens_at_bus)"), "SPLIT-TOTAL"),
        V("equal split forgets the pv generation", "pandapower/pypower/pfsoln.py", replace_once("gen[ext_grids, PG] = p_ext_grids / len(ext_grids)", "gen[ext_grids, PG] = p_bus / len(ext_grids)"), "SPLIT-TOTAL"),
        V("twin: pv sum in a local", "pandapower/pypower/pfsoln.py", replace_once("        p_ext_grids = p_bus - sum(gen[pv_gens, PG])\n", "        p_pv = sum(gen[pv_gens, PG])\n        p_ext_grids = p_bus - p_pv\n"), None),
        V("dc slack split counts all gens", "pandapower/pf/run_dc_pf.py", replace_once("ext_grids_bus=bincount(refgenbus)", "ext_grids_bus=bincount(gen[:, GEN_BUS].astype(np.int64))"), "SLACK-SPLIT"),
        V("twin: sum order", rb, replace_once("pl_mw = phv_mw + pmv_mw + plv_mw", "pl_mw = plv_mw + (phv_mw + pmv_mw)"), None),
    ]
