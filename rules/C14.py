"""C14 - contingency analysis reports the true extremes: structural clauses.

Decided:
 * RESTORE   every temporary outage (in_service = False) is restored in a finally block
 * ORDER     the N-0 evaluation and update come after all N-1 updates; write_to_net never
             overwrites an existing result column
 * UPDATE    the min/max update mask excludes NaN results and the element's own outage; the cause
             attribution is NaN-safe and restricted to valid entries; causes_overloading is set for
             the outage iff some value exceeds the limit of the affected element
Not decided: numerical extremes over the N-1 cases.
"""
from ppsa.selftest import Variant, replace_once, in_function
from rules import _contingency as cg

M = "pandapower.contingency.contingency"


def run(ctx):
    ctx.assume("decides restore pairing, evaluation order and mask/attribution structure, not the numerical extremes")
    fi = ctx.repo.func(f"{M}:run_contingency")
    fu = ctx.repo.func(f"{M}:_update_contingency_results")
    ctx.rule("RESTORE", "every `net[element].at[i, 'in_service'] = False` is directly followed by a try statement whose "
                        "finally block sets the same cell back to True")
    n = cg.rule_restore(ctx, "RESTORE", fi)
    if n < 1:
        ctx.fail("run_contingency: temporary outage store not found")
    ctx.rule("ORDER", "N-0 evaluation and _update_contingency_results(nminus1=False) follow every N-1 update; the write_to_net "
                      "loop skips variables that already are result columns")
    cg.rule_order(ctx, "ORDER", fi, "_update_contingency_results")
    ctx.rule("UPDATE", "min/max masks exclude NaN and the own outage; cause attribution NaN-safe and valid-only; overload "
                       "attribution guarded by the limit comparison")
    cg.rule_update(ctx, "UPDATE", fu, parallel=False)
    ctx.rule("OPTIONS", "N-1 cases are evaluated with pf_options_nminus1 (filtered from itself), the base case with pf_options; cases of "
                        "elements that are out of service are skipped")
    cg.rule_options(ctx, "OPTIONS", fi)
    ctx.rule("SETUP", "a recycle option of the caller is forced off; cause_element is an object array (no truncation of type names); the "
                      "write_to_net loop writes every monitored table; cause_index is only compared with the index of the outaged table")
    cg.rule_setup(ctx, "SETUP", fi)
    if cg.rule_dup_keyword(ctx, "SETUP", fi) < 2:
        ctx.fail("run_contingency: fewer than 2 calls forwarding **kwargs found")
    if cg.rule_cause_index(ctx, "SETUP", fu) < 1:
        ctx.fail("_update_contingency_results: comparison with cause_index not found")


def variants(repo):
    p = "pandapower/contingency/contingency.py"
    V = Variant
    return [
        V("n-1 options filtered from the base-case options", p, replace_once("pf_options_nminus1 = {key: val for key, val in pf_options_nminus1.items() if key not in", "pf_options_nminus1 = {key: val for key, val in pf_options.items() if key not in"), "OPTIONS"),
        V("outage evaluated with the base-case options", p, in_function("run_contingency", replace_once("contingency_evaluation_function(net, **pf_options_nminus1, **kwargs)", "contingency_evaluation_function(net, **pf_options, **kwargs)")), "OPTIONS"),
        V("recycle only defaulted", p, lambda s: s.replace('    if "recycle" in kwargs:\n        kwargs["recycle"] = False', '    kwargs.setdefault("recycle", False)', 1), "recycle-off"),
        V("fixed-width cause names", p, in_function("run_contingency", replace_once('"cause_element": np.empty_like(net[element].index.values, dtype=object)', '"cause_element": np.zeros_like(net[element].index.values, dtype="U5")')), "cause-element-dtype"),
        V("tables without outage not written", p, in_function("run_contingency", replace_once('            index = element_results["index"]\n', '            if element != "bus" and element not in nminus1_cases:\n                continue\n            index = element_results["index"]\n')), "write-all-tables"),
        V("overload flag located in the affected table", p, in_function("_update_contingency_results", replace_once('contingency_results[cause_element]["index"] == cause_index] = True', 'contingency_results[element]["index"] == cause_index] = True')), "cause-index"),
        V("restore on normal path only", p, in_function("run_contingency", lambda s: s.replace("            finally:\n                net[element].at[i, 'in_service'] = True\n", "            net[element].at[i, 'in_service'] = True\n", 1)), "RESTORE"),
        V("n0 before n1", p, in_function("run_contingency", lambda s: s.replace("    for element, val in nminus1_cases.items():\n", "    contingency_evaluation_function(net, **pf_options, **kwargs)\n    _update_contingency_results(net, contingency_results, result_variables, nminus1=False)\n    for element, val in nminus1_cases.items():\n", 1).replace("    contingency_evaluation_function(net, **pf_options, **kwargs)\n    _update_contingency_results(net, contingency_results, result_variables, nminus1=False)\n\n    if write_to_net", "\n    if write_to_net", 1)), "ORDER"),
        V("cause compares with nan", p, in_function("_update_contingency_results", replace_once("(val > np.nan_to_num(running_max, nan=-np.inf))", "(val > running_max)")), "cause-nan-safe"),
        V("cause includes own outage", p, in_function("_update_contingency_results", replace_once('max_mask = net[element]["in_service"].values & ~np.isnan(val) & \\\n', 'max_mask = \\\n')), "cause-valid-only"),
        V("mask ignores in_service", p, in_function("_update_contingency_results", replace_once('where=net[element]["in_service"].values & ~np.isnan(val))', 'where=~np.isnan(val))')), "where-own-outage"),
        V("limit column tested on the outaged table", p, in_function("_update_contingency_results", replace_once("if 'max_loading_percent_nminus1' in net[element].columns", "if 'max_loading_percent_nminus1' in net[cause_element].columns")), "guard:max_loading_percent_nminus1"),
        V("mask ignores nan", p, in_function("_update_contingency_results", replace_once('where=net[element]["in_service"].values & ~np.isnan(val))', 'where=net[element]["in_service"].values)')), "where-nan"),
    ]
