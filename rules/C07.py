"""C07 - unsupplied parts are reported as unsupplied: table-agreement and ordering clauses.

Decided:
 * CONNECT-TYPES  the element types that give connectivity in the power flow's connectivity check (branch rows
                  + tcsc) equal the types that give edges in the topology graph that unsupplied_buses
                  builds with default arguments
 * SLACK-DEF      both sides define supply by the same elements: in-service ext_grid, in-service gen with
                  slack, in-service VSC in slack mode
 * NAN-ORDER      _extract_results (and its 3ph / estimation twins) call _set_buses_out_of_service before any
                  result is read; it writes NaN to VM and VA exactly for BUS_TYPE == NONE
 * FINAL-MASK     after the connectivity check _pd2ppc replaces net._is_elements by the final in-service masks
                  that the element result writers multiply with
Not decided: NaN pattern of concrete networks.
"""
import ast

from ppsa import facts
from ppsa.absint import const, deps_of
from ppsa.astutil import calls_in, call_name, fold, NOFOLD, dotted, norm
from ppsa.selftest import Variant, replace_once, in_function

CG = "pandapower.topology.create_graph"
GS = "pandapower.topology.graph_searches"
AUX = "pandapower.auxiliary"


def run(ctx):
    ctx.assume("decides agreement of the two connectivity definitions and the ordering of NaN marking, not the NaN pattern of a "
               "concrete network")
    R = "CONNECT-TYPES"
    ctx.rule(R, "element types connecting user buses in the power-flow connectivity check == element types producing edges in "
                "create_nxgraph with the default arguments used by unsupplied_buses")
    # topology side: add_edges calls reached with all include_* at their defaults
    fg = ctx.repo.func(f"{CG}:create_nxgraph")
    defaults = {}
    a = fg.node.args
    for p, d in zip(a.args[len(a.args) - len(a.defaults):], a.defaults):
        v = fold(d)
        if v is not NOFOLD:
            defaults[p.arg] = v
    fu = ctx.repo.func(f"{GS}:unsupplied_buses")
    passed = set()
    for c in calls_in(fu.node):
        if call_name(c) == "create_nxgraph":
            passed = {k.arg for k in c.keywords}
    args = {k: const(v) for k, v in defaults.items() if k not in passed and (k.startswith("include_") or k in ("multi", "library", "calc_branch_impedances"))}
    it, fr = facts.analyse(ctx.repo, f"{CG}:create_nxgraph", defaults=False, max_depth=3, track_calls=True, schema_cols=True, args=args)
    topo = {ce.args[5].data for ce in it.calls if ce.callee.name == "add_edges" and len(ce.args) > 5 and ce.args[5].is_const}
    if len(topo) < 5:
        ctx.fail(f"create_nxgraph: edge-producing blocks not recognised ({topo})")
    # power-flow side
    fl = ctx.repo.func("pandapower.build_branch:_initialize_branch_lookup")
    pf = set()
    for n in ast.walk(fl.node):
        if isinstance(n, ast.Assign) and any(isinstance(t, ast.Name) and t.id == "elements" for t in n.targets):
            v = fold(n.value.body if isinstance(n.value, ast.IfExp) else n.value)
            if v is not NOFOLD:
                pf |= set(v)
        if isinstance(n, ast.Assign):
            for t in n.targets:
                if isinstance(t, ast.Subscript) and isinstance(t.slice, ast.Constant) and "_pd2ppc_lookups" in ast.unparse(t.value):
                    pf.add(t.slice.value)
    fc = ctx.repo.func(f"{AUX}:_check_connectivity")
    mats = set()
    for n in ast.walk(fc.node):
        if isinstance(n, ast.Subscript) and isinstance(n.value, ast.Name) and n.value.id == "ppc" and isinstance(n.slice, ast.Constant):
            mats.add(n.slice.value)
    if "branch" not in mats:
        ctx.fail("_check_connectivity: branch matrix not used")
    pf_user = {e for e in pf if e != "xward"} | ({"tcsc"} if "tcsc" in mats else set())   # xward/ssc/vsc branches end at internal buses
    for el in sorted(topo | pf_user):
        ok = el in topo and el in pf_user
        ctx.ob(R, f"{GS}::unsupplied_buses::{el}", ok,
               f"{el}: power-flow connectivity={'yes' if el in pf_user else 'NO'}, topology graph={'yes' if el in topo else 'NO'}"
               + ("" if ok else (" - an island fed only through it has NaN results but is not reported unsupplied" if el in topo else
                                 " - buses connected only through it are reported unsupplied but are solved")), fu.loc())
    ctx.require_min(R, 6)

    R2 = "SLACK-DEF"
    ctx.rule(R2, "the slack set of unsupplied_buses (ext_grid in service; gen in service and slack; vsc in service in slack mode) matches "
                 "the elements that make a reference bus in the ppc")
    t = ast.unparse(fu.node).replace('"', "'")
    for frag, what in (("net.ext_grid[net.ext_grid.in_service].bus", "in-service ext_grids"),
                       ("net.gen[net.gen.in_service & net.gen.slack].bus", "in-service slack gens"),
                       ("net.vsc[net.vsc.in_service & (net.vsc.control_mode_ac == 'slack')].bus", "in-service VSCs in slack mode")):
        ctx.ob(R2, f"{GS}::unsupplied_buses::{what.replace(' ', '-')}", frag in t, f"topology slack set contains {what}", fu.loc())
    itb, frb = facts.analyse(ctx.repo, "pandapower.build_bus:set_reference_buses", args={"mode": const("pf")}, schema_cols=True)
    deps = set()
    for s in itb.stores:
        if s.path == "ppc.bus.BUS_TYPE":
            deps |= deps_of(s.value) | deps_of(s.index) | s.ctrl
    for need in ("net.ext_grid.bus", "is.ext_grid", "net.gen.bus", "net.gen.slack", "is.gen"):
        ctx.ob(R2, f"pandapower.build_bus::set_reference_buses::{need}", need in deps, f"reference buses depend on {need}", "pandapower/build_bus.py")
    itv, frv = facts.analyse(ctx.repo, "pandapower.build_bus:_build_vsc_ppc", options={"mode": "pf"}, schema_cols=True)
    vdeps = set()
    for s in itv.stores:
        if s.path == "ppc.bus.BUS_TYPE":
            vdeps |= deps_of(s.value) | deps_of(s.index) | s.ctrl
    ctx.ob(R2, "pandapower.build_bus::_build_vsc_ppc::control_mode_ac", "net.vsc.control_mode_ac" in vdeps,
           "VSC reference buses depend on vsc.control_mode_ac", "pandapower/build_bus.py")

    R3 = "NAN-ORDER"
    ctx.rule(R3, "result extraction marks isolated buses (BUS_TYPE == NONE) with NaN VM/VA before reading any result")
    for fn in ("_extract_results", "_extract_results_3ph", "_extract_results_se"):
        fi = ctx.repo.func(f"pandapower.results:{fn}")
        first = None
        for st in fi.node.body:
            cs = [call_name(c) for c in calls_in(st)]
            cs = [c for c in cs if c]
            if cs:
                first = cs[0]
                break
        ctx.ob(R3, f"pandapower.results::{fn}::first-call", first == "_set_buses_out_of_service",
               f"first call of {fn} is {first}", fi.loc())
    its, frs = facts.analyse(ctx.repo, "pandapower.results_bus:_set_buses_out_of_service")
    for col in ("VM", "VA"):
        ss = [s for s in its.stores if s.path == f"ppc.bus.{col}"]
        ok = bool(ss) and all("ppc.bus.BUS_TYPE" in deps_of(s.index) for s in ss) and all(not deps_of(s.value) for s in ss)
        ctx.ob(R3, f"pandapower.results_bus::_set_buses_out_of_service::{col}", ok, f"NaN is written to {col} for rows selected by BUS_TYPE", "pandapower/results_bus.py")
    fsb = ctx.repo.func("pandapower.results_bus:_set_buses_out_of_service")
    ok = any(isinstance(c, ast.Compare) and "BUS_TYPE" in ast.unparse(c.left) and ast.unparse(c.comparators[0]) == "NONE" and isinstance(c.ops[0], ast.Eq)
             for c in ast.walk(fsb.node))
    ctx.ob(R3, "pandapower.results_bus::_set_buses_out_of_service::selector", ok, "rows are selected by BUS_TYPE == NONE", fsb.loc())

    R4 = "FINAL-MASK"
    ctx.rule(R4, "_pd2ppc: after the connectivity check net['_is_elements'] = net['_is_elements_final'] (recomputed with the isolated buses)")
    fp = ctx.repo.func("pandapower.pd2ppc:_pd2ppc")
    t = ast.unparse(fp.node).replace('"', "'")
    ok = "net['_is_elements'] = net['_is_elements_final']" in t and "_select_is_elements_numba(net, net._isolated_buses" in t
    pos1 = t.find("_check_connectivity(ppc)")
    pos2 = t.find("net['_is_elements'] = net['_is_elements_final']")
    ctx.ob(R4, "pandapower.pd2ppc::_pd2ppc::final-mask", ok and 0 <= pos1 < pos2,
           "final in-service masks replace the initial ones after the connectivity check", fp.loc())


    # every contribution to the bus demand / result of an element is masked by the connectivity-aware mask
    R5 = "ELEMENT-MASK"
    ctx.rule(R5, "the bus demand built by _calc_pq_elements_and_add_on_ppc and the element results written by "
                 "write_pq_results_to_element use the connectivity-aware masks net._is_elements[...] (is.<element>), never the raw "
                 "in_service column: elements at unsupplied buses must contribute and report nothing")
    n5 = 0
    for fq, opts in (("pandapower.build_bus:_calc_pq_elements_and_add_on_ppc", {"mode": "pf", "voltage_depend_loads": False}),):
        it, fr = facts.analyse(ctx.repo, fq, options=opts, schema_cols=True)
        for col in ("PD", "QD"):
            for s_ in it.stores:
                if s_.path != f"ppc.bus.{col}" or s_.value.shape is None:
                    continue
                try:
                    monos = list(s_.value.shape)
                except TypeError:
                    continue
                for m in monos:
                    els = {a.split(".")[1] for a in m.facs if a.startswith("net.") and a.count(".") >= 2}
                    for el in sorted(els):
                        n5 += 1
                        raw = f"net.{el}.in_service" in m.facs
                        masked = f"is.{el}" in m.facs
                        ctx.ob(R5, f"pandapower.build_bus::_calc_pq_elements_and_add_on_ppc::{col}:{el}", masked and not raw,
                               f"{el} contributes to {col} through is.{el}" if masked and not raw else
                               f"the {el} term of {col} is masked by " + ("the raw in_service column" if raw else "nothing") +
                               f" instead of net._is_elements['{el}']: a {el} at an unsupplied bus still loads it (non-zero results at a dead bus)",
                               "pandapower/build_bus.py")
    if n5 < 12:
        ctx.fail(f"ELEMENT-MASK: only {n5} element terms of the bus demand found")
    from rules import _lints
    _lints.both_switch_ends(ctx, "FUSE-BOTH-ENDS")
    RO = "OOS-BRANCH-ROW"
    ctx.rule(RO, "_branches_with_oos_buses addresses the ppc branch row of a line at an out-of-service bus by the position of the line in the "
                 "whole line table (ppc['branch'] has a row for every line): the row index is derived from net[line_table].index")
    fob = ctx.repo.func("pandapower.build_branch:_branches_with_oos_buses")
    st = next((x for x in ast.walk(fob.node) if isinstance(x, ast.Assign) and norm(x.targets[0], 30).replace(" ", "") == "ls_info[:,2]"), None)
    v = norm(st.value, 160).replace(" ", "") if st is not None else ""
    ok = st is not None and "net[line_table].index" in v
    ctx.ob(RO, "pandapower.build_branch::_branches_with_oos_buses::row-in-line-table", ok, f"row = {v[:100]}" if ok else
           f"`ls_info[:, 2] = {v[:100]}` counts positions among the in-service lines: with an out-of-service line stored before it another line is opened", fob.loc(st) if st is not None else fob.loc())
    RT = "TYPE-LOOP"
    ctx.rule(RT, "loops over a literal list of element types in the ppc builders and the topology graph builder contain no return / "
                 "break: open switches, in-service masks and edges are handled for every listed type, not only up to the first hit")
    _lints.type_loop_complete(ctx, RT, [f for mn in ("pandapower.build_branch", "pandapower.build_bus", "pandapower.build_gen", "pandapower.pd2ppc",
                                                      "pandapower.auxiliary", "pandapower.topology.create_graph")
                                        for f in ctx.repo.module(mn).functions.values()], minimum=5)
    _lints.dup_sweep(ctx, "DUP-OPERAND", ["pandapower.build_bus", "pandapower.pd2ppc", "pandapower.topology.create_graph",
                                         "pandapower.topology.graph_searches", "pandapower.results_bus"])
    # create_nxgraph adds the buses that no branch touched: all of them (out-of-service ones are removed afterwards)
    R6 = "ISOLATED-NODES"
    ctx.rule(R6, "create_nxgraph adds every bus of net.bus.index that no edge touched; the guard counts all buses, not a subset")
    fg2 = ctx.repo.func(f"{CG}:create_nxgraph")
    found = False
    for node in ast.walk(fg2.node):
        if isinstance(node, ast.If) and "mg.nodes()" in ast.unparse(node.test) and isinstance(node.test, ast.Compare):
            body = ast.unparse(node)
            if "add_node" not in body and "add_vertex" not in body:
                continue
            found = True
            t = ast.unparse(node.test)
            ok = "in_service" not in t and ("net.bus.index" in t or "len(net.bus)" in t) and "set(net.bus.index) - set(mg.nodes())" in body
            ctx.ob(R6, f"{CG}::create_nxgraph::add-untouched-buses", ok,
                   "buses without any edge are added as isolated nodes" if ok else
                   f"guard `{t}`: an in-service bus without edges is not added when out-of-service buses already are nodes - it is missing from "
                   "the graph and from every component", fg2.loc(node))
    if not found:
        # unconditional add is fine as well
        ok = "set(net.bus.index) - set(mg.nodes())" in ast.unparse(fg2.node)
        ctx.ob(R6, f"{CG}::create_nxgraph::add-untouched-buses", ok, "buses without any edge are added as isolated nodes", fg2.loc())


def variants(repo):
    g = "pandapower/topology/graph_searches.py"
    r = "pandapower/results.py"
    rb = "pandapower/results_bus.py"
    V = Variant
    return [
        V("oos-bus line addressed among in-service lines", "pandapower/build_branch.py", replace_once("ls_info[:, 2] = np.nonzero(np.isin(net[line_table].index, line_is_idx[mask_or]))[0]", "ls_info[:, 2] = np.nonzero(mask_or)[0]"), "OOS-BRANCH-ROW"),
        V("open-switch neglect stops after the first branch type", "pandapower/build_branch.py", in_function("_switch_branches", replace_once('            ppc["branch"][sw_branch_index, BR_STATUS] = 0\n            continue', '            ppc["branch"][sw_branch_index, BR_STATUS] = 0\n            return')), "TYPE-LOOP"),
        V("motor masked by the raw in_service column", "pandapower/build_bus.py", in_function("_get_motor_pq", replace_once('active = net._is_elements["motor"]', 'active = tab["in_service"].values.astype(bool)')), "ELEMENT-MASK"),
        V("bb switch mask tests bus twice", "pandapower/build_bus.py", in_function("create_bus_lookup", replace_once('np.isin(net["switch"]["element"].values, bus_is_idx))', 'np.isin(net["switch"]["bus"].values, bus_is_idx))')), "FUSE-BOTH-ENDS"),
        V("untouched buses counted against in-service buses", "pandapower/topology/create_graph.py", replace_once("if len(mg.nodes()) < len(net.bus.index):", "if len(mg.nodes()) < np.count_nonzero(net.bus.in_service.values):"), "ISOLATED-NODES"),
        V("slack gens without slack flag", g, in_function("unsupplied_buses", replace_once("net.gen[net.gen.in_service & net.gen.slack].bus.values", "net.gen[net.gen.in_service].bus.values")), "SLACK-DEF"),
        V("nan marking after reading", r, in_function("_extract_results", lambda s: s.replace("    _set_buses_out_of_service(ppc)  # for NaN results in net.res_bus for inactive buses\n", "", 1).replace("    bus_lookup_aranged = _get_aranged_lookup(net)\n", "    bus_lookup_aranged = _get_aranged_lookup(net)\n    _set_buses_out_of_service(ppc)\n", 1)), "NAN-ORDER"),
        V("nan for PQ buses", rb, in_function("_set_buses_out_of_service", replace_once('ppc["bus"][:, BUS_TYPE] == NONE', 'ppc["bus"][:, BUS_TYPE] == 1')), "selector"),
        V("impedance not in default graph", "pandapower/topology/create_graph.py", replace_once("include_impedances=True,", "include_impedances=False,"), "impedance"),
    ]
