"""C13 - controller loop terminates with converged controllers and fresh results: structural clauses.

Decided:
 * ORDER     levels ascending (sorted, not reversed), per level ascending order (argsort, not reversed, same
             permutation for controllers and nets), only in-service controllers; the loops over levels and over the
             controllers of a level run in list order
 * LOOP      every control step that changed something is followed by an evaluation of the net before the loop
             condition is looked at again; the loop bound and the not-converged raise are complementary; a step
             function reports "converged" only if no controller was stepped; run_control finalises after the loop
 * TAP-WRITE who may write tap_pos in pandapower/control: the two tap controllers' control_step (generic
             variable-driven writers excluded)
 * TAP-DISCRETE  every -1 step is guarded by tap_pos > tap_min, every +1 step by tap_pos < tap_max (same mask); the
             two sign branches are mirror images; is_converged tests the limit that guards the step of the same
             (sign branch, voltage condition); the band test uses the thresholds of the step conditions
 * TAP-CONTINUOUS  the value written passes np.clip(., tap_min, tap_max) under check_tap_bounds; the direction of the
             update agrees with the limit pairing of is_converged
 * TAP-PARAM tap_min / tap_max are read from their own columns; scalar and array variants of the side/sign
             coefficients apply the same flips
Not decided: that the loop converges, that voltages end inside the band (numerical).
"""
import ast

from ppsa.astutil import norm, dotted, calls_in, call_name, names_in, last_attr, walk_no_nested, stmts_in_order
from ppsa.selftest import Variant, replace_once, in_function

RC = "pandapower.control.run_control"
DT = "pandapower.control.controller.trafo.DiscreteTapControl"
CT = "pandapower.control.controller.trafo.ContinuousTapControl"
TC = "pandapower.control.controller.trafo_control"


# ------------------------------------------------------------------------------------------------ helpers
def _reversed(expr) -> bool:
    """does the expression reverse an ordering: reversed(..), [::-1], reverse=True, -x inside argsort/sorted"""
    for n in ast.walk(expr):
        if isinstance(n, ast.Call):
            if call_name(n) in ("reversed", "np.flip", "np.flipud", "flip"):
                return True
            for kw in n.keywords:
                if kw.arg == "reverse" and not (isinstance(kw.value, ast.Constant) and kw.value.value is False):
                    return True
                if kw.arg == "ascending" and isinstance(kw.value, ast.Constant) and kw.value.value is False:
                    return True
            if last_attr(n) in ("argsort", "sorted", "sort", "sort_values"):
                for a in list(n.args) + ([n.func.value] if isinstance(n.func, ast.Attribute) else []):
                    if isinstance(a, ast.UnaryOp) and isinstance(a.op, ast.USub):
                        return True
        if isinstance(n, ast.Subscript) and isinstance(n.slice, ast.Slice):
            st = n.slice.step
            if isinstance(st, ast.UnaryOp) and isinstance(st.op, ast.USub):
                return True
            if isinstance(st, ast.Constant) and isinstance(st.value, int) and st.value < 0:
                return True
    return False


def _atoms(cond):
    """flatten a conjunction (np.logical_and / & / and) into its Compare atoms"""
    if isinstance(cond, ast.Call) and last_attr(cond) == "logical_and":
        out = []
        for a in cond.args:
            out += _atoms(a)
        return out
    if isinstance(cond, ast.BinOp) and isinstance(cond.op, ast.BitAnd):
        return _atoms(cond.left) + _atoms(cond.right)
    if isinstance(cond, ast.BoolOp) and isinstance(cond.op, ast.And):
        out = []
        for v in cond.values:
            out += _atoms(v)
        return out
    return [cond]


def _disj(cond):
    if isinstance(cond, ast.Call) and last_attr(cond) == "logical_or":
        out = []
        for a in cond.args:
            out += _disj(a)
        return out
    if isinstance(cond, ast.BinOp) and isinstance(cond.op, ast.BitOr):
        return _disj(cond.left) + _disj(cond.right)
    return [cond]


OPS = {ast.Lt: "<", ast.Gt: ">", ast.LtE: "<=", ast.GtE: ">=", ast.Eq: "==", ast.NotEq: "!="}
FLIP = {"<": ">", ">": "<", "<=": ">=", ">=": "<=", "==": "==", "!=": "!="}


def _cmp(node):
    """(left, op, right) of a simple comparison with names as dotted strings; None otherwise"""
    if isinstance(node, ast.Compare) and len(node.ops) == 1 and type(node.ops[0]) in OPS:
        l, r = dotted(node.left) or norm(node.left, 60), dotted(node.comparators[0]) or norm(node.comparators[0], 60)
        return l, OPS[type(node.ops[0])], r
    return None


def _vm_tap(atoms):
    """split the atoms of a conjunction into the voltage comparison and the tap comparison, both normalised to
    (variable op bound)"""
    vm = tap = None
    for a in atoms:
        c = _cmp(a)
        if c is None:
            continue
        l, op, r = c
        if "tap_pos" in r and "tap_pos" not in l:
            l, op, r = r, FLIP[op], l
        if "vm_pu" == l.split(".")[-1] or l.endswith("vm_pu") and "self." not in l:
            vm = (l, op, r)
        elif l.split(".")[-1] == "vm_pu" or r.split(".")[-1] == "vm_pu" and "self." not in r:
            vm = (r, FLIP[op], l)
        if "tap_pos" in l:
            tap = (l, op, r)
    return vm, tap


def _where(call):
    return isinstance(call, ast.Call) and last_attr(call) == "where" and len(call.args) == 3


def _const_int(node):
    if isinstance(node, ast.Constant) and isinstance(node.value, (int, float)):
        return node.value
    if isinstance(node, ast.UnaryOp) and isinstance(node.op, ast.USub) and isinstance(node.operand, ast.Constant):
        return -node.operand.value
    return None


def _step_cases(expr):
    """nested np.where(cond, step, np.where(cond2, step2, default)) -> [(cond, step)], default"""
    cases = []
    cur = expr
    while _where(cur):
        s = _const_int(cur.args[1])
        cases.append((cur.args[0], s))
        cur = cur.args[2]
    return cases, _const_int(cur)


def _is_sign_test(node):
    t = norm(node)
    return "tap_side_coeff" in t and "tap_sign" in t and t.endswith("==1")


# ------------------------------------------------------------------------------------------------ rules
def rule_order(ctx):
    R = "ORDER"
    ctx.rule(R, "get_controller_order: level list = sorted(set(levels)) not reversed; per level the controllers and the nets are "
                "permuted by order.argsort() (ascending, same permutation), only in_service rows are selected; the callers iterate "
                "the lists in order")
    fi = ctx.repo.func(f"{RC}:get_controller_order")
    # level list
    asg = [n for n in ast.walk(fi.node) if isinstance(n, ast.Assign) and any(isinstance(t, ast.Name) and t.id == "level_list" for t in n.targets)]
    if len(asg) != 1:
        ctx.fail("get_controller_order: single assignment of level_list not found")
    v = asg[0].value
    ok = isinstance(v, ast.Call) and call_name(v) == "sorted" and not _reversed(v)
    ctx.ob(R, f"{RC}::get_controller_order::levels-ascending", ok,
           "level_list = sorted(...) ascending" if ok else f"level_list is '{norm(v, 60)}': levels are not in ascending order", fi.loc(asg[0]))
    loops = [n for n in ast.walk(fi.node) if isinstance(n, ast.For) and "level_list" in names_in(n.iter)]
    ok = len(loops) == 1 and isinstance(loops[0].iter, ast.Name)
    ctx.ob(R, f"{RC}::get_controller_order::levels-iterated-in-order", ok,
           "the level loop iterates level_list itself" if ok else "the level loop does not iterate level_list in its own order", fi.loc(loops[0]) if loops else fi.loc())
    if not loops:
        ctx.fail("get_controller_order: level loop not found")
    loop = loops[0]
    # appended per-level list
    app = [c for c in calls_in(loop) if last_attr(c) == "append" and "controller_order" in norm(c.func)]
    if len(app) != 1:
        ctx.fail("get_controller_order: controller_order.append(...) not found")
    arg = app[0].args[0]
    perms = [n for n in ast.walk(arg) if isinstance(n, ast.Call) and last_attr(n) == "argsort"]
    subs = [n for n in ast.walk(arg) if isinstance(n, ast.Subscript) and any(p is x for p in perms for x in ast.walk(n.slice))]
    ok = len(perms) >= 2 and len({norm(p) for p in perms}) == 1 and not _reversed(arg) and len(subs) >= 2
    ctx.ob(R, f"{RC}::get_controller_order::order-ascending-same-permutation", ok,
           "controllers and nets of a level are permuted by the same ascending argsort of 'order'" if ok else
           f"per-level list '{norm(arg, 90)}' is not an ascending argsort applied to both controllers and nets", fi.loc(app[0]))
    # the argsort receiver is the 'order' column restricted to the selected rows
    recv = perms[0].func.value if perms else None
    defs = {n.targets[0].elts[i].id: n.value.elts[i] for n in ast.walk(loop) if isinstance(n, ast.Assign) and isinstance(n.targets[0], ast.Tuple)
            and isinstance(n.value, ast.Tuple) and len(n.value.elts) == len(n.targets[0].elts)
            for i in range(len(n.targets[0].elts)) if isinstance(n.targets[0].elts[i], ast.Name)}
    src = norm(defs.get(dotted(recv), recv)) if recv is not None else ""
    ok = "'order'" in src.replace('"', "'") or ".order" in src
    ctx.ob(R, f"{RC}::get_controller_order::sorted-by-order-column", ok,
           "the permutation is the argsort of controller['order']" if ok else f"the permutation sorts '{src}', not the order column", fi.loc(app[0]))
    # in_service
    ta = [n for n in ast.walk(loop) if isinstance(n, ast.Assign) and any(isinstance(t, ast.Name) and t.id == "to_add" for t in n.targets)]
    ok = bool(ta) and "in_service" in norm(ta[0].value) and isinstance(ta[0].value, ast.BinOp) and isinstance(ta[0].value.op, ast.BitAnd)
    ctx.ob(R, f"{RC}::get_controller_order::only-in-service", ok,
           "only in-service controllers of the level are selected" if ok else "the level selection no longer depends on controller.in_service", fi.loc(ta[0]) if ta else fi.loc())
    # levels are floats on purpose ("so that a new level can be added in between"): no integer coercion on the way
    lv = [n for n in ast.walk(fi.node) if isinstance(n, ast.Assign) and any(isinstance(t, ast.Name) and t.id in ("level", "level_list") for t in n.targets)]
    bad = None
    for a_ in lv:
        for n in ast.walk(a_.value):
            if (isinstance(n, ast.Name) and n.id in ("int", "round")) or (isinstance(n, ast.Attribute) and n.attr in ("int64", "int32", "int_", "intp", "floor", "ceil", "rint", "trunc")) \
                    or (isinstance(n, ast.Constant) and n.value in ("int", "int64", "int32")):
                bad = a_
    ctx.ob(R, f"{RC}::get_controller_order::levels-not-truncated", bad is None,
           "levels keep their (float) values" if bad is None else
           f"`{norm(bad, 80)}` coerces levels to integers: fractional levels collapse onto their neighbours and run in the wrong order", fi.loc(bad) if bad else fi.loc())
    # every controller is asked whether it needs an initial run
    fc = ctx.repo.func(f"{RC}:check_for_initial_run")
    inner = [n for n in ast.walk(fc.node) if isinstance(n, ast.For) and "levelorder" in names_in(n.iter) and isinstance(n.target, ast.Tuple)]
    ok = False
    if inner:
        for st in inner[0].body:
            if isinstance(st, ast.If) and "initial_run" in norm(st.test) and "ctrl.index" in norm(st.test) and \
                    any(isinstance(x, ast.Return) and isinstance(x.value, ast.Constant) and x.value.value is True for x in st.body):
                ok = True
    ctx.ob(R, f"{RC}::check_for_initial_run::per-controller", ok,
           "the initial_run flag of every controller is examined" if ok else
           "the initial_run test is not inside the loop over the controllers of a level: only the last controller of a level decides "
           "whether an initial power flow is made", fc.loc())
    # callers iterate in order
    for fn, it in (("control_implementation", "controller_order"), ("_control_step", "levelorder"), ("control_initialization", "controller_order"),
                   ("control_finalization", "controller_order")):
        f = ctx.repo.func(f"{RC}:{fn}")
        fl = [n for n in walk_no_nested(f.node) if isinstance(n, ast.For) and it in names_in(n.iter)]
        ok = bool(fl) and all(isinstance(n.iter, ast.Name) for n in fl)
        ctx.ob(R, f"{RC}::{fn}::iterates-{it}-in-order", ok,
               f"{fn} iterates {it} in list order" if ok else f"{fn} iterates '{norm(fl[0].iter, 50) if fl else '?'}' instead of {it} in order", f.loc(fl[0]) if fl else f.loc())


def rule_loop(ctx):
    R = "LOOP"
    ctx.rule(R, "control_implementation: while body = step, then `if not <stepped-converged>:` evaluate the net (result kept); loop "
                "bound and raise condition of check_final_convergence are complementary; the final check is unconditional; "
                "_control_step returns True only if no control_step was called; _evaluate_net refreshes 'converged'")
    fi = ctx.repo.func(f"{RC}:control_implementation")
    whiles = [n for n in walk_no_nested(fi.node) if isinstance(n, ast.While)]
    if len(whiles) != 1:
        ctx.fail("control_implementation: while loop not found")
    w = whiles[0]
    # step assignment
    step_var = None
    for st in w.body:
        if isinstance(st, ast.Assign) and isinstance(st.value, ast.Call) and call_name(st.value) == "_control_step" and isinstance(st.targets[0], ast.Name):
            step_var = st.targets[0].id
    if step_var is None:
        ctx.fail("control_implementation: `<var> = _control_step(...)` not found in the loop body")
    # the evaluation guard
    ev_param = "evaluate_net_fct"
    guard = None
    stray = []
    for st in w.body:
        if isinstance(st, ast.If) and any(call_name(c) == ev_param for c in calls_in(st)):
            guard = st
        elif any(call_name(c) == ev_param for c in calls_in(st)):
            stray.append(st)
    ok = guard is not None and isinstance(guard.test, ast.UnaryOp) and isinstance(guard.test.op, ast.Not) and \
        isinstance(guard.test.operand, ast.Name) and guard.test.operand.id == step_var
    ok = ok or bool(stray)  # unconditional evaluation is also fine
    ctx.ob(R, f"{RC}::control_implementation::evaluate-after-every-step", ok,
           f"the net is evaluated whenever {step_var} is false (some controller stepped)" if ok else
           f"the evaluation is guarded by '{norm(guard.test, 60) if guard else 'nothing'}', not by 'not {step_var}': a control step can be "
           "left without a following calculation, the results on return are stale", fi.loc(guard) if guard else fi.loc(w))
    # order: step before evaluation, nothing steps after the evaluation
    idx_step = next(i for i, st in enumerate(w.body) if isinstance(st, ast.Assign) and isinstance(st.value, ast.Call) and call_name(st.value) == "_control_step")
    idx_eval = max(i for i, st in enumerate(w.body) if any(call_name(c) == ev_param for c in calls_in(st))) if (guard or stray) else -1
    later_steps = [st for st in w.body[idx_eval + 1:] if any(call_name(c) in ("_control_step", "control_step") for c in calls_in(st))] if idx_eval >= 0 else [1]
    ok = idx_eval > idx_step and not later_steps
    ctx.ob(R, f"{RC}::control_implementation::evaluation-is-last", ok,
           "the evaluation follows the step and no step follows the evaluation inside an iteration" if ok else
           "a control step can follow the last evaluation of an iteration", fi.loc(w))
    # result of the evaluation kept
    ok = False
    if guard is not None:
        for st in guard.body:
            if isinstance(st, ast.Assign) and isinstance(st.value, ast.Call) and call_name(st.value) == ev_param and norm(st.targets[0]) == "ctrl_variables":
                ok = True
    ctx.ob(R, f"{RC}::control_implementation::evaluation-result-kept", ok or bool(stray),
           "ctrl_variables (with the convergence flag) is taken from the evaluation", fi.loc(guard) if guard else fi.loc(w))
    # loop condition
    conj = _atoms(w.test)
    has_not_conv = any(isinstance(a, ast.UnaryOp) and isinstance(a.op, ast.Not) and isinstance(a.operand, ast.Name) and a.operand.id == step_var for a in conj)
    bound = [c for c in map(_cmp, conj) if c and "run_count" in (c[0], c[2])]
    netc = [a for a in conj if isinstance(a, ast.Name) and a.id == "converged"]
    ctx.ob(R, f"{RC}::control_implementation::loop-continues-while-not-converged", has_not_conv,
           f"the loop runs while not {step_var}" if has_not_conv else f"loop condition '{norm(w.test, 70)}' does not test 'not {step_var}'", fi.loc(w))
    # complement with check_final_convergence
    fc = ctx.repo.func(f"{RC}:check_final_convergence")
    raises = []
    for n in walk_no_nested(fc.node):
        if isinstance(n, ast.If) and any(isinstance(x, ast.Raise) for x in n.body):
            raises.append(n)
    rc = [(_cmp(n.test), n) for n in raises if _cmp(n.test) and "run_count" in _cmp(n.test)]
    NEG = {"<": ">=", ">": "<=", "<=": ">", ">=": "<"}
    ok = False
    detail = ""
    if bound and rc:
        l, op, r = bound[0]
        if l != "run_count":
            l, op, r = r, FLIP[op], l
        (l2, op2, r2), node = rc[0]
        if l2 != "run_count":
            l2, op2, r2 = r2, FLIP[op2], l2
        ok = NEG.get(op) == op2 and r == "max_iter" and r2 == "max_iter"
        detail = f"loop bound 'run_count {op} {r}', raise condition 'run_count {op2} {r2}'"
    ctx.ob(R, f"{RC}::control_implementation::bound-complements-raise", ok,
           "leaving the loop by the iteration bound always raises ControllerNotConverged (" + detail + ")" if ok else
           f"{detail or 'iteration bound / raise condition not found'}: the loop can be left by the bound without the not-converged error",
           fi.loc(w))
    nc = [n for n in raises if isinstance(n.test, ast.UnaryOp) and isinstance(n.test.op, ast.Not) and "net_converged" in names_in(n.test)]
    ok = bool(nc) and bool(netc)
    ctx.ob(R, f"{RC}::check_final_convergence::raises-when-calculation-diverged", ok,
           "a diverged calculation ends the loop and raises NetCalculationNotConverged" if ok else
           "the 'calculation not converged' exit is not followed by a raise", fc.loc())
    # raise types
    names = {dotted(x.exc.func) if isinstance(x.exc, ast.Call) else dotted(x.exc) for n in raises for x in n.body if isinstance(x, ast.Raise) and x.exc is not None}
    ok = {"ControllerNotConverged", "NetCalculationNotConverged"} <= names
    ctx.ob(R, f"{RC}::check_final_convergence::error-types", ok, f"raises {sorted(n for n in names if n)}", fc.loc())
    # the final check is unconditional and last
    last = fi.node.body[-1]
    ok = isinstance(last, ast.Expr) and isinstance(last.value, ast.Call) and call_name(last.value) == "check_final_convergence"
    ctx.ob(R, f"{RC}::control_implementation::final-check-unconditional", ok,
           "check_final_convergence is the last, unconditional statement" if ok else
           f"control_implementation ends with '{norm(last, 60)}': it can return without the final convergence check", fi.loc(last))
    args_ok = ok and len(last.value.args) == 3 and norm(last.value.args[0]) == "run_count" and norm(last.value.args[1]) == "max_iter" \
        and "converged" in norm(last.value.args[2])
    ctx.ob(R, f"{RC}::control_implementation::final-check-arguments", args_ok,
           "the final check receives run_count, max_iter and the net convergence flag", fi.loc(last))
    # _control_step
    fs = ctx.repo.func(f"{RC}:_control_step")
    init_true = any(isinstance(n, ast.Assign) and norm(n.targets[0]) == "converged" and isinstance(n.value, ast.Constant) and n.value.value is True
                    for n in fs.node.body)
    ret = [n for n in walk_no_nested(fs.node) if isinstance(n, ast.Return)]
    ret_ok = len(ret) == 1 and norm(ret[0].value) == "converged"
    steps = []
    for n in walk_no_nested(fs.node):
        body = getattr(n, "body", None)
        if not isinstance(body, list):
            continue
        for blk in (body, getattr(n, "orelse", []) or []):
            for i, st in enumerate(blk):
                if isinstance(st, ast.Expr) and isinstance(st.value, ast.Call) and last_attr(st.value) == "control_step":
                    marks = any(isinstance(s, ast.Assign) and norm(s.targets[0]) == "converged" and isinstance(s.value, ast.Constant)
                                and s.value.value is False for s in blk)
                    guarded = isinstance(n, ast.If) and blk is n.body and isinstance(n.test, ast.UnaryOp) and isinstance(n.test.op, ast.Not) \
                        and isinstance(n.test.operand, ast.Call) and last_attr(n.test.operand) == "is_converged"
                    steps.append((st, marks, guarded))
    if not steps:
        ctx.fail("_control_step: call of control_step not found")
    for st, marks, guarded in steps:
        ctx.ob(R, f"{RC}::_control_step::step-marks-not-converged", marks and init_true and ret_ok,
               "a level reports convergence only if no controller was stepped" if (marks and init_true and ret_ok) else
               "control_step can be called while the level still reports 'converged': no calculation follows the step", fs.loc(st))
        ctx.ob(R, f"{RC}::_control_step::step-only-when-not-converged", guarded,
               "control_step is called only for controllers that report not converged" if guarded else
               "control_step is not guarded by `not ctrl.is_converged(net)`", fs.loc(st))
    # _evaluate_net refreshes the flag after the calculation on every returning path
    fe = ctx.repo.func(f"{RC}:_evaluate_net")
    tail = fe.node.body[-2:] if len(fe.node.body) >= 2 else fe.node.body
    ok = any(isinstance(st, ast.Assign) and "ctrl_variables['converged']" == norm(st.targets[0]).replace('"', "'") and "net['converged']" in norm(st.value).replace('"', "'")
             for st in tail) and isinstance(fe.node.body[-1], ast.Return)
    ctx.ob(R, f"{RC}::_evaluate_net::flag-from-net", ok,
           "ctrl_variables['converged'] is re-read from net['converged'] after every evaluation" if ok else
           "_evaluate_net no longer refreshes the convergence flag from the net after the calculation", fe.loc())
    runs = [c for c in calls_in(fe.node) if call_name(c) == "run_funct"]
    ctx.ob(R, f"{RC}::_evaluate_net::runs-calculation", len(runs) >= 1, f"{len(runs)} call(s) of the run function", fe.loc())
    # run_control order
    fr = ctx.repo.func(f"{RC}:run_control")
    seq = [call_name(c) for st in fr.node.body for c in calls_in(st)
           if call_name(c) in ("control_initialization", "net_initialization", "control_implementation", "control_finalization")]
    ok = seq == ["control_initialization", "net_initialization", "control_implementation", "control_finalization"]
    ctx.ob(R, f"{RC}::run_control::phase-order", ok,
           "initialise controllers, initial calculation, control loop, finalise" if ok else f"phase order is {seq}", fr.loc())
    # net_initialization
    fn = ctx.repo.func(f"{RC}:net_initialization")
    ok = any(isinstance(n, ast.If) and norm(n.test) == "initial_run" and any(call_name(c) == "run_funct" for st in n.body for c in calls_in(st))
             for n in walk_no_nested(fn.node))
    ctx.ob(R, f"{RC}::net_initialization::initial-run", ok, "an initial calculation is made when a controller asks for it", fn.loc())


def rule_tap_write(ctx):
    R = "TAP-WRITE"
    ctx.rule(R, "inside pandapower/control only DiscreteTapControl.control_step and ContinuousTapControl.control_step store a literal "
                "'tap_pos' column (write_to_net(.., 'tap_pos', ..), net[..].tap_pos = .., .loc/.at[.., 'tap_pos'] = ..); the dtype "
                "widening `tap_pos = tap_pos.astype(float)` is value preserving")
    allowed = {f"{DT}:DiscreteTapControl.control_step", f"{CT}:ContinuousTapControl.control_step"}
    n = 0
    for m in ctx.repo.all_modules():
        if not m.name.startswith("pandapower.control"):
            continue
        for fi in m.functions.values():
            for node in walk_no_nested(fi.node):
                hit = None
                if isinstance(node, ast.Call) and call_name(node) == "write_to_net" and len(node.args) >= 4:
                    if isinstance(node.args[3], ast.Constant) and node.args[3].value == "tap_pos":
                        hit = node
                if isinstance(node, (ast.Assign, ast.AugAssign)):
                    ts = node.targets if isinstance(node, ast.Assign) else [node.target]
                    for t in ts:
                        tt = norm(t)
                        if (tt.startswith("net[") or tt.startswith("net.")) and ("tap_pos" in tt):
                            v = node.value
                            if isinstance(v, ast.Call) and last_attr(v) == "astype" and "tap_pos" in norm(v.func):
                                continue
                            hit = node
                if hit is None:
                    continue
                n += 1
                ok = fi.fq in allowed
                ctx.ob(R, f"{m.name}::{fi.qualname}::{norm(hit, 50)}", ok,
                       "tap_pos written by a tap controller's control_step" if ok else
                       f"{fi.qualname} writes tap_pos outside the bound-checked control steps", fi.loc(hit))
    if n < 2:
        ctx.fail("writes of tap_pos in the tap controllers not found")


def _discrete_tables(ctx, fi_step, fi_conv):
    """(sign branch True/False) -> [(vm cmp, tap guard, step)], and -> [(vm cmp, tap == limit)]"""
    inc = [n for n in ast.walk(fi_step.node) if isinstance(n, ast.Assign) and norm(n.targets[0]) == "increment"]
    if len(inc) != 1 or not _where(inc[0].value) or not _is_sign_test(inc[0].value.args[0]):
        ctx.fail("DiscreteTapControl.control_step: increment = np.where(<sign test>, A, B) not recognised")
    top = inc[0].value
    steps = {}
    for br, e in ((True, top.args[1]), (False, top.args[2])):
        cases, default = _step_cases(e)
        rows = []
        for cond, s in cases:
            vm, tap = _vm_tap(_atoms(cond))
            rows.append((vm, tap, s, cond))
        steps[br] = (rows, default)
    rl = [n for n in ast.walk(fi_conv.node) if isinstance(n, ast.Assign) and norm(n.targets[0]) == "reached_limit"]
    if len(rl) != 1 or not _where(rl[0].value) or not _is_sign_test(rl[0].value.args[0]):
        ctx.fail("is_converged: reached_limit = np.where(<sign test>, A, B) not recognised")
    lim = {}
    for br, e in ((True, rl[0].value.args[1]), (False, rl[0].value.args[2])):
        rows = []
        for d in _disj(e):
            vm, tap = _vm_tap(_atoms(d))
            rows.append((vm, tap, d))
        lim[br] = rows
    return inc[0], steps, rl[0], lim


def rule_tap_discrete(ctx):
    R = "TAP-DISCRETE"
    ctx.rule(R, "DiscreteTapControl: step -1 only where tap_pos > tap_min, step +1 only where tap_pos < tap_max (in the same mask as "
                "the voltage condition); default step 0; the two sign branches are mirror images; is_converged accepts 'at the limit' "
                "exactly for the limit that blocks the step needed for that voltage condition; the in-band test uses the same thresholds")
    fs = ctx.repo.func(f"{DT}:DiscreteTapControl.control_step")
    fc = ctx.repo.func(f"{DT}:DiscreteTapControl.is_converged")
    inc, steps, rl, lim = _discrete_tables(ctx, fs, fc)
    want_guard = {-1: (">", "tap_min"), 1: ("<", "tap_max")}
    for br in (True, False):
        rows, default = steps[br]
        ctx.ob(R, f"{DT}::DiscreteTapControl.control_step::branch{int(br)}:default-step-0", default == 0 and len(rows) == 2,
               "no voltage violation -> no step" if default == 0 and len(rows) == 2 else f"default step is {default} with {len(rows)} cases", fs.loc(inc))
        for vm, tap, s, cond in rows:
            key = f"{DT}::DiscreteTapControl.control_step::branch{int(br)}:{'vm' + vm[1] + vm[2].split('.')[-1] if vm else '?'}"
            if s not in want_guard or vm is None:
                ctx.ob(R, key + ":step", False, f"step case '{norm(cond, 70)}' -> {s} not recognised as a single tap step with a voltage condition", fs.loc(inc))
                continue
            op, limname = want_guard[s]
            ok = tap is not None and tap[1] == op and tap[2].split(".")[-1] == limname and tap[0].split(".")[-1] == "tap_pos"
            ctx.ob(R, key + ":guard", ok,
                   f"step {s:+d} is taken only where tap_pos {op} {limname}" if ok else
                   f"step {s:+d} for '{norm(cond, 80)}' is not guarded by tap_pos {op} {limname}: the tap can leave [tap_min, tap_max]", fs.loc(inc))
    # mirror
    def table(br):
        return {(vm[1], vm[2].split(".")[-1]): s for vm, tap, s, c in steps[br][0] if vm}
    a, b = table(True), table(False)
    ok = set(a) == set(b) and all(a[k] == -b[k] for k in a) and len(a) == 2
    ctx.ob(R, f"{DT}::DiscreteTapControl.control_step::mirror", ok,
           "the two tap-direction branches step in opposite directions for the same voltage condition" if ok else
           f"sign branches are not mirror images: {a} vs {b}", fs.loc(inc))
    # thresholds: lower with '<', upper with '>'
    ok = all(((op == "<" and th == "vm_lower_pu") or (op == ">" and th == "vm_upper_pu")) for (op, th) in a)
    ctx.ob(R, f"{DT}::DiscreteTapControl.control_step::thresholds", ok,
           "steps are triggered by vm < vm_lower_pu and vm > vm_upper_pu" if ok else f"step conditions are {sorted(a)}", fs.loc(inc))
    # agreement with is_converged
    for br in (True, False):
        rows = lim[br]
        seen = set()
        for vm, tap, d in rows:
            if vm is None or tap is None:
                ctx.ob(R, f"{DT}::DiscreteTapControl.is_converged::branch{int(br)}:?", False, f"limit term '{norm(d, 70)}' not recognised", fc.loc(rl))
                continue
            k = (vm[1], vm[2].split(".")[-1])
            seen.add(k)
            step = table(br).get(k)
            want = {-1: "tap_min", 1: "tap_max"}.get(step)
            ok = tap[1] == "==" and tap[2].split(".")[-1] == want
            ctx.ob(R, f"{DT}::DiscreteTapControl.is_converged::branch{int(br)}:vm{k[0]}{k[1]}:limit", ok,
                   f"'at the limit' means tap_pos == {want}, the limit that blocks the needed {step:+d} step" if ok else
                   f"for vm {k[0]} {k[1]} the needed step is {step}, blocked at {want}, but is_converged accepts tap_pos {tap[1]} {tap[2].split('.')[-1]}: "
                   "the controller reports convergence at the wrong limit (or never, and the loop ends in ControllerNotConverged)", fc.loc(rl))
        ok = seen == set(table(br))
        ctx.ob(R, f"{DT}::DiscreteTapControl.is_converged::branch{int(br)}:covers-both-directions", ok,
               "both voltage conditions have a limit term" if ok else f"limit terms cover {sorted(seen)}", fc.loc(rl))
    # band and nan
    cv = [n for n in ast.walk(fc.node) if isinstance(n, ast.Assign) and norm(n.targets[0]) == "converged"]
    ok = False
    if cv:
        terms = _disj(cv[0].value)
        band = [t for t in terms if not (isinstance(t, ast.Name) and t.id == "reached_limit")]
        has_limit = any(isinstance(t, ast.Name) and t.id == "reached_limit" for t in terms)
        cmps = [c for t in band for c in map(_cmp, _atoms(t)) if c]
        norm_c = set()
        for l, op, r in cmps:
            if l.split(".")[-1] == "vm_pu" and not l.startswith("self."):
                norm_c.add((op, r.split(".")[-1]))
            else:
                norm_c.add((FLIP[op], l.split(".")[-1]))
        ok = has_limit and norm_c == {(">", "vm_lower_pu"), ("<", "vm_upper_pu")}
    ctx.ob(R, f"{DT}::DiscreteTapControl.is_converged::band", ok,
           "converged = at the needed limit or vm_lower_pu < vm < vm_upper_pu" if ok else
           "the convergence test is not 'at the limit or strictly inside the band of the step thresholds'", fc.loc(cv[0]) if cv else fc.loc())
    _nan_return(ctx, R, DT, "DiscreteTapControl", fc)
    _write_after_update(ctx, R, DT, "DiscreteTapControl", fs, clip_required=False)


def _nan_return(ctx, R, mod, cls, fc):
    rets = [n for n in walk_no_nested(fc.node) if isinstance(n, ast.Return)]
    last = rets[-1] if rets else None
    ok = last is not None and isinstance(last.value, ast.Call) and last_attr(last.value) == "all" and "converged" in names_in(last.value) \
        and "is_nan" in names_in(last.value)
    ctx.ob(R, f"{mod}::{cls}.is_converged::all-converged-or-nan", ok,
           "returns all(converged | unsupplied)" if ok else f"return value is '{norm(last.value, 60) if last else None}'", fc.loc(last) if last else fc.loc())
    first = fc.node.body[0] if not isinstance(fc.node.body[0], ast.Expr) else fc.node.body[1]
    ok = isinstance(first, ast.If) and "nothing_to_do" in norm(first.test) and isinstance(first.body[0], ast.Return) and \
        isinstance(first.body[0].value, ast.Constant) and first.body[0].value.value is True
    ctx.ob(R, f"{mod}::{cls}.is_converged::nothing-to-do", ok, "a controller with nothing to do reports convergence", fc.loc(first))


def _write_after_update(ctx, R, mod, cls, fs, clip_required):
    """write_to_net(.., 'tap_pos', self.tap_pos, ..) is the last store and follows the update (and the clip)"""
    sts = list(stmts_in_order(fs.node.body))
    wr = [i for i, st in enumerate(sts) if isinstance(st, ast.Expr) and isinstance(st.value, ast.Call) and call_name(st.value) == "write_to_net"
          and len(st.value.args) >= 5 and isinstance(st.value.args[3], ast.Constant) and st.value.args[3].value == "tap_pos"]
    if len(wr) != 1:
        ctx.fail(f"{cls}.control_step: single write_to_net(.., 'tap_pos', ..) not found")
    val = norm(sts[wr[0]].value.args[4])
    upd = [i for i, st in enumerate(sts) if isinstance(st, (ast.Assign, ast.AugAssign)) and
           norm(st.targets[0] if isinstance(st, ast.Assign) else st.target) == "self.tap_pos"]
    ok = val == "self.tap_pos" and bool(upd) and max(upd) < wr[0]
    ctx.ob(R, f"{mod}::{cls}.control_step::writes-updated-tap", ok,
           "the value written to the net is self.tap_pos after its last update" if ok else
           f"write_to_net stores '{val}' / self.tap_pos is updated after the write", fs.loc(sts[wr[0]]))
    return sts, wr[0], upd


def _sign_wrt(expr, var, env, depth=0):
    """sign of d expr / d var for expressions built from + - * / with all other factors taken positive, except the
    symbol product tap_side_coeff*tap_sign which is taken as +1 (the `== 1` branch). Returns +1, -1, 0 or None."""
    if depth > 40:
        return None
    if isinstance(expr, ast.Name):
        if expr.id == var:
            return 1
        if expr.id in env:
            return _sign_wrt(env[expr.id], var, env, depth + 1)
        return 0
    if isinstance(expr, ast.Attribute):
        d = dotted(expr) or ""
        if d == var:
            return 1
        if d in env:
            return _sign_wrt(env[d], var, env, depth + 1)
        return 0
    if isinstance(expr, ast.Constant):
        return 0
    if isinstance(expr, ast.UnaryOp) and isinstance(expr.op, ast.USub):
        s = _sign_wrt(expr.operand, var, env, depth + 1)
        return None if s is None else -s
    if isinstance(expr, ast.BinOp):
        a = _sign_wrt(expr.left, var, env, depth + 1)
        b = _sign_wrt(expr.right, var, env, depth + 1)
        if a is None or b is None:
            return None
        if isinstance(expr.op, ast.Add):
            if a == 0:
                return b
            if b == 0 or a == b:
                return a
            return None
        if isinstance(expr.op, ast.Sub):
            if a == 0:
                return -b
            if b == 0 or a == -b:
                return a
            return None
        if isinstance(expr.op, (ast.Mult, ast.Div)):
            if b == 0:
                return a
            if a == 0 and isinstance(expr.op, ast.Mult):
                return b
            return None
    if isinstance(expr, ast.Call):
        # read_from_net(net, "res_bus", self.trafobus, 'vm_pu', flag) is the voltage
        if call_name(expr) == "read_from_net" and len(expr.args) >= 4 and isinstance(expr.args[3], ast.Constant) and expr.args[3].value == "vm_pu":
            return 1 if var == "<vm>" else 0
        if last_attr(expr) == "clip" and expr.args:
            return _sign_wrt(expr.args[0], var, env, depth + 1)
        return None
    return None


def rule_tap_continuous(ctx):
    R = "TAP-CONTINUOUS"
    ctx.rule(R, "ContinuousTapControl.control_step: under check_tap_bounds the new tap passes np.clip(., tap_min, tap_max) before it is "
                "written; the tap moves with the sign of (vm - vm_set) * tap_side_coeff * tap_sign and is_converged pairs vm < vm_set "
                "with tap_min (and vm > vm_set with tap_max) for coefficient +1, mirrored for -1")
    fs = ctx.repo.func(f"{CT}:ContinuousTapControl.control_step")
    fc = ctx.repo.func(f"{CT}:ContinuousTapControl.is_converged")
    sts, wr, upd = _write_after_update(ctx, R, CT, "ContinuousTapControl", fs, True)
    clip = None
    for i, st in enumerate(sts):
        if isinstance(st, ast.If) and "check_tap_bounds" in norm(st.test):
            for s in st.body:
                if isinstance(s, ast.Assign) and norm(s.targets[0]) == "self.tap_pos" and isinstance(s.value, ast.Call) and last_attr(s.value) == "clip":
                    clip = (i, st, s)
    ok = False
    why = "no `if self.check_tap_bounds: self.tap_pos = np.clip(...)`"
    if clip:
        i, st, s = clip
        a = s.value.args
        kw = {k.arg: k.value for k in s.value.keywords}
        lo = norm(a[1]) if len(a) > 1 else norm(kw.get("a_min", kw.get("min", ast.Constant(None))))
        hi = norm(a[2]) if len(a) > 2 else norm(kw.get("a_max", kw.get("max", ast.Constant(None))))
        plain = norm(st.test) in ("self.check_tap_bounds",)
        ok = norm(a[0]) == "self.tap_pos" and lo == "self.tap_min" and hi == "self.tap_max" and i < wr and plain and \
            all(u < i or sts[u] is s for u in upd)
        why = f"clip({norm(a[0])}, {lo}, {hi}) under '{norm(st.test)}'"
    ctx.ob(R, f"{CT}::ContinuousTapControl.control_step::clip-before-write", ok,
           "self.tap_pos = np.clip(self.tap_pos, self.tap_min, self.tap_max) is the last update before the write" if ok else
           f"{why}: with check_tap_bounds the tap written to the net can leave [tap_min, tap_max]", fs.loc(clip[2]) if clip else fs.loc())
    # direction
    env = {}
    for st in sts:
        if isinstance(st, ast.Assign) and len(st.targets) == 1:
            t = dotted(st.targets[0])
            if t and t not in env and not (isinstance(st.value, ast.Call) and last_attr(st.value) == "clip"):
                env[t] = st.value
    upd_st = [st for st in sts if isinstance(st, ast.Assign) and norm(st.targets[0]) == "self.tap_pos" and
              not (isinstance(st.value, ast.Call) and last_attr(st.value) == "clip")]
    sgn = None
    if upd_st:
        e = dict(env)
        e.pop("self.tap_pos", None)
        sgn = _sign_wrt(upd_st[0].value, "<vm>", e)
        uses = norm(upd_st[0].value)
        if not ("tap_side_coeff" in uses and "tap_sign" in uses):
            sgn = None
    rl = [n for n in ast.walk(fc.node) if isinstance(n, ast.Assign) and norm(n.targets[0]) == "reached_limit"]
    if len(rl) != 1 or not _where(rl[0].value) or not _is_sign_test(rl[0].value.args[0]):
        ctx.fail("ContinuousTapControl.is_converged: reached_limit = np.where(<sign test>, A, B) not recognised")
    for br, e_ in ((True, rl[0].value.args[1]), (False, rl[0].value.args[2])):
        pairs = {}
        for d in _disj(e_):
            vm, tap = _vm_tap(_atoms(d))
            if vm and tap and tap[1] == "==":
                pairs[(vm[1], vm[2].split(".")[-1])] = tap[2].split(".")[-1]
        s = sgn if br else (-sgn if sgn is not None else None)
        want = None
        if s is not None:
            # positive slope: low voltage -> tap goes down -> blocked at tap_min
            want = {("<", "vm_set_pu"): "tap_min" if s > 0 else "tap_max", (">", "vm_set_pu"): "tap_max" if s > 0 else "tap_min"}
        ok = want is not None and pairs == want
        ctx.ob(R, f"{CT}::ContinuousTapControl.is_converged::branch{int(br)}:limit-pairing", ok,
               f"limit pairing {pairs} agrees with the direction of the control step" if ok else
               f"control step moves the tap with sign {s} of (vm - vm_set) in this branch, which needs {want}; is_converged has {pairs}", fc.loc(rl[0]))
    # tolerance test
    cv = [n for n in ast.walk(fc.node) if isinstance(n, ast.Assign) and norm(n.targets[0]) == "converged"]
    ok = len(cv) == 2 and all("np.abs(difference)<self.tol" in norm(n.value) for n in cv) and any("reached_limit" in norm(n.value) for n in cv)
    ctx.ob(R, f"{CT}::ContinuousTapControl.is_converged::tolerance", ok,
           "converged = at the needed limit or |1 - vm_set/vm| < tol" if ok else "the tolerance test is not recognised", fc.loc())
    df = [n for n in ast.walk(fc.node) if isinstance(n, ast.Assign) and norm(n.targets[0]) == "difference"]
    ok = bool(df) and norm(df[0].value) == "1-self.vm_set_pu/vm_pu"
    ctx.ob(R, f"{CT}::ContinuousTapControl.is_converged::difference", ok, "difference = 1 - vm_set_pu / vm_pu", fc.loc(df[0]) if df else fc.loc())
    _nan_return(ctx, R, CT, "ContinuousTapControl", fc)


def rule_converged_abs(ctx):
    """a controller that has just written new set values may report convergence only if the set values did not move by more than the
    tolerance in either direction"""
    R = "CONV-ABS"
    ctx.rule(R, "is_converged of the controllers under pandapower/control/controller compares the magnitude of a deviation with its "
                "tolerance: in `<deviation> < tol` the deviation is wrapped in abs()/np.abs() (or the test is np.allclose/np.isclose)")
    n = 0
    for mn in ctx.repo.module_names():
        if not mn.startswith("pandapower.control.controller"):
            continue
        for fi in ctx.repo.module(mn).functions.values():
            if fi.name != "is_converged":
                continue
            for c in ast.walk(fi.node):
                if not (isinstance(c, ast.Compare) and len(c.ops) == 1 and isinstance(c.ops[0], (ast.Lt, ast.LtE))):
                    continue
                rhs = norm(c.comparators[0], 60)
                if not any(k in rhs for k in ("tol", "epsilon", "_error")):
                    continue
                lhs = c.left
                if isinstance(lhs, (ast.Constant,)) or norm(lhs, 60).startswith(("len(", "self.tap_")):
                    continue
                n += 1
                t = norm(lhs, 80)
                ok = t.startswith(("abs(", "np.abs(", "np.absolute(", "numpy.abs(")) or ".abs()" in t
                ctx.ob(R, f"{mn}::{fi.qualname}::{t[:40]}<{rhs[:20]}", ok,
                       f"|deviation| compared with {rhs}" if ok else
                       f"`{norm(c, 80)}` compares a signed deviation with the tolerance: any decrease counts as converged, the values written in this "
                       "call are never followed by a power flow", fi.loc(c))
    if n < 2:
        ctx.fail(f"CONV-ABS: only {n} tolerance comparisons found in is_converged methods")


def rule_tap_param(ctx):
    R = "TAP-PARAM"
    ctx.rule(R, "TrafoController._set_tap_parameters reads each tap parameter from the column of the same name; the scalar and the "
                "array variant of tap_side_coeff / tap_sign apply the same flips")
    fp = ctx.repo.func(f"{TC}:TrafoController._set_tap_parameters")
    for name in ("tap_min", "tap_max", "tap_neutral", "tap_step_percent", "tap_step_degree", "tap_pos"):
        asg = [n for n in walk_no_nested(fp.node) if isinstance(n, ast.Assign) and norm(n.targets[0]) == f"self.{name}" and
               isinstance(n.value, ast.Call) and call_name(n.value) == "read_from_net"]
        ok = len(asg) >= 1 and all(len(a.value.args) >= 4 and isinstance(a.value.args[3], ast.Constant) and a.value.args[3].value == name and
                                   norm(a.value.args[1]) == "self.element" and norm(a.value.args[2]) == "self.element_index" for a in asg)
        ctx.ob(R, f"{TC}::TrafoController._set_tap_parameters::{name}", ok,
               f"self.{name} is read from column '{name}' of the controlled transformer" if ok else
               f"self.{name} is not read from column '{name}' of self.element at self.element_index", fp.loc(asg[0]) if asg else fp.loc())
    # the limits are re-read at the start of every control run (the user may have changed the tap range since the controller was created)
    fic = ctx.repo.func(f"{TC}:TrafoController.initialize_control")
    calls = [call_name(c) or (c.func.attr if isinstance(c.func, ast.Attribute) else "") for c in calls_in(fic.node)]
    calls = [c.split(".")[-1] for c in calls]
    ok = "_set_tap_parameters" in calls and "_set_tap_side_coeff" in calls and calls.index("_set_tap_parameters") < calls.index("_set_tap_side_coeff")
    ctx.ob(R, f"{TC}::TrafoController.initialize_control::re-read", ok,
           "initialize_control re-reads all tap parameters, then the side coefficients" if ok else
           f"initialize_control calls {calls}: tap_min / tap_max / tap_step_percent keep their creation-time values, a changed tap range is ignored", fic.loc())
    fnd = ctx.repo.func(f"{TC}:TrafoController.nothing_to_do")
    eg = next((st for st in ast.walk(fnd.node) if isinstance(st, ast.Assign) and norm(st.targets[0]) == "ext_grid_bus"), None)
    v = norm(eg.value, 200) if eg is not None else ""
    ok = eg is not None and "in_service" in v and "ext_grid" in v
    ctx.ob(R, f"{TC}::TrafoController.nothing_to_do::ext-grid-in-service", ok,
           "a transformer is left uncontrolled only when an IN-SERVICE ext_grid holds the voltage of its controlled bus" if ok else
           f"`ext_grid_bus = {v[:90]}` also counts out-of-service ext_grids: a controller at such a bus does nothing and reports convergence", fnd.loc(eg) if eg is not None else fnd.loc())
    fcf = ctx.repo.func(f"{TC}:TrafoController._set_tap_side_coeff")
    br = [n for n in walk_no_nested(fcf.node) if isinstance(n, ast.If) and "single_index" in norm(n.test)]
    if not br:
        ctx.fail("_set_tap_side_coeff: single_index branch not found")
    sc, ar = br[0].body, br[0].orelse

    def flips(block):
        out = set()
        base = None
        for st in ast.walk(ast.Module(body=block, type_ignores=[])):
            if isinstance(st, ast.Assign) and norm(st.targets[0]) == "self.tap_side_coeff":
                v = norm(st.value).replace('"', "'")
                base = "hv:+1" if (("1iftap_side=='hv'else-1" in v) or ("where(tap_side=='hv',1,-1)" in v)) else v
            if isinstance(st, ast.AugAssign) and isinstance(st.op, ast.Mult) and _const_int(st.value) == -1:
                t = norm(st.target).replace('"', "'")
                if t == "self.tap_side_coeff":
                    # scalar: condition is the enclosing if
                    out.add("?")
                else:
                    out.add(t.replace("self.tap_side_coeff[", "").rstrip("]"))
        return base, out

    def flips_scalar(block):
        out = set()
        for st in block:
            if isinstance(st, ast.If) and any(isinstance(s, ast.AugAssign) and norm(s.target) == "self.tap_side_coeff" and _const_int(s.value) == -1 for s in st.body):
                out.add(norm(st.test).replace('"', "'"))
        return out
    b1, _ = flips(sc)
    b2, f2 = flips(ar)
    f1 = flips_scalar(sc)
    ok = b1 == b2 == "hv:+1" and f1 == f2 == {"self.side=='hv'", "self.tap_step_percent<0"}
    ctx.ob(R, f"{TC}::TrafoController._set_tap_side_coeff::scalar-array-agree", ok,
           "both variants: +1 for tap side hv else -1, flipped for control side hv and for negative tap_step_percent" if ok else
           f"scalar variant: base {b1}, flips {sorted(f1)}; array variant: base {b2}, flips {sorted(f2)}", fcf.loc())


def run(ctx):
    ctx.assume("decides ordering, the evaluate-after-step structure of the loop and the bound guards of the tap controllers, not the "
               "convergence of the loop or the final voltages")
    rule_order(ctx)
    rule_loop(ctx)
    rule_tap_write(ctx)
    rule_tap_discrete(ctx)
    rule_tap_continuous(ctx)
    rule_tap_param(ctx)
    rule_converged_abs(ctx)
    ctx.require_min("ORDER", 10)
    ctx.require_min("LOOP", 14)
    ctx.require_min("TAP-DISCRETE", 18)
    ctx.require_min("TAP-CONTINUOUS", 8)
    ctx.require_min("TAP-PARAM", 7)


def variants(repo):
    V = Variant
    rc = "pandapower/control/run_control.py"
    dt = "pandapower/control/controller/trafo/DiscreteTapControl.py"
    ct = "pandapower/control/controller/trafo/ContinuousTapControl.py"
    tc = "pandapower/control/controller/trafo_control.py"
    return [
        V("out-of-service ext_grid disables the controller", tc, replace_once("np.isin(self.trafobus, net.ext_grid.loc[net.ext_grid.in_service, 'bus'].values)", "np.isin(self.trafobus, net.ext_grid.bus.values)"), "ext-grid-in-service"),
        V("initialize_control re-reads only the tap position", tc, in_function("initialize_control", replace_once("        self._set_tap_parameters(net)\n", "        self.tap_pos = read_from_net(net, self.element, self.element_index, \"tap_pos\", self._read_write_flag)\n")), "initialize_control::re-read"),
        V("characteristic control converged on any decrease", "pandapower/control/controller/characteristic_control.py", replace_once("np.all(np.abs(diff) < self.tol)", "np.all(diff < self.tol)"), "CONV-ABS"),
        V("levels truncated to integers", rc, replace_once("level = controller.level.apply(asarray).values", "level = controller.level.apply(asarray, dtype=np.int64).values"), "levels-not-truncated"),
        V("initial run asked of the last controller only", rc, in_function("check_for_initial_run", replace_once("            if net.controller.at[ctrl.index, 'initial_run']:\n                return True", "        if net.controller.at[ctrl.index, 'initial_run']:\n            return True")), "check_for_initial_run::per-controller"),
        V("levels descending", rc, replace_once("level_list = sorted(set(np.concatenate(level)))", "level_list = sorted(set(np.concatenate(level)), reverse=True)"), "levels-ascending"),
        V("order descending", rc, replace_once("rel_controller[order.argsort()], nets[to_add][order.argsort()]", "rel_controller[order.argsort()[::-1]], nets[to_add][order.argsort()[::-1]]"), "order-ascending"),
        V("nets not permuted", rc, replace_once("nets[to_add][order.argsort()]", "nets[to_add]"), "order-ascending-same-permutation"),
        V("out of service controllers run", rc, replace_once("to_add = controller.in_service.values & [*map(lambda x: l in x, level)]", "to_add = np.array([*map(lambda x: l in x, level)])"), "only-in-service"),
        V("levels run backwards", rc, in_function("control_implementation", replace_once("for levelorder in controller_order:", "for levelorder in controller_order[::-1]:")), "iterates-controller_order"),
        V("no evaluation after last allowed step", rc, replace_once("            if not ctrl_converged:\n                run_count += 1", "            if not ctrl_converged and run_count < max_iter:\n                run_count += 1"), "evaluate-after-every-step"),
        V("bound off by one", rc, replace_once("while not ctrl_converged and run_count <= max_iter and converged:", "while not ctrl_converged and run_count < max_iter and converged:"), "bound-complements-raise"),
        V("raise off by one", rc, replace_once("    if run_count > max_iter:", "    if run_count > max_iter + 1:"), "bound-complements-raise"),
        V("final check only per level", rc, replace_once("    # is required if you only want to check if in the last level everything is converged\n    check_final_convergence(run_count, max_iter, ctrl_variables['converged'])\n", ""), "final-check-unconditional"),
        V("step without marking", rc, in_function("_control_step", replace_once("            ctrl.control_step(net)\n            converged = False", "            ctrl.control_step(net)\n            converged = converged and ctrl.is_converged(net)")), "step-marks-not-converged"),
        V("finalize before loop", rc, in_function("run_control", lambda s: s.replace("    control_finalization(controller_order)\n", "", 1).replace("    control_implementation(net, controller_order, ctrl_variables, max_iter, **kwargs)\n", "    control_finalization(controller_order)\n    control_implementation(net, controller_order, ctrl_variables, max_iter, **kwargs)\n", 1)), "phase-order"),
        V("flag not refreshed", rc, in_function("_evaluate_net", replace_once("    ctrl_variables['converged'] = net['converged'] or net.get('OPF_converged', False)\n", "")), "flag-from-net"),
        V("discrete: lower guard missing", dt, replace_once("np.where(np.logical_and(vm_pu < self.vm_lower_pu, self.tap_pos > self.tap_min), -1,", "np.where(vm_pu < self.vm_lower_pu, -1,"), "guard"),
        V("discrete: guard against wrong limit", dt, replace_once("np.where(np.logical_and(vm_pu > self.vm_upper_pu, self.tap_pos < self.tap_max), 1, 0)),", "np.where(np.logical_and(vm_pu > self.vm_upper_pu, self.tap_pos > self.tap_min), 1, 0)),"), "guard"),
        V("discrete: inclusive guard", dt, replace_once("np.where(np.logical_and(vm_pu < self.vm_lower_pu, self.tap_pos < self.tap_max), 1,", "np.where(np.logical_and(vm_pu < self.vm_lower_pu, self.tap_pos <= self.tap_max), 1,"), "guard"),
        V("discrete: branches identical", dt, replace_once("np.where(np.logical_and(vm_pu > self.vm_upper_pu, self.tap_pos > self.tap_min), -1, 0)))", "np.where(np.logical_and(vm_pu > self.vm_upper_pu, self.tap_pos < self.tap_max), 1, 0)))"), "mirror"),
        V("discrete: converged at wrong limit", dt, in_function("is_converged", replace_once("(vm_pu < self.vm_lower_pu) & (self.tap_pos == self.tap_min) |\n                                 (vm_pu > self.vm_upper_pu) & (self.tap_pos == self.tap_max),", "(vm_pu < self.vm_lower_pu) & (self.tap_pos == self.tap_max) |\n                                 (vm_pu > self.vm_upper_pu) & (self.tap_pos == self.tap_min),")), "limit"),
        V("discrete: band uses set point", dt, in_function("is_converged", replace_once("np.logical_and(self.vm_lower_pu < vm_pu, vm_pu < self.vm_upper_pu)", "np.logical_and(self.vm_lower_pu < vm_pu, vm_pu < self.vm_lower_pu + 2 * self.vm_delta_pu)")), "band"),
        V("discrete: write before update", dt, in_function("control_step", lambda s: s.replace("        self.tap_pos += increment\n", "", 1).replace("                     self.tap_pos, self._read_write_flag)\n", "                     self.tap_pos, self._read_write_flag)\n        self.tap_pos += increment\n", 1)), "writes-updated-tap"),
        V("continuous: clip bounds swapped", ct, replace_once("np.clip(self.tap_pos, self.tap_min, self.tap_max)", "np.clip(self.tap_pos, self.tap_max, self.tap_min)"), "clip-before-write"),
        V("continuous: clip after write", ct, in_function("control_step", lambda s: s.replace("        if self.check_tap_bounds:\n            self.tap_pos = np.clip(self.tap_pos, self.tap_min, self.tap_max)\n", "", 1) + "        if self.check_tap_bounds:\n            self.tap_pos = np.clip(self.tap_pos, self.tap_min, self.tap_max)\n"), "clip-before-write"),
        V("continuous: direction reversed", ct, replace_once("self.tap_pos = self.tap_pos + tc * self.tap_side_coeff * self.tap_sign", "self.tap_pos = self.tap_pos - tc * self.tap_side_coeff * self.tap_sign"), "limit-pairing"),
        V("continuous: limits swapped in convergence", ct, in_function("is_converged", replace_once("(vm_pu < self.vm_set_pu) & (self.tap_pos == self.tap_min) |\n                                     (vm_pu > self.vm_set_pu) & (self.tap_pos == self.tap_max),", "(vm_pu < self.vm_set_pu) & (self.tap_pos == self.tap_max) |\n                                     (vm_pu > self.vm_set_pu) & (self.tap_pos == self.tap_min),")), "limit-pairing"),
        V("tap_max read from tap_min", tc, replace_once('self.tap_max = read_from_net(net, self.element, self.element_index, "tap_max", self._read_write_flag)', 'self.tap_max = read_from_net(net, self.element, self.element_index, "tap_min", self._read_write_flag)'), "tap_max"),
        V("array variant forgets negative step", tc, replace_once("            self.tap_side_coeff[self.tap_step_percent < 0] *= -1\n", ""), "scalar-array-agree"),
        V("stray tap write", "pandapower/control/controller/trafo_control.py", replace_once("        self._set_tap_parameters(net)\n        self._set_tap_side_coeff(net)\n\n    def _update_trafobus", "        self._set_tap_parameters(net)\n        self._set_tap_side_coeff(net)\n        net[self.element].loc[self.element_index, 'tap_pos'] = self.tap_neutral\n\n    def _update_trafobus"), "TAP-WRITE"),
        # twins
        V("twin: bitwise and in discrete guard", dt, replace_once("np.where(np.logical_and(vm_pu < self.vm_lower_pu, self.tap_pos > self.tap_min), -1,", "np.where((vm_pu < self.vm_lower_pu) & (self.tap_min < self.tap_pos), -1,"), None),
        V("twin: evaluate unconditionally", rc, replace_once("            if not ctrl_converged:\n                run_count += 1\n                ctrl_variables = evaluate_net_fct(net, levelorder, ctrl_variables, **kwargs)", "            if not ctrl_converged:\n                run_count += 1\n            ctrl_variables = evaluate_net_fct(net, levelorder, ctrl_variables, **kwargs)"), None),
    ]
