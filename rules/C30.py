"""C30 - diagnostics are side-effect free and stateless: structural clauses.

Decided:
 * SHAREDMUT   no module-level mutable literal escapes by reference into an instance attribute that the
               class mutates in place (options / registered functions of one Diagnostic instance would
               become the defaults of every other instance)
 * RESTORE     every DiagnosticFunction.diagnostic(net) that stores into a user table of its parameter
               (not of a deep copy) has, on every path that returns normally - including paths through
               except handlers that swallow - restored every column it changed from its backup copy;
               paths that leave by an exception are reported separately
Not decided: that the diagnostic results depend only on the network.
"""
import ast

from ppsa.astutil import dotted, norm, names_in
from ppsa.pathenum import PathEnum, FALL, RET, RAISE
from ppsa.selftest import Variant, replace_once, in_function

DF = "pandapower.diagnostic.diagnostic_functions"
DG = "pandapower.diagnostic.diagnostic"
MUTATORS = {"update", "append", "extend", "add", "pop", "clear", "setdefault", "insert", "remove", "popitem", "sort", "reverse"}


def _is_mutable_literal(node):
    if isinstance(node, (ast.Dict, ast.List, ast.Set, ast.ListComp, ast.DictComp, ast.SetComp)):
        return True
    if isinstance(node, ast.Call) and isinstance(node.func, ast.Name) and node.func.id in ("dict", "list", "set", "defaultdict", "OrderedDict"):
        return True
    return False


def rule_sharedmut(ctx, modules):
    R = "SHAREDMUT"
    ctx.rule(R, "an instance attribute bound (self.x = NAME) to a module-level dict/list/set literal must not be mutated in place "
                "(self.x.update/append/..., self.x[k] = v) anywhere in the class")
    n = 0
    for mn in modules:
        m = ctx.repo.module(mn)
        for ci in m.classes.values():
            bound = {}
            for fi in ci.methods.values():
                for node in ast.walk(fi.node):
                    if isinstance(node, (ast.Assign, ast.AnnAssign)):
                        targets = node.targets if isinstance(node, ast.Assign) else [node.target]
                        val = node.value
                        alts = [val]
                        if isinstance(val, ast.IfExp):
                            alts = [val.body, val.orelse]
                        elif isinstance(val, ast.BoolOp):
                            alts = list(val.values)
                        for val in alts:
                            if isinstance(val, ast.Name):
                                r = ctx.repo.resolve(m.name, val.id)
                                if isinstance(r, tuple) and r[0] == "const" and _is_mutable_literal(r[1]):
                                    for t in targets:
                                        d = dotted(t)
                                        if d and d.startswith("self."):
                                            bound[d] = (val.id, r[2].name, fi, node)
            if not bound:
                continue
            for attr, (gname, gmod, fi0, node0) in bound.items():
                n += 1
                muts = []
                for fi in ci.methods.values():
                    for node in ast.walk(fi.node):
                        if isinstance(node, ast.Call) and isinstance(node.func, ast.Attribute) and node.func.attr in MUTATORS \
                                and dotted(node.func.value) == attr:
                            muts.append((fi, node))
                        if isinstance(node, (ast.Assign, ast.AugAssign, ast.Delete)):
                            tg = node.targets if isinstance(node, (ast.Assign, ast.Delete)) else [node.target]
                            for t in tg:
                                if isinstance(t, ast.Subscript) and dotted(t.value) == attr:
                                    muts.append((fi, node))
                ok = not muts
                ctx.ob(R, f"{m.name}::{ci.name}::{attr}<-{gname}", ok,
                       f"{attr} is bound to the module-level {gname} of {gmod}" + (
                           " and never mutated in place" if ok else
                           f" and mutated in place in {muts[0][0].qualname} ({norm(muts[0][1], 60)}): the change is shared by all instances "
                           "and later calls"), fi0.loc(node0))
    return n


def _net_store(st):
    """(table, col|None, value node) for a store into net.<T>[.<col>] / net.<T>.loc[.., 'col'] of the parameter 'net'."""
    if isinstance(st, ast.Assign) and len(st.targets) == 1:
        t = st.targets[0]
    elif isinstance(st, ast.AugAssign):
        t = st.target
    else:
        return None
    val = st.value
    d = dotted(t)
    if d and d.startswith("net.") and d.count(".") in (1, 2):
        parts = d.split(".")
        return parts[1], (parts[2] if len(parts) > 2 else None), val
    if isinstance(t, ast.Subscript):
        b = t.value
        # net.T.loc[idx, 'col'] / net.T.at[...]
        if isinstance(b, ast.Attribute) and b.attr in ("loc", "at", "iloc", "iat"):
            dd = dotted(b.value)
            if dd and dd.startswith("net.") and dd.count(".") == 1:
                col = None
                if isinstance(t.slice, ast.Tuple) and len(t.slice.elts) == 2 and isinstance(t.slice.elts[1], ast.Constant):
                    col = t.slice.elts[1].value
                return dd.split(".")[1], col, val
        dd = dotted(b)
        if dd and dd.startswith("net.") and dd.count(".") == 1 and isinstance(t.slice, ast.Constant):
            return dd.split(".")[1], t.slice.value, val
        if dd == "net" and isinstance(t.slice, ast.Constant):
            return t.slice.value, None, val
    return None


def _backups(fn):
    """name -> (table, col|None) for  name = copy.deepcopy(net.T.c) / copy.copy(net.T) / net.T.c.copy()"""
    out = {}
    for n in ast.walk(fn):
        if isinstance(n, ast.Assign) and len(n.targets) == 1 and isinstance(n.targets[0], ast.Name) and isinstance(n.value, ast.Call):
            c = n.value
            src = None
            nm = dotted(c.func) or ""
            if nm in ("copy.deepcopy", "copy.copy", "deepcopy") and c.args:
                src = dotted(c.args[0])
            elif isinstance(c.func, ast.Attribute) and c.func.attr == "copy":
                src = dotted(c.func.value)
            if src and src.startswith("net.") and src.count(".") in (1, 2):
                p = src.split(".")
                out[n.targets[0].id] = (p[1], p[2] if len(p) > 2 else None)
    return out


_EFFECT_CACHE = {}


def _callee_tables(ctx, fi, call):
    """element tables that a repository function called with the diagnostic's `net` can write (row set or columns)"""
    from ppsa import facts
    from ppsa.loader import FunctionInfo
    if not (call.args and isinstance(call.args[0], ast.Name) and call.args[0].id == "net"):
        return set()
    name = dotted(call.func)
    if not name:
        return set()
    r = ctx.repo.resolve(fi.module.name, name)
    if not isinstance(r, FunctionInfo):
        return set()
    if not (r.module.name.startswith("pandapower.toolbox") or r.module.name.startswith("pandapower.create")):
        return set()
    if r.fq not in _EFFECT_CACHE:
        try:
            it, fr = facts.analyse(ctx.repo, r.fq, schema_cols=True, max_depth=5)
            tabs = set()
            for s_ in it.stores:
                p_ = s_.path or ""
                if p_.startswith("net.") and p_.count(".") >= 1:
                    t = p_.split(".")[1]
                    if not t.startswith(("res_", "_")) and t not in ("group", "?"):
                        tabs.add(t)
            _EFFECT_CACHE[r.fq] = tabs
        except Exception:
            _EFFECT_CACHE[r.fq] = set()
    return _EFFECT_CACHE[r.fq]


def rule_restore(ctx):
    R = "RESTORE"
    ctx.rule(R, "a diagnostic(net) that stores into net.<table> restores every changed column from its backup on every "
                "normally returning path (handlers that swallow included)")
    RX = "RESTORE-EXC"
    ctx.rule(RX, "the same on paths that leave diagnostic(net) by an exception (Diagnostic.diagnose_network catches it and goes on "
                 "with the modified net)")
    m = ctx.repo.module(DF)
    n = 0
    for ci in m.classes.values():
        fi = ci.methods.get("diagnostic")
        if fi is None:
            continue
        stores = [s for s in (_net_store(st) for st in ast.walk(fi.node) if isinstance(st, ast.stmt)) if s is not None]
        stores = [s for s in stores if not str(s[0]).startswith(("res_", "_"))]
        if not stores:
            continue
        fi_ = fi
        # functions working on a deep copy rebind `net` first
        rebinds = any(isinstance(x, ast.Assign) and any(isinstance(t, ast.Name) and t.id == "net" for t in x.targets)
                      and "deepcopy" in ast.unparse(x.value) for x in ast.walk(fi.node))
        if rebinds:
            ctx.ob(R, f"{DF}::{ci.name}.diagnostic::works-on-copy", True, "net is rebound to a deep copy before any store", fi.loc(), nontrivial=False)
            continue
        n += 1
        backups = _backups(fi.node)

        def transfer(st, state, backups=backups, fi_=fi):
            s = _net_store(st)
            if s is None:
                # effects of toolbox / create functions called with the diagnostic's net
                extra = set()
                if isinstance(st, (ast.Expr, ast.Assign)):
                    for c_ in ast.walk(st):
                        if isinstance(c_, ast.Call):
                            extra |= _callee_tables(ctx, fi_, c_)
                if extra:
                    return frozenset(set(state) | {(t_, None) for t_ in extra})
                return state
            tab, col, val = s
            if str(tab).startswith(("res_", "_")):
                return state
            dirty = set(state)
            vn = val.id if isinstance(val, ast.Name) else None
            if vn in backups and backups[vn][0] == tab and (backups[vn][1] == col or backups[vn][1] is None):
                if col is None or backups[vn][1] is None:
                    dirty = {d for d in dirty if d[0] != tab}
                else:
                    dirty.discard((tab, col))
            else:
                dirty.add((tab, col))
            return frozenset(dirty)

        outs = PathEnum(transfer).run(fi.node, frozenset())
        bad_norm = [(k, s, site) for k, s, site in outs if k in (FALL, RET) and s]
        bad_exc = [(k, s, site) for k, s, site in outs if k == RAISE and s]
        cols = sorted({f"{t}.{c}" for t, c, _ in stores})
        ctx.ob(R, f"{DF}::{ci.name}.diagnostic::normal-paths", not bad_norm,
               f"{cols} restored on every normally returning path ({len(outs)} path classes)" if not bad_norm else
               f"a path returning at line {getattr(bad_norm[0][2], 'lineno', '?')} leaves {sorted(f'{t}.{c}' for t, c in bad_norm[0][1])} modified",
               fi.loc(bad_norm[0][2]) if bad_norm and bad_norm[0][2] is not None else fi.loc())
        ctx.ob(RX, f"{DF}::{ci.name}.diagnostic::exception-paths", not bad_exc,
               f"{cols} restored on every exceptional exit" if not bad_exc else
               f"an exception raised at line {getattr(bad_exc[0][2], 'lineno', '?')} leaves {sorted(f'{t}.{c}' for t, c in bad_exc[0][1])} modified",
               fi.loc(bad_exc[0][2]) if bad_exc and bad_exc[0][2] is not None else fi.loc())
    if n < 4:
        ctx.fail(f"RESTORE: only {n} mutating diagnostic functions found (confirmed: 5)")


def run(ctx):
    ctx.assume("decides reference escape of module-level mutables and restore pairing in diagnostic functions; not that results "
               "depend only on the network")
    mods = [DG, DF, "pandapower.diagnostic.diagnostic_helpers"]
    if ctx.tier == "thorough":
        mods = ctx.repo.module_names()
    n = rule_sharedmut(ctx, mods)
    ctx.count("sharedmut_bindings", n)
    # positive control: the rule must recognise the idiom on a synthetic overlay
    from ppsa.loader import Repo
    from ppsa.report import Ctx
    ctl = Repo(ctx.repo.root, overlay={"pandapower/_ppsa_control2.py":
               "D = {'a': 1}\nclass K:\n    def __init__(self):\n        self.k = D\n    def f(self, **kw):\n        self.k.update(kw)\n"})
    c2 = Ctx("C30", ctl)
    rule_sharedmut(c2, ["pandapower._ppsa_control2"])
    if not c2.violations():
        ctx.fail("SHAREDMUT positive control failed")
    rule_restore(ctx)
    rule_result_fresh(ctx)
    rule_call_state(ctx)
    rule_logger_teardown(ctx)
    from rules import _lints
    RC = "CLASS-MUTABLE"
    ctx.rule(RC, "no class of pandapower.diagnostic keeps a mutable literal at class level that its methods mutate through self without "
                 "__init__ binding a fresh object (shared registry between instances); no function of the package is memoised "
                 "(functools cache decorators): a cached Diagnostic instance carries the options of earlier calls")
    dmods = [mn for mn in ctx.repo.module_names() if mn.startswith("pandapower.diagnostic")]
    _lints.class_level_mutables(ctx, RC, dmods)
    ncls = nfun = 0
    for mn in dmods:
        mod = ctx.repo.module(mn)
        ncls += sum(1 for c in ast.walk(mod.tree) if isinstance(c, ast.ClassDef))
        for f in ast.walk(mod.tree):
            if isinstance(f, (ast.FunctionDef, ast.AsyncFunctionDef)):
                nfun += 1
                deco = [ast.unparse(d) for d in f.decorator_list]
                memo = [d for d in deco if any(k in d for k in ("lru_cache", "functools.cache", "cached_property")) or d == "cache"]
                if memo:
                    ctx.ob(RC, f"{mn}::{f.name}::memoised", False, f"@{memo[0]} on {f.name}: the returned object (and the state it accumulates) is "
                           "shared by all later calls", f"{mod.relpath}:{f.lineno}")
    ctx.ob(RC, "pandapower.diagnostic::<package>::scanned", ncls >= 20 and nfun >= 60, f"{ncls} classes and {nfun} functions scanned, none shares state", "pandapower/diagnostic")


def rule_result_fresh(ctx):
    """the dictionary that diagnose_network returns is the caller's: a later call on the same instance must not empty or refill
    it, so the attribute is rebound to a fresh object at the start of every call (never cleared in place)"""
    R = "RESULT-FRESH"
    ctx.rule(R, "every attribute that Diagnostic.diagnose_network returns (or fills as its result) is rebound to a fresh literal in the "
                "method before it is filled and is never emptied in place (clear / pop / del): results already handed out stay intact")
    fi = ctx.repo.func(f"{DG}:Diagnostic.diagnose_network")
    returned = set()
    for n in ast.walk(fi.node):
        if isinstance(n, ast.Return) and n.value is not None:
            for a in ast.walk(n.value):
                d = dotted(a) if isinstance(a, ast.Attribute) else None
                if d and d.startswith("self."):
                    returned.add(d)
    filled = set()
    for n in ast.walk(fi.node):
        if isinstance(n, ast.Assign) and isinstance(n.targets[0], ast.Subscript):
            d = dotted(n.targets[0].value)
            if d and d.startswith("self.diag_"):
                filled.add(d)
    attrs = sorted(returned | filled)
    if not attrs:
        ctx.fail("diagnose_network: result attributes not found")
    sts = list(fi.node.body)
    for a in attrs:
        fresh_pos = [i for i, st in enumerate(sts) if isinstance(st, ast.Assign) and any(dotted(t) == a for t in st.targets)
                     and (isinstance(st.value, (ast.Dict, ast.List)) or (isinstance(st.value, ast.Call) and dotted(st.value.func) in ("dict", "list")))]
        inplace = [n for n in ast.walk(fi.node) if isinstance(n, ast.Call) and isinstance(n.func, ast.Attribute)
                   and n.func.attr in ("clear", "pop", "popitem") and dotted(n.func.value) == a]
        inplace += [n for n in ast.walk(fi.node) if isinstance(n, ast.Delete) and any(a in norm(t) for t in n.targets)]
        ok = bool(fresh_pos) and not inplace
        ctx.ob(R, f"{DG}::Diagnostic.diagnose_network::{a}", ok,
               f"{a} is a fresh object in every call" if ok else
               f"{a} is " + ("emptied in place" if inplace else "not rebound to a fresh object") +
               ": the dictionary returned by an earlier call is changed by the next call on the same instance", fi.loc(inplace[0]) if inplace else fi.loc())


def rule_call_state(ctx):
    """an attribute that diagnostic() itself writes carries the values of the previous call until it is written again"""
    R = "CALL-STATE"
    ctx.rule(R, "in every DiagnosticFunction.diagnostic(net, **kwargs), an instance attribute that the method writes (rebinds, stores "
                "items into, mutates) is not read before this call has written it: until then it holds what the previous call - "
                "possibly of another Diagnostic instance sharing the function object - left there")
    n = 0
    m = ctx.repo.module(DF)
    for ci in m.classes.values():
        fi = ci.methods.get("diagnostic")
        if fi is None:
            continue
        rebinds, items, reads = {}, {}, {}
        store_bases = set()
        for node in ast.walk(fi.node):
            targets = []
            if isinstance(node, ast.Assign):
                targets = node.targets
            elif isinstance(node, (ast.AnnAssign, ast.AugAssign)):
                targets = [node.target]
            for t in targets:
                for tt in (t.elts if isinstance(t, (ast.Tuple, ast.List)) else [t]):
                    d = dotted(tt)
                    if d and d.startswith("self.") and d.count(".") == 1:
                        rebinds.setdefault(d, []).append(node.lineno)
                    if isinstance(tt, ast.Subscript):
                        d = dotted(tt.value)
                        if d and d.startswith("self.") and d.count(".") == 1:
                            items.setdefault(d, []).append(node.lineno)
                            store_bases.add(id(tt.value))
            if isinstance(node, ast.Call) and isinstance(node.func, ast.Attribute) and node.func.attr in MUTATORS:
                d = dotted(node.func.value)
                if d and d.startswith("self.") and d.count(".") == 1 and node.func.attr not in ("pop",):
                    items.setdefault(d, []).append(node.lineno)
                    store_bases.add(id(node.func.value))
        for node in ast.walk(fi.node):
            if isinstance(node, ast.Attribute) and isinstance(node.ctx, ast.Load) and isinstance(node.value, ast.Name) \
                    and node.value.id == "self" and id(node) not in store_bases:
                reads.setdefault(f"self.{node.attr}", []).append(node)
        for attr in sorted(set(rebinds) | set(items)):
            if attr in ("self.net", "self.out"):
                continue
            n += 1
            # fresh from: the first rebind of this call; for item stores without a rebind, the last store of this call
            fresh_from = min(rebinds[attr]) if attr in rebinds else max(items[attr])
            stale = [r for r in reads.get(attr, []) if r.lineno < fresh_from]
            ctx.ob(R, f"{DF}::{fi.qualname}::{attr}", not stale,
                   f"{attr} is written by this call before it is read" if not stale else
                   f"`{norm(stale[0], 60)}` reads {attr} before this call has written it (written at line {fresh_from}): the value comes "
                   "from the previous call of the same function object, so the options of one run leak into the next",
                   fi.loc(stale[0]) if stale else fi.loc())
    if n < 5:
        ctx.fail(f"CALL-STATE: only {n} attributes written in diagnostic() methods found (confirmed: 5)")


def rule_logger_teardown(ctx):
    R = "LOGGER-TEARDOWN"
    ctx.rule(R, "every filter that a function of the diagnostic package adds to the (module-level, shared) logger is removed again by "
                "name at the end of the same function, the level it sets is reset to the saved one, and the logger's filter list is "
                "never edited while it is being iterated (the iteration skips every second entry and a filter survives the call)")
    n = 0
    for mn in [x for x in ctx.repo.module_names() if x.startswith("pandapower.diagnostic")]:
        m = ctx.repo.module(mn)
        for fi in m.functions.values():
            adds = [c for c in ast.walk(fi.node) if isinstance(c, ast.Call) and isinstance(c.func, ast.Attribute) and c.func.attr == "addFilter"]
            for lp in ast.walk(fi.node):
                if isinstance(lp, ast.For) and isinstance(lp.iter, ast.Attribute) and lp.iter.attr in ("filters", "handlers"):
                    edits = [c for c in ast.walk(lp) if isinstance(c, ast.Call) and isinstance(c.func, ast.Attribute)
                             and c.func.attr in ("removeFilter", "removeHandler", "addFilter", "addHandler")
                             and norm(c.func.value) == norm(lp.iter.value)]
                    if edits:
                        n += 1
                        ctx.ob(R, f"{mn}::{fi.qualname}::edit-while-iterating", False,
                               f"`{norm(edits[0], 60)}` edits {norm(lp.iter)} inside `for ... in {norm(lp.iter)}`: entries are skipped and a "
                               "filter of this report stays on the shared logger, where it suppresses the output of later calls", fi.loc(edits[0]))
            if not adds:
                continue
            removes = [c for c in ast.walk(fi.node) if isinstance(c, ast.Call) and isinstance(c.func, ast.Attribute) and c.func.attr == "removeFilter"]
            for a_ in adds:
                n += 1
                key = (norm(a_.func.value), norm(a_.args[0]) if a_.args else "")
                ok = any((norm(r.func.value), norm(r.args[0]) if r.args else "") == key and r.lineno > a_.lineno for r in removes)
                ctx.ob(R, f"{mn}::{fi.qualname}::{key[1]}", ok,
                       f"filter {key[1]} is removed again" if ok else
                       f"`{norm(a_, 60)}` has no matching {key[0]}.removeFilter({key[1]}) later in {fi.qualname}: the filter stays on the "
                       "shared logger and changes what later calls report", fi.loc(a_))
            levels = [c for c in ast.walk(fi.node) if isinstance(c, ast.Call) and isinstance(c.func, ast.Attribute) and c.func.attr == "setLevel"]
            if levels:
                n += 1
                saved = {t.id for st in ast.walk(fi.node) if isinstance(st, ast.Assign) and isinstance(st.value, ast.Call)
                         and isinstance(st.value.func, ast.Attribute) and st.value.func.attr in ("getEffectiveLevel",)
                         for t in st.targets if isinstance(t, ast.Name)}
                saved |= {t.id for st in ast.walk(fi.node) if isinstance(st, ast.Assign) and isinstance(st.value, ast.Attribute)
                          and st.value.attr == "level" for t in st.targets if isinstance(t, ast.Name)}
                last = max(levels, key=lambda c: c.lineno)
                ok = bool(last.args) and isinstance(last.args[0], ast.Name) and last.args[0].id in saved
                ctx.ob(R, f"{mn}::{fi.qualname}::level", ok, "the logger level is reset to the saved level" if ok else
                       f"the last setLevel in {fi.qualname} (`{norm(last, 50)}`) does not restore the level saved at entry", fi.loc(last))
    if n < 3:
        ctx.fail(f"LOGGER-TEARDOWN: only {n} obligations (confirmed: two filters and the level in Diagnostic.report)")


def variants(repo):
    dg = "pandapower/diagnostic/diagnostic.py"
    df = "pandapower/diagnostic/diagnostic_functions.py"
    V = Variant
    return [
        V("function registry at class level", dg, lambda s: s.replace("    def __init__(self, add_default_functions: bool = True):\n        self._functions: list[tuple[str, DiagnosticFunction, list[str] | None]] = []\n        self._report_functions: list[Callable] = []\n", "    _functions: list = []\n    _report_functions: list = []\n\n    def __init__(self, add_default_functions: bool = True):\n", 1), "CLASS-MUTABLE"),
        V("cached default diagnostic tool", "pandapower/diagnostic/diagnostic_helpers.py", lambda s: s.replace("def diagnostic(\n", "from functools import lru_cache\n\n\n@lru_cache(maxsize=None)\ndef _default_diagnostic_tool():\n    from pandapower.diagnostic.diagnostic import Diagnostic\n    return Diagnostic()\n\n\ndef diagnostic(\n", 1), "memoised"),
        V("kwargs shared through a conditional expression", dg, replace_once("self.kwargs = dict(default_argument_values)", "self.kwargs = default_argument_values if add_default_functions else {}"), "self.kwargs"),
        V("ward rows of the xward replacement not restored", df, lambda s: s.replace("            ward_copy = copy.deepcopy(net.ward)\n", "", 1).replace("net.ward = ward_copy", "pass", 1), "ImplausibleImpedanceValues.diagnostic::normal-paths"),
        V("thresholds remembered on the function object", df, lambda s: s.replace('kwargs.pop("min_x_ohm", default_argument_values.get("min_x_ohm", None))', 'kwargs.pop("min_x_ohm", self.params.get("min_x_ohm", default_argument_values.get("min_x_ohm", None)))', 1), "CALL-STATE"),
        V("filters removed while iterating", dg, replace_once("        logger.removeFilter(log_counter)\n        logger.removeFilter(log_detail_filter)\n", "        for log_filter in logger.filters:\n            logger.removeFilter(log_filter)\n"), "LOGGER-TEARDOWN"),
        V("detail filter left on the logger", dg, replace_once("        logger.removeFilter(log_detail_filter)\n", ""), "log_detail_filter"),
        V("twin: filters removed over a copy", dg, replace_once("        logger.removeFilter(log_counter)\n        logger.removeFilter(log_detail_filter)\n", "        for log_filter in (log_counter, log_detail_filter):\n            logger.removeFilter(log_filter)\n        logger.removeFilter(log_counter)\n        logger.removeFilter(log_detail_filter)\n"), None),
        V("results cleared in place", dg, lambda s: s.replace("        self.diag_results = {}\n        self.diag_errors = {}\n", "        self.diag_results.clear()\n        self.diag_errors.clear()\n", 1), "RESULT-FRESH"),
        V("kwargs shared", dg, replace_once("self.kwargs = dict(default_argument_values)", "self.kwargs = default_argument_values"), "self.kwargs"),
        V("functions shared", dg, replace_once("self._functions = list(default_diagnostic_functions)", "self._functions = default_diagnostic_functions"), "self._functions"),
        V("switch not restored on a swallowed failure", df, replace_once("            except expected_exceptions:\n                net.switch.closed = switch_configuration\n                return False\n", "            except expected_exceptions:\n                return False\n"), "WrongSwitchConfiguration.diagnostic::normal-paths"),
        V("overload forgets load scaling", df, replace_once("            net.sgen.scaling = sgen_scaling\n            net.gen.scaling = gen_scaling\n            net.load.scaling = load_scaling\n        except Exception as e:", "            net.sgen.scaling = sgen_scaling\n            net.gen.scaling = gen_scaling\n        except Exception as e:"), "Overload.diagnostic::normal-paths"),
        V("twin: restore through a helper variable", df, replace_once("                net.switch.closed = switch_configuration\n                return True\n", "                net.switch.closed = switch_configuration\n                converged = True\n                return converged\n"), None),
    ]
