"""C22 - network edits never leave dangling references: table-agreement and cascade clauses.

The repository's own network_schema is the oracle for foreign keys and type-code domains.
Decided:
 a) FK-COVER   every schema column declared foreign_key 'bus.index' is listed in
               toolbox.element_bus_tuples() (the table behind reindex_buses, drop_elements_at_buses,
               fuse_buses, select_subnet, merge_nets)
 b) TYPECODE   reindex_elements updates every referencing table for every type code of its schema
               domain: switch.et {l,t,t3} and measurement.element_type
 c) CASCADE    every raw row drop of an element table in toolbox/grid_modification.py is preceded
               by detach_from_groups (or the group-member replacement helper) for the same table and
               accompanied by the drop of the matching res_ rows
 d) RES-INDEX  reindex_elements re-indexes the result table of the element
Not decided: behaviour over random edit sequences.
"""
import ast

from ppsa import facts
from ppsa.astutil import calls_in, call_name, stmts_in_order, fold, NOFOLD, norm
from ppsa.selftest import Variant, replace_once, in_function

GM = "pandapower.toolbox.grid_modification"
DM = "pandapower.toolbox.data_modification"
ES = "pandapower.toolbox.element_selection"

NOT_GROUPABLE = {"measurement", "controller", "poly_cost", "pwl_cost", "group", "line_geodata", "bus_geodata"}


def _table_expr(node):
    if isinstance(node, ast.Subscript) and isinstance(node.value, ast.Name) and node.value.id == "net":
        return ast.unparse(node.slice)
    if isinstance(node, ast.Attribute) and isinstance(node.value, ast.Name) and node.value.id == "net":
        return repr(node.attr)
    return None


def element_bus_tuples(ctx):
    fi = ctx.repo.func(f"{ES}:element_bus_tuples")
    out = set()
    for n in ast.walk(fi.node):
        if isinstance(n, ast.Tuple) and len(n.elts) == 2 and all(isinstance(e, ast.Constant) and isinstance(e.value, str) for e in n.elts):
            out.add((n.elts[0].value, n.elts[1].value))
    if len(out) < 20:
        ctx.fail("element_bus_tuples: literal (table, column) tuples not found")
    return out, fi


def rule_fk(ctx):
    R = "FK-COVER"
    ctx.rule(R, "every (table, column) whose pandera schema declares metadata foreign_key='bus.index' is contained in "
                "toolbox.element_bus_tuples(); otherwise reindex_buses / drop_elements_at_buses / fuse_buses / "
                "select_subnet / merge_nets leave that reference dangling")
    schema = facts.schema_of(ctx.repo)
    ebts, fi = element_bus_tuples(ctx)
    n = 0
    for t, c, fk in schema.foreign_keys():
        if fk.split(".")[0] != "bus":   # 'bus.index'; trafo.lv_bus spells it 'bus'
            continue
        if t == "measurement":
            continue  # measurements are re-linked through element / side by their own blocks
        n += 1
        ok = (t, c) in ebts
        ctx.ob(R, f"{ES}::element_bus_tuples::{t}.{c}", ok,
               f"schema foreign key {t}.{c} -> bus.index " + ("is listed" if ok else "is missing from element_bus_tuples()"),
               fi.loc())
    # every listed tuple must name an existing structure column (typo guard)
    for t, c in sorted(ebts):
        cols = schema.structure.get(t)
        if cols:
            ctx.ob(R, f"{ES}::element_bus_tuples::listed:{t}.{c}", c in cols, f"listed column {t}.{c} exists in network_structure", fi.loc(),
                   nontrivial=False)
    ctx.require_min(R, 30)


def _fold_local(fn, expr, env):
    """fold expr; a Name bound by exactly one simple assignment in fn is replaced by that value first."""
    v = fold(expr, env)
    if v is NOFOLD and isinstance(expr, ast.Name):
        defs = [n for n in ast.walk(fn) if isinstance(n, ast.Assign) and len(n.targets) == 1
                and isinstance(n.targets[0], ast.Name) and n.targets[0].id == expr.id]
        if len(defs) == 1:
            return fold(defs[0].value, env)
    return v


def _is_res_name(fn, t):
    """table expression t is a variable assigned from a 'res_' + ... string"""
    for n in ast.walk(fn):
        if isinstance(n, ast.Assign):
            tg = n.targets[0]
            names = [e.id for e in tg.elts if isinstance(e, ast.Name)] if isinstance(tg, ast.Tuple) else ([tg.id] if isinstance(tg, ast.Name) else [])
            if t in names and "res_" in ast.unparse(n.value):
                return True
    return False


def _block_with_store(fn, table, col="element"):
    """The innermost If statement whose body stores into net.<table>.loc[..., col]."""
    best = None
    for n in ast.walk(fn):
        if isinstance(n, ast.If):
            for st in n.body:
                for a in ast.walk(st):
                    if isinstance(a, ast.Assign):
                        t = ast.unparse(a.targets[0])
                        if f"net.{table}.loc" in t and f"'{col}'" in t.replace('"', "'"):
                            if best is None or (n.lineno >= best.lineno and isinstance(n.test, ast.Compare)):
                                if "element_type" in ast.unparse(n.test):
                                    best = n
    return best


def rule_typecode(ctx):
    R = "TYPECODE"
    ctx.rule(R, "reindex_elements(net, T, ...) rewrites the 'element' column of every referencing table for every type "
                "code in the table's schema domain: switch.et codes l/t/t3 <-> line/trafo/trafo3w, "
                "measurement.element_type domain (non-bus)")
    schema = facts.schema_of(ctx.repo)
    fi = ctx.repo.func(f"{DM}:reindex_elements")
    # --- switch
    et_dom = schema.columns["switch"]["et"].isin or []
    code2type = {"l": "line", "t": "trafo", "t3": "trafo3w"}
    blk = _block_with_store(fi.node, "switch")
    if blk is None:
        ctx.fail("reindex_elements: switch link block not found")
    handled = fold(blk.test.comparators[0]) if isinstance(blk.test, ast.Compare) and isinstance(blk.test.ops[0], ast.In) else NOFOLD
    # the et code expression compared with net.switch.et inside the block
    code_expr = None
    for n in ast.walk(blk):
        if isinstance(n, ast.Compare) and "net.switch.et" in ast.unparse(n.left):
            code_expr = n.comparators[0]
    for code in et_dom:
        if code == "b":
            continue  # bus-bus switches are re-linked by reindex_buses
        typ = code2type.get(code)
        if typ is None:
            ctx.ob(R, f"{DM}::reindex_elements::switch.et={code}", False, f"unknown switch.et code {code} in the schema domain", fi.loc())
            continue
        in_list = handled is not NOFOLD and typ in handled
        code_ok = False
        if code_expr is not None:
            v = _fold_local(fi.node, code_expr, {"element_type": typ})
            code_ok = (v == code)
        ok = in_list and code_ok
        ctx.ob(R, f"{DM}::reindex_elements::switch.et={code}", ok,
               f"switches of {typ}s (et '{code}'): " + ("updated" if ok else
               f"not updated (handled element types {handled if handled is not NOFOLD else '?'}, "
               f"et code computed for {typ}: {_fold_local(fi.node, code_expr, {'element_type': typ}) if code_expr is not None else '?'!r})"),
               fi.loc(blk))
    # --- measurement
    mdom = schema.columns["measurement"]["element_type"].isin or []
    blk = _block_with_store(fi.node, "measurement")
    if blk is None:
        # no restricting test: look for an unconditional store
        txt = ast.unparse(fi.node)
        if "net.measurement.loc" not in txt:
            ctx.fail("reindex_elements: measurement link block not found")
        handled = None
    else:
        handled = fold(blk.test.comparators[0]) if isinstance(blk.test, ast.Compare) and isinstance(blk.test.ops[0], ast.In) else None
    for typ in mdom:
        if typ == "bus":
            continue
        ok = handled is None or typ in handled
        ctx.ob(R, f"{DM}::reindex_elements::measurement.element_type={typ}", ok,
               f"measurements at {typ}: " + ("updated" if ok else f"not updated (handled: {handled})"), fi.loc(blk) if blk else fi.loc())
    ctx.require_min(R, 12)


def rule_resindex(ctx):
    R = "RES-INDEX"
    ctx.rule(R, "a function that re-indexes net[T] re-indexes the result table res_T with the same lookup")
    for fq, what in ((f"{DM}:reindex_buses", "res_bus"), (f"{DM}:reindex_elements", "res_")):
        fi = ctx.repo.func(fq)
        ok = False
        for n in ast.walk(fi.node):
            if isinstance(n, ast.Assign) and isinstance(n.targets[0], ast.Attribute) and n.targets[0].attr == "index":
                t = _table_expr(n.targets[0].value)
                if t and (what in t or _is_res_name(fi.node, t)):
                    ok = True
            if isinstance(n, ast.Call) and isinstance(n.func, ast.Attribute) and n.func.attr in ("set_index", "reindex", "rename"):
                t = _table_expr(n.func.value)
                if t and (what in t or _is_res_name(fi.node, t)):
                    ok = True
        ctx.ob(R, f"{DM}::{fi.qualname}::{what}", ok,
               f"{fi.qualname} " + ("re-indexes" if ok else "does not re-index") + f" the result table(s) {what}*", fi.loc())


def rule_cascade(ctx):
    R = "CASCADE"
    ctx.rule(R, "every raw row drop of an element table in toolbox/grid_modification.py (net[T] = net[T].drop(i) or "
                ".drop(i, inplace=True)) is preceded in the same function by detach_from_groups / "
                "_replace_group_member_element_type and the function also drops (or moves) the rows of res_T")
    m = ctx.repo.module(GM)
    n = 0
    for fi in m.functions.values():
        if ".<locals>." in fi.qualname:
            continue
        sts = list(stmts_in_order(fi.node.body))
        fn_txt = ast.unparse(fi.node)
        for i, st in enumerate(sts):
            drops = []
            if isinstance(st, ast.Assign) and isinstance(st.value, ast.Call) and isinstance(st.value.func, ast.Attribute) \
                    and st.value.func.attr == "drop":
                t = _table_expr(st.targets[0])
                s = _table_expr(st.value.func.value)
                if t and s and t == s:
                    drops.append((t, st.value))
            if isinstance(st, ast.Expr) and isinstance(st.value, ast.Call) and isinstance(st.value.func, ast.Attribute) \
                    and st.value.func.attr == "drop":
                s = _table_expr(st.value.func.value)
                if s and any(k.arg == "inplace" for k in st.value.keywords):
                    drops.append((s, st.value))
            for t, call in drops:
                if any(k.arg in ("axis", "columns") for k in call.keywords):
                    continue
                tl = t.strip("'\"")
                if tl.startswith("res_") or "res_" in t or tl in NOT_GROUPABLE or t in ("cost_elm", "table") and "cost" in fn_txt[:0]:
                    continue
                if t in ("cost_elm",) or _is_res_name(fi.node, t):
                    continue
                n += 1
                prev = [c for p in sts[:i] for c in calls_in(p)
                        if call_name(c) in ("detach_from_groups", "_replace_group_member_element_type")]
                det = any((len(c.args) > 1 and ast.unparse(c.args[1]) == t) or call_name(c) == "_replace_group_member_element_type"
                          for c in prev)
                res = ("res_" in fn_txt and ".drop(" in fn_txt.split("res_", 1)[1]) or "_adapt_result_tables_in_replace_functions" in fn_txt \
                    or "drop_elements_simple" in fn_txt and False
                # the res drop must concern the same table expression
                res_ok = any(isinstance(p, (ast.Assign, ast.Expr)) and ".drop(" in ast.unparse(p) and "res_" in ast.unparse(p)
                             for p in sts) or "_adapt_result_tables_in_replace_functions" in fn_txt
                # callers of replace_* handle results in their caller-side helper
                ok = det and res_ok
                ctx.ob(R, f"{GM}::{fi.qualname}::drop:{t}", ok,
                       f"rows of net[{t}] dropped " + ("after group detach, with result rows" if ok else
                       ("without detach_from_groups" if not det else "") + (" and" if not det and not res_ok else "")
                       + (" without dropping the res_ rows" if not res_ok else "")), fi.loc(st))
    if n < 12:
        ctx.fail(f"CASCADE: only {n} raw drop sites found (confirmed: 14)")


def run(ctx):
    ctx.assume("the pandera schemas under pandapower/network_schema are the oracle for foreign keys and type-code domains")
    ctx.assume("decides coverage tables and cascade structure, not behaviour over random edit sequences")
    rule_fk(ctx)
    rule_typecode(ctx)
    rule_resindex(ctx)
    rule_cascade(ctx)
    rule_type_table(ctx)
    rule_remap_mask(ctx)
    rule_cost_cascade(ctx)
    rule_drop_table(ctx)


def rule_remap_mask(ctx):
    """rows whose reference is rewritten by reindex_elements are chosen by the reference itself (and its type code) only"""
    R = "REMAP-MASK"
    ctx.rule(R, "in reindex_elements every rewrite of a referencing column (switch.element, measurement.element, *_cost.element, "
                "trafo*.id_characteristic_table, group.element_index, line_geodata index) selects its rows from the reference column, "
                "the type-code column and group.reference_column only: a row that holds an old index must be rewritten whatever "
                "its other columns say, otherwise it keeps pointing at the old (or at another element's new) index")
    schema = facts.schema_of(ctx.repo)
    fi = ctx.repo.func(f"{DM}:reindex_elements")
    fn = fi.node
    defs = {}
    loops = {}
    for n in ast.walk(fn):
        if isinstance(n, ast.Assign) and len(n.targets) == 1 and isinstance(n.targets[0], ast.Name):
            defs.setdefault(n.targets[0].id, []).append(n.value)
        if isinstance(n, ast.For) and isinstance(n.target, ast.Name):
            loops.setdefault(n.target.id, []).append(n.iter)

    def closure(expr, depth=0, seen=None):
        seen = seen if seen is not None else set()
        out = [expr]
        for nm in {x.id for x in ast.walk(expr) if isinstance(x, ast.Name)}:
            if nm in seen or depth > 3:
                continue
            seen.add(nm)
            for v in defs.get(nm, []) + loops.get(nm, []):
                out += closure(v, depth + 1, seen)
        return out

    def tables_of(node):
        """net.T / net["T"] / net[var] (var a loop variable over literal names)"""
        if isinstance(node, ast.Attribute) and isinstance(node.value, ast.Name) and node.value.id == "net":
            return [node.attr]
        if isinstance(node, ast.Subscript) and isinstance(node.value, ast.Name) and node.value.id == "net":
            v = fold(node.slice)
            if isinstance(v, str):
                return [v]
            if isinstance(node.slice, ast.Name):
                out = []
                for it in loops.get(node.slice.id, []):
                    lv = fold(it)
                    if isinstance(lv, (list, tuple)):
                        out += [x for x in lv if isinstance(x, str)]
                return out
        return []

    ALWAYS = {"et", "element_type", "reference_column"}
    n = 0
    for st in ast.walk(fn):
        if not isinstance(st, ast.Assign) or not isinstance(st.targets[0], ast.Subscript):
            continue
        tg = st.targets[0]
        sel = col = None
        tabs = []
        if isinstance(tg.value, ast.Attribute) and tg.value.attr in ("loc", "iat") and isinstance(tg.slice, ast.Tuple) \
                and len(tg.slice.elts) == 2:
            tabs = tables_of(tg.value.value)
            sel = tg.slice.elts[0]
            c = tg.slice.elts[1]
            col = fold(c)
            if not isinstance(col, str):
                m = [x.value for x in ast.walk(c) if isinstance(x, ast.Constant) and isinstance(x.value, str)]
                col = m[0] if m else None
        if not tabs or sel is None or col is None:
            continue
        tabs = [t for t in tabs if schema.input_columns(t)]
        if not tabs:
            continue
        known = set().union(*[schema.input_columns(t) for t in tabs])
        read = set()
        for e in closure(sel):
            for x in ast.walk(e):
                if isinstance(x, ast.Attribute) and x.attr in known:
                    read.add(x.attr)
                elif isinstance(x, ast.Constant) and isinstance(x.value, str) and x.value in known:
                    read.add(x.value)
        extra = sorted(read - ALWAYS - {col})
        n += 1
        ctx.ob(R, f"{DM}::reindex_elements::{'/'.join(tabs)}.{col}", not extra,
               f"rows of {'/'.join(tabs)}.{col} to rewrite are selected from {sorted(read) or ['<index>']}" if not extra else
               f"the rows of {'/'.join(tabs)}.{col} that are rewritten also depend on {extra}: rows holding an old index but "
               f"excluded by that column keep a stale reference", fi.loc(st))
    # all reference rewrites select the rows of the same elements: the ones whose own index is rewritten (old_indices)
    srcs = []
    for c in ast.walk(fn):
        if isinstance(c, ast.Call) and isinstance(c.func, ast.Attribute) and c.func.attr == "isin" and c.args and \
                any(k in ast.unparse(c.func.value) for k in (".element", "res_index")):
            srcs.append((ast.unparse(c.func.value), ast.unparse(c.args[0]), c))
    for tgt, src, c in srcs:
        ctx.ob(R, f"{DM}::reindex_elements::isin:{tgt}", src == "old_indices",
               f"{tgt}.isin({src})" if src == "old_indices" else
               f"`{tgt}.isin({src})` selects the references by another set than old_indices, the set that restricts the re-indexing of the element "
               "table itself: with a restricting old_indices the references of untouched elements are rewritten too", fi.loc(c))
    if len(srcs) < 4:
        ctx.fail(f"REMAP-MASK: only {len(srcs)} isin() selections found in reindex_elements (confirmed: res index, measurement, switch, cost)")
    if n < 4:
        ctx.fail(f"REMAP-MASK: only {n} masked reference rewrites found in reindex_elements (confirmed: measurement, switch, "
                 "line_geodata, cost, group)")


def rule_cost_cascade(ctx):
    R = "COST-CASCADE"
    ctx.rule(R, "drop_elements_at_buses drops the cost rows of every element it drops, whatever the name of the element's bus column "
                "(dcline: from_bus / to_bus): the cost-dropping statements are guarded by no test on the column name")
    fi = ctx.repo.func(f"{GM}:drop_elements_at_buses")
    pm = {c: p for p in ast.walk(fi.node) for c in ast.iter_child_nodes(p)}
    n = 0
    for st in ast.walk(fi.node):
        if isinstance(st, ast.Assign) and "cost" in ast.unparse(st.targets[0]) and ".drop(" in ast.unparse(st.value):
            n += 1
            cur, bad = st, None
            while cur in pm:
                cur = pm[cur]
                if isinstance(cur, ast.If) and any(isinstance(c, ast.Compare) and any(isinstance(x, ast.Name) and x.id == "column" for x in [c.left] + c.comparators)
                                                   and any(isinstance(x, (ast.Constant, ast.List, ast.Tuple, ast.Set)) for x in [c.left] + c.comparators)
                                                   for c in ast.walk(cur.test)):
                    bad = cur
            ctx.ob(R, f"{GM}::drop_elements_at_buses::cost-drop#{n}", bad is None,
                   "cost rows dropped for every dropped element" if bad is None else
                   f"the cost drop is guarded by `{ast.unparse(bad.test)}`: costs of elements connected through other bus columns (dcline) keep "
                   "pointing at a removed element", fi.loc(st))
    if n < 1:
        ctx.fail("drop_elements_at_buses: cost drop not found")


def rule_drop_table(ctx):
    from ppsa.astutil import dotted, fold
    R = "DROP-TABLE"
    ctx.rule(R, "every call of drop_trafos whose index comes from a table variable (net[elm], net[element_type]) that may be 'trafo3w' passes "
                "table=<that variable>: drop_trafos defaults to the two-winding table, so a three-winding index would drop the wrong rows")
    n = 0
    for mn in ("pandapower.toolbox.grid_modification", "pandapower.grid_equivalents.auxiliary", "pandapower.toolbox.data_modification"):
        if not ctx.repo.has_module(mn):
            continue
        for fi in ctx.repo.module(mn).functions.values():
            for c in ast.walk(fi.node):
                if isinstance(c, ast.Call) and (dotted(c.func) or "").endswith("drop_trafos") and len(c.args) >= 2:
                    n += 1
                    kw = {k.arg: ast.unparse(k.value) for k in c.keywords if k.arg}
                    tabvars = {x.slice.id for x in ast.walk(c.args[1]) if isinstance(x, ast.Subscript) and isinstance(x.value, ast.Name)
                               and x.value.id == "net" and isinstance(x.slice, ast.Name)}
                    need = next(iter(tabvars)) if tabvars else None
                    ok = need is None or kw.get("table") == need
                    ctx.ob(R, f"{mn}::{fi.qualname}::drop_trafos#{n}", ok,
                           f"drop_trafos(..., table={kw.get('table')})" if ok else
                           f"'{ast.unparse(c)[:90]}': the index comes from net[{need}] but table={need} is not passed - for trafo3w the two-winding "
                           "transformers with these indices are dropped", fi.loc(c))
    if n < 4:
        ctx.fail(f"DROP-TABLE: only {n} drop_trafos calls found (confirmed: 6)")
    # the generic dispatcher sends both transformer tables to drop_trafos (switch / measurement cascade), with the table name
    fd = ctx.repo.func(f"{GM}:drop_elements")
    br = next((x for x in ast.walk(fd.node) if isinstance(x, ast.If) and any(isinstance(c, ast.Call) and (dotted(c.func) or "").endswith("drop_trafos") for st in x.body for c in ast.walk(st))), None)
    ok = False
    if br is not None:
        def ev(t, val):
            if isinstance(t, ast.Compare) and len(t.ops) == 1:
                l = val if isinstance(t.left, ast.Name) and t.left.id == "element_type" else (t.left.value if isinstance(t.left, ast.Constant) else None)
                c = t.comparators[0]
                r = val if isinstance(c, ast.Name) and c.id == "element_type" else (fold(c) if not isinstance(c, ast.Name) else None)
                if l is None or r is None:
                    return None
                if isinstance(t.ops[0], ast.In):
                    return l in r
                if isinstance(t.ops[0], ast.Eq):
                    return l == r
            if isinstance(t, ast.BoolOp):
                vs = [ev(x, val) for x in t.values]
                return any(vs) if isinstance(t.op, ast.Or) else all(vs)
            return None
        v3, v2 = ev(br.test, "trafo3w"), ev(br.test, "trafo")
        call = next(c for st in br.body for c in ast.walk(st) if isinstance(c, ast.Call) and (dotted(c.func) or "").endswith("drop_trafos"))
        ok = v3 is True and v2 is True and any(k.arg == "table" and ast.unparse(k.value) == "element_type" for k in call.keywords)
    ctx.ob(R, f"{GM}::drop_elements::trafo3w-dispatch", ok,
           "drop_elements(net, 'trafo3w', ...) goes through drop_trafos(table='trafo3w')" if ok else
           f"`{ast.unparse(br.test) if br is not None else '?'}` does not send 'trafo3w' to drop_trafos(table=element_type): t3 switches and measurements of a "
           "dropped three-winding transformer survive", fd.loc(br) if br is not None else fd.loc())
    # fuse_buses never drops the bus everything was re-routed to
    ff = ctx.repo.func(f"{GM}:fuse_buses")
    st = next((x for x in ff.node.body if isinstance(x, ast.Assign) and ast.unparse(x.targets[0]) == "b2"), None)
    t = ast.unparse(st.value).replace(" ", "") if st is not None else ""
    ctx.ob(R, f"{GM}::fuse_buses::target-not-dropped", "-{b1}" in t, f"b2 = {t[:80]}" if "-{b1}" in t else
           f"`b2 = {t[:80]}` may contain b1: everything is re-routed to b1 and then b1 is dropped with the rest", ff.loc(st) if st is not None else ff.loc())
    # reindex_elements re-indexes whatever result rows exist
    fr = ctx.repo.func(f"{DM}:reindex_elements")
    g = next((x for x in ast.walk(fr.node) if isinstance(x, ast.If) and "res_element_type" in ast.unparse(x.test) and "shape" in ast.unparse(x.test)), None)
    t = ast.unparse(g.test).replace(" ", "") if g is not None else ""
    ok = g is not None and t.endswith("net[res_element_type].shape[0]")
    ctx.ob(R, f"{DM}::reindex_elements::result-guard", ok, "result index rewritten whenever the result table has rows" if ok else
           f"`{t[-90:]}`: a result table that is filled only partly keeps the old indices, which are no longer indices of the element table",
           fr.loc(g) if g is not None else fr.loc())


def rule_type_table(ctx):
    from rules import _lints
    R = "TYPE-TABLE"
    ctx.rule(R, "a filter  (<referencing table>.element_type|et == '<type>') & <...>.element.isin(<net>.<table>.index)  matches rows of "
                "one element type against the index of that type's own table (contradiction lint over the toolbox)")
    fis = []
    for mn in ("pandapower.toolbox.grid_modification", "pandapower.toolbox.data_modification", "pandapower.toolbox.element_selection",
               "pandapower.toolbox.power_factor", "pandapower.toolbox.result_info"):
        if ctx.repo.has_module(mn):
            fis += list(ctx.repo.module(mn).functions.values())
    n = _lints.type_table_agree(ctx, R, fis)
    if n < 4:
        ctx.fail(f"TYPE-TABLE: only {n} typed reference filters found in the toolbox")
    _lints.et_exact(ctx, "ET-EXACT", fis, minimum=10)


def variants(repo):
    _gm = "pandapower/toolbox/grid_modification.py"
    dm = "pandapower/toolbox/data_modification.py"
    gm = "pandapower/toolbox/grid_modification.py"
    es = "pandapower/toolbox/element_selection.py"
    V = Variant
    return [
        Variant("trafo drop removes switches by code prefix", "pandapower/toolbox/grid_modification.py", in_function("drop_trafos", replace_once('(net["switch"]["et"] == et)]', '(net["switch"]["et"].str.startswith(et))]')), "ET-EXACT"),
        Variant("switch code from the first letter of the table", "pandapower/toolbox/data_modification.py", replace_once('switch_et = {"line": "l", "trafo": "t", "trafo3w": "t3"}[element_type]', "switch_et = element_type[0]"), "ET-EXACT"),
        Variant("trafo3w measurements filtered by the trafo index", "pandapower/toolbox/grid_modification.py", in_function("select_subnet", replace_once("(net.measurement.element.isin(p2.trafo3w.index))", "(net.measurement.element.isin(p2.trafo.index))")), "TYPE-TABLE"),
        V("characteristic ids remapped for flagged transformers only", dm, replace_once(
            '            net["trafo"]["id_characteristic_table"] = (\n                net["trafo"]["id_characteristic_table"].map(lookup))\n',
            '            uses = net["trafo"]["tap_dependency_table"].fillna(False).astype(bool)\n            net["trafo"].loc[uses, "id_characteristic_table"] = (\n                net["trafo"].loc[uses, "id_characteristic_table"].map(lookup))\n'), "REMAP-MASK"),
        V("switch links of closed switches only", dm, replace_once("affected = net.switch[(net.switch.et == switch_et) &", "affected = net.switch[net.switch.closed & (net.switch.et == switch_et) &"), "REMAP-MASK"),
        V("twin: measurement mask split in two steps", dm, replace_once("    affected = net.measurement[(net.measurement.element_type == element_type) &\n                               (net.measurement.element.isin(old_indices))]\n",
            "    m_type = net.measurement.element_type == element_type\n    affected = net.measurement[m_type & (net.measurement.element.isin(old_indices))]\n"), None),
        V("switch references selected by the lookup keys", dm, replace_once("(net.switch.element.isin(old_indices))]", "(net.switch.element.isin(lookup.keys()))]"), "REMAP-MASK"),
        V("costs dropped for the bus column only", gm, in_function("drop_elements_at_buses", lambda s: s.replace('                for cost_elm in ["poly_cost", "pwl_cost"]:\n                    net[cost_elm] = net[cost_elm].drop(net[cost_elm].index[\n                        (net[cost_elm].et == element_type) &\n                        (net[cost_elm].element.isin(eid))])', '                if column == "bus":\n                    for cost_elm in ["poly_cost", "pwl_cost"]:\n                        net[cost_elm] = net[cost_elm].drop(net[cost_elm].index[\n                            (net[cost_elm].et == element_type) &\n                            (net[cost_elm].element.isin(eid))])', 1)), "COST-CASCADE"),
        V("generic drop sends trafo3w to the simple drop", gm, in_function("drop_elements", lambda s: s.replace('    elif "trafo" in element_type:\n        drop_trafos(net, element_index, table=element_type)', '    elif element_type == "trafo":\n        drop_trafos(net, element_index)', 1)), "trafo3w-dispatch"),
        V("fuse_buses drops its own target", gm, replace_once("b2 = set(b2) - {b1} if isinstance(b2, Iterable) else [b2]", "b2 = set(b2) if isinstance(b2, Iterable) else {b2}"), "target-not-dropped"),
        V("result index kept when the result table is incomplete", dm, replace_once("            net[res_element_type].shape[0]:\n", "            net[res_element_type].shape[0] == net[element_type].shape[0]:\n"), "result-guard"),
        V("inner trafo3w dropped from the trafo table", gm, in_function("_inner_branches", replace_once("drop_trafos(net, net[elm].index[inner], table=elm)", "drop_trafos(net, net[elm].index[inner])")), "DROP-TABLE"),
        V("t3 code lost", dm, replace_once('{"line": "l", "trafo": "t", "trafo3w": "t3"}[element_type]', 'element_type[0]'), "switch.et=t3"),
        V("trafo3w switches skipped", dm, replace_once('    if element_type in ["line", "trafo", "trafo3w"]:\n        switch_et', '    if element_type in ["line", "trafo"]:\n        switch_et'), "switch.et=t3"),
        V("measurement restricted again", dm, replace_once('    affected = net.measurement[(net.measurement.element_type == element_type) &\n                               (net.measurement.element.isin(old_indices))]\n    if len(affected):\n        net.measurement.loc[affected.index, "element"] = get_indices(affected.element, lookup)\n',
              '    if element_type in ["line", "trafo", "trafo3w"]:\n        affected = net.measurement[(net.measurement.element_type == element_type) &\n                                   (net.measurement.element.isin(old_indices))]\n        if len(affected):\n            net.measurement.loc[affected.index, "element"] = get_indices(affected.element, lookup)\n'), "measurement.element_type=load"),
        V("res index forgotten", dm, replace_once("        net[res_element_type].index = new_res_index\n", "        pass\n"), "RES-INDEX"),
        V("raw switch drop", gm, in_function("drop_switches_at_buses", replace_once('    drop_elements_simple(net, "switch", i)\n', '    net["switch"] = net["switch"].drop(i)\n')), "CASCADE::pandapower.toolbox.grid_modification::drop_switches_at_buses"),
        V("ward bus not covered", es, replace_once('("ward", "bus"), ', ''), "FK-COVER"),
        V("drop_lines forgets groups", gm, in_function("drop_lines", replace_once('    detach_from_groups(net, "line", lines)\n', '')), "CASCADE::pandapower.toolbox.grid_modification::drop_lines"),
        V("drop_buses forgets results", gm, in_function("drop_buses", lambda s: s.replace('    res_buses = net.res_bus.index.intersection(buses)\n    net["res_bus"] = net["res_bus"].drop(res_buses)\n', '')), "CASCADE::pandapower.toolbox.grid_modification::drop_buses"),
        V("reindex_buses forgets res_bus", dm, in_function("reindex_buses", lambda s: s.replace('    net.res_bus.index = get_indices(net.res_bus.index, bus_lookup)\n    net.res_bus_3ph.index = get_indices(net.res_bus_3ph.index, bus_lookup)\n    net.res_bus_sc.index = get_indices(net.res_bus_sc.index, bus_lookup)\n', '')), "RES-INDEX"),
    ]
