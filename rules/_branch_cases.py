"""Shape obligations of the element models (shared by C02: units/decimal/dependence and
C05: base-power and parallel homogeneity).  Required shapes follow doc/elements/*_par.rst and
per-unit physics: impedance_pu ~ B^+1, admittance_pu ~ B^-1 (B = system base power), series
~ parallel^-1, shunt ~ parallel^+1; all per-unit sinks dimensionless with decimal scale 1."""
from ppsa.obligations import Case, Sink, kv, ka, mva, base_mva, pu_z, pu_y, pure, table
from ppsa import facts
from ppsa.absint import AV, E
from ppsa import shape as sh

BBR = "pandapower.build_branch"
BBU = "pandapower.build_bus"
RBR = "pandapower.results_branch"

Z = {"B": 1}
Y = {"B": -1}


def builder_cases():
    cases = []
    line_opts = {"mode": "pf", "tdpf": False, "consider_line_temperature": False}
    cases.append(Case("line", f"{BBR}:_calc_line_parameter", [
        Sink("store:ppc.branch.BR_R", {"B": 1, "par": -1}, 0, ["net.line.r_ohm_per_km", "net.line.length_km", "net.line.parallel", "ppc.bus.BASE_KV", "net.sn_mva"]),
        Sink("store:ppc.branch.BR_X", {"B": 1, "par": -1}, 0, ["net.line.x_ohm_per_km", "net.line.length_km", "net.line.parallel"]),
        Sink("store:ppc.branch.BR_B", {"B": -1, "par": 1}, 0, ["net.line.c_nf_per_km", "net.line.length_km", "net.f_hz", "net.line.parallel"]),
        Sink("store:ppc.branch.BR_G", {"B": -1, "par": 1}, 0, ["net.line.g_us_per_km", "net.line.length_km", "net.line.parallel"]),
        Sink("store:ppc.branch.RATE_A", {"V": 1, "A": 1, "par": 1}, 6, ["net.line.max_i_ka", "net.line.df", "net.line.parallel", "net.bus.vn_kv"]),
        Sink("store:ppc.branch.BR_STATUS", {}, 0, ["net.line.in_service"]),
    ], options=line_opts, doc="doc/elements/line_par.rst"))
    cases.append(Case("line-dc", f"{BBR}:_calc_line_dc_parameter", [
        Sink("store:ppc.branch_dc.DC_BR_R", {"B": 1, "par": -1}, 0, ["net.line_dc.r_ohm_per_km", "net.line_dc.length_km", "net.line_dc.parallel",
                                                                     "ppc.bus_dc.DC_BASE_KV", "net.sn_mva"]),
    ], options={"mode": "pf", "tdpf": False, "consider_line_temperature": False}))
    cases.append(Case("line-3ph", f"{BBR}:_calc_line_parameter", [
        Sink("store:ppc.branch.BR_R", {"B": 1, "par": -1}, 0),
        Sink("store:ppc.branch.BR_B", {"B": -1, "par": 1}, 0),
    ], options=dict(line_opts, mode="pf_3ph")))
    for model in ("t", "pi"):
        opts = {"mode": "pf", "trafo_model": model, "calculate_voltage_angles": True}
        cases.append(Case(f"trafo-{model}", f"{BBR}:_calc_trafo_parameter", [
            Sink("store:ppc.branch.BR_R", {"B": 1, "par": -1}, 0, ["net.trafo.vkr_percent", "net.trafo.sn_mva", "net.trafo.parallel", "net.sn_mva"]),
            Sink("store:ppc.branch.BR_X", {"B": 1, "par": -1}, 0, ["net.trafo.vk_percent", "net.trafo.vkr_percent", "net.trafo.sn_mva"]),
            Sink("store:ppc.branch.BR_G", {"B": -1, "par": 1}, 0, ["net.trafo.pfe_kw", "net.trafo.parallel"]),
            Sink("store:ppc.branch.BR_B", {"B": -1, "par": 1}, 0, ["net.trafo.i0_percent", "net.trafo.pfe_kw", "net.trafo.sn_mva"]),
            Sink("store:ppc.branch.TAP", {}, 0, ["net.trafo.vn_hv_kv", "net.trafo.vn_lv_kv", "net.trafo.tap_pos", "net.trafo.tap_neutral",
                                                 "net.trafo.tap_step_percent", "net.trafo.tap_side", "ppc.bus.BASE_KV"]),
            Sink("store:ppc.branch.SHIFT", {}, 0, ["net.trafo.shift_degree", "net.trafo.tap_step_degree", "net.trafo.tap_pos", "net.trafo.tap_side",
                                                   "net.trafo.tap_changer_type", "net.trafo.tap_neutral", "net.trafo.tap_step_percent"]),
            Sink("store:ppc.branch.RATE_A", {"V": 1, "A": 1, "par": 1}, 6, ["net.trafo.sn_mva", "net.trafo.df", "net.trafo.max_loading_percent"],
                 data_needs=["net.trafo.df", "net.trafo.sn_mva", "net.trafo.max_loading_percent"]),
            Sink("store:ppc.branch.BR_STATUS", {}, 0, ["net.trafo.in_service"]),
        ] + ([
            Sink("store:ppc.branch.BR_G_ASYM", {"B": -1, "par": 1}, 0),
            Sink("store:ppc.branch.BR_B_ASYM", {"B": -1, "par": 1}, 0),
        ] if model == "t" else []), options=opts, doc="doc/elements/trafo_par.rst"))
    cases.append(Case("trafo-noangles", f"{BBR}:_calc_trafo_parameter", [
        Sink("store:ppc.branch.SHIFT", {}, 0, ["net.trafo.tap_step_degree"], forbids=["net.trafo.shift_degree"]),
    ], options={"mode": "pf", "trafo_model": "pi", "calculate_voltage_angles": False}))
    opts = {"mode": "pf", "trafo_model": "t", "calculate_voltage_angles": True, "trafo3w_losses": "hv"}
    cases.append(Case("trafo3w", f"{BBR}:_calc_trafo3w_parameter", [
        Sink("store:ppc.branch.BR_R", {"B": 1}, 0, ["net.trafo3w.vkr_hv_percent", "net.trafo3w.vkr_mv_percent", "net.trafo3w.vkr_lv_percent",
                                                   "net.trafo3w.sn_hv_mva", "net.trafo3w.sn_mv_mva", "net.trafo3w.sn_lv_mva"]),
        Sink("store:ppc.branch.BR_X", {"B": 1}, 0, ["net.trafo3w.vk_hv_percent", "net.trafo3w.vk_mv_percent", "net.trafo3w.vk_lv_percent"]),
        Sink("store:ppc.branch.BR_G", {"B": -1}, 0, ["net.trafo3w.pfe_kw"]),
        Sink("store:ppc.branch.BR_B", {"B": -1}, 0, ["net.trafo3w.i0_percent"]),
        Sink("store:ppc.branch.TAP", {}, 0, ["net.trafo3w.vn_hv_kv", "net.trafo3w.vn_mv_kv", "net.trafo3w.vn_lv_kv", "net.trafo3w.tap_pos",
                                             "net.trafo3w.tap_step_percent", "net.trafo3w.tap_side", "net.trafo3w.tap_at_star_point"]),
        Sink("store:ppc.branch.SHIFT", {}, 0, ["net.trafo3w.shift_mv_degree", "net.trafo3w.shift_lv_degree"]),
        Sink("store:ppc.branch.RATE_A", {"V": 1, "A": 1}, 6, ["net.trafo3w.sn_hv_mva", "net.trafo3w.sn_mv_mva", "net.trafo3w.sn_lv_mva"]),
        Sink("store:ppc.branch.BR_STATUS", {}, 0, ["net.trafo3w.in_service"]),
    ], options=opts, doc="doc/elements/trafo3w_par.rst"))
    cases.append(Case("impedance", f"{BBR}:_calc_impedance_parameter", [
        Sink("store:ppc.branch.BR_R", Z, 0, ["net.impedance.rft_pu", "net.impedance.sn_mva", "net.sn_mva"]),
        Sink("store:ppc.branch.BR_X", Z, 0, ["net.impedance.xft_pu", "net.impedance.sn_mva"]),
        Sink("store:ppc.branch.BR_R_ASYM", Z, 0, ["net.impedance.rtf_pu", "net.impedance.rft_pu"]),
        Sink("store:ppc.branch.BR_X_ASYM", Z, 0, ["net.impedance.xtf_pu", "net.impedance.xft_pu"]),
        Sink("store:ppc.branch.BR_G", Y, 0, ["net.impedance.gf_pu"]),
        Sink("store:ppc.branch.BR_B", Y, 0, ["net.impedance.bf_pu"]),
        Sink("store:ppc.branch.BR_G_ASYM", Y, 0, ["net.impedance.gt_pu", "net.impedance.gf_pu"]),
        Sink("store:ppc.branch.BR_B_ASYM", Y, 0, ["net.impedance.bt_pu", "net.impedance.bf_pu"]),
    ], options={"mode": "pf"}, doc="doc/elements/impedance_par.rst"))
    cases.append(Case("xward", f"{BBR}:_calc_xward_parameter", [
        Sink("store:ppc.branch.BR_R", Z, 0, ["net.xward.r_ohm", "ppc.bus.BASE_KV", "net.sn_mva"]),
        Sink("store:ppc.branch.BR_X", Z, 0, ["net.xward.x_ohm", "ppc.bus.BASE_KV", "net.sn_mva"]),
    ], options={"mode": "pf"}, doc="doc/elements/xward_par.rst"))
    cases.append(Case("switch", f"{BBR}:_calc_switch_parameter", [
        Sink("store:ppc.branch.BR_R", Z, 0, ["net.switch.z_ohm", "ppc.bus.BASE_KV", "net.sn_mva"]),
        Sink("store:ppc.branch.BR_X", Z, 0, ["net.switch.z_ohm", "opt.switch_rx_ratio"]),
    ], options={"mode": "pf"}, doc="doc/elements/switch_par.rst"))
    cases.append(Case("tcsc", f"{BBR}:_calc_tcsc_parameter", [
        Sink("store:ppc.tcsc.TCSC_X_L", Z, 0, ["net.tcsc.x_l_ohm", "ppc.baseMVA", "ppc.bus.BASE_KV"]),
        Sink("store:ppc.tcsc.TCSC_X_CVAR", Z, 0, ["net.tcsc.x_cvar_ohm", "ppc.baseMVA"]),
        Sink("store:ppc.tcsc.TCSC_SET_P", Y, 0, ["net.tcsc.set_p_to_mw", "ppc.baseMVA"]),
    ], options={"mode": "pf"}))
    cases.append(Case("svc", f"{BBU}:_build_svc_ppc", [
        Sink("store:ppc.svc.SVC_X_L", Z, 0, ["net.svc.x_l_ohm", "ppc.baseMVA", "ppc.bus.BASE_KV"]),
        Sink("store:ppc.svc.SVC_X_CVAR", Z, 0, ["net.svc.x_cvar_ohm", "ppc.baseMVA"]),
    ], options={"mode": "pf"}))
    cases.append(Case("ssc", f"{BBU}:_build_ssc_ppc", [
        Sink("store:ppc.ssc.SSC_R", Z, 0, ["net.ssc.r_ohm", "ppc.baseMVA", "ppc.bus.BASE_KV"]),
        Sink("store:ppc.ssc.SSC_X", Z, 0, ["net.ssc.x_ohm", "ppc.baseMVA"]),
    ], options={"mode": "pf"}))
    cases.append(Case("vsc", f"{BBU}:_build_vsc_ppc", [
        Sink("store:ppc.vsc.VSC_R", Z, 0, ["net.vsc.r_ohm", "ppc.baseMVA", "ppc.bus.BASE_KV"]),
        Sink("store:ppc.vsc.VSC_X", Z, 0, ["net.vsc.x_ohm", "ppc.baseMVA"]),
        Sink("store:ppc.vsc.VSC_R_DC", Z, 0, ["net.vsc.r_dc_ohm", "ppc.baseMVA"]),
        Sink("store:ppc.vsc.VSC_PL_DC", Y, 0, ["net.vsc.pl_dc_mw", "ppc.baseMVA"]),
    ], options={"mode": "pf"}))
    # shunts: MW at 1 pu, (vn_bus/vn_shunt)^2 dimensionless
    cases.append(Case("shunt", f"{BBU}:_calc_shunts_and_add_on_ppc", [
        Sink("store:ppc.bus.GS", {"V": 1, "A": 1}, 6, ["net.shunt.p_mw", "net.shunt.step", "net.shunt.vn_kv", "ppc.bus.BASE_KV", "is.shunt",
                                                       "net.ward.pz_mw", "net.xward.pz_mw", "net.trafo3w.pfe_kw"]),
        Sink("store:ppc.bus.BS", {"V": 1, "A": 1}, 6, ["net.shunt.q_mvar", "net.shunt.step", "net.ward.qz_mvar", "net.xward.qz_mvar", "net.trafo3w.i0_percent"]),
    ], options={"mode": "pf", "trafo3w_losses": "star"}, doc="doc/elements/shunt_par.rst"))
    # helper-level obligations with typed symbolic arguments
    cases.append(Case("y-from-df", f"{BBR}:_calc_y_from_dataframe", [
        Sink("ret:0", {"B": -1, "par": 1}, 0, ["net.trafo.pfe_kw", "net.trafo.vn_lv_kv", "vn_trafo_lv"]),
        Sink("ret:1", {"B": -1, "par": 1}, 0, ["net.trafo.i0_percent", "net.trafo.sn_mva", "net.trafo.pfe_kw", "vn_trafo_lv"]),
    ], args={"mode": facts.const("pf"), "trafo_df": table("trafo"), "vn_lv": kv("vn_lv"), "vn_trafo_lv": kv("vn_trafo_lv"),
             "net_sn_mva": base_mva()}))
    cases.append(Case("rx-from-df", f"{BBR}:_calc_r_x_from_dataframe", [
        Sink("ret:0", {"B": 1, "par": -1}, 0, ["net.trafo.vkr_percent", "net.trafo.sn_mva", "net.trafo_characteristic_table.vkr_percent"]),
        Sink("ret:1", {"B": 1, "par": -1}, 0, ["net.trafo.vk_percent", "net.trafo_characteristic_table.vk_percent"]),
    ], args={"mode": facts.const("pf"), "trafo_df": table("trafo"), "vn_lv": kv("vn_lv"), "vn_trafo_lv": kv("vn_trafo_lv"),
             "sn_mva": base_mva(), "trafo_characteristic_table": table("trafo_characteristic_table")}))
    cases.append(Case("rx0-from-df", f"{BBR}:_calc_r_x_from_dataframe", [
        Sink("ret:0", {"B": 1, "par": -1}, 0, ["net.trafo.vkr0_percent"]),
        Sink("ret:1", {"B": 1, "par": -1}, 0, ["net.trafo.vk0_percent"]),
    ], args={"mode": facts.const("pf_3ph"), "trafo_df": table("trafo"), "vn_lv": kv("vn_lv"), "vn_trafo_lv": kv("vn_trafo_lv"),
             "sn_mva": base_mva(), "sequence": facts.const(0)}))
    cases.append(Case("nominal-ratio", f"{BBR}:_calc_nominal_ratio_from_dataframe", [
        Sink("ret", {}, 0, ["vn_hv", "vn_lv", "ppc.bus.BASE_KV"]),
    ], args={"trafo_df": table("trafo"), "vn_hv_kv": kv("vn_hv"), "vn_lv_kv": kv("vn_lv")}))
    cases.append(Case("wye-delta", f"{BBR}:_wye_delta", [
        Sink("ret:0", Z, 0, ["r", "rr"]), Sink("ret:1", Z, 0, ["x", "xr"]),
        Sink("ret:2", Y, 0), Sink("ret:3", Y, 0), Sink("ret:4", Y, 0), Sink("ret:5", Y, 0),
    ], args={"r": pu_z("r"), "x": pu_z("x"), "g": pu_y("g"), "b": pu_y("b"), "r_ratio": pure("rr"), "x_ratio": pure("xr")}))
    return cases


def result_cases():
    cases = []
    i_ft = ka("i_ft")
    s_ft = mva("s_ft")
    ro = {"ac": True, "mode": "pf", "tdpf": False, "trafo_loading": "current"}
    cases.append(Case("branch-flows", f"{RBR}:_get_branch_flows", [
        Sink("ret:0", {"A": 1, "vm": -1}, 3, ["ppc.branch.PF", "ppc.branch.QF", "ppc.branch.PT", "ppc.branch.QT", "ppc.bus.VM", "ppc.bus.BASE_KV"]),
        Sink("ret:1", {"V": 1, "A": 1}, 6, ["ppc.branch.PF", "ppc.branch.QF"]),
    ]))
    cases.append(Case("line-res", f"{RBR}:_get_line_results", [
        Sink("store:net.res_line.i_ka", {"A": 1}, 3, ["i_ft"]),
        Sink("store:net.res_line.i_from_ka", {"A": 1}, 3, ["i_ft"]),
        Sink("store:net.res_line.i_to_ka", {"A": 1}, 3, ["i_ft"]),
        Sink("store:net.res_line.loading_percent", {"par": -1}, -2, ["i_ft", "net.line.max_i_ka", "net.line.df", "net.line.parallel"]),
        Sink("store:net.res_line.p_from_mw", {"V": 1, "A": 1}, 6, ["ppc.branch.PF"]),
        Sink("store:net.res_line.q_from_mvar", {"V": 1, "A": 1}, 6, ["ppc.branch.QF"]),
        Sink("store:net.res_line.p_to_mw", {"V": 1, "A": 1}, 6, ["ppc.branch.PT"]),
        Sink("store:net.res_line.q_to_mvar", {"V": 1, "A": 1}, 6, ["ppc.branch.QT"]),
        Sink("store:net.res_line.vm_from_pu", {"vm": 1}, 0, ["ppc.bus.VM", "ppc.branch.F_BUS"]),
        Sink("store:net.res_line.vm_to_pu", {"vm": 1}, 0, ["ppc.bus.VM", "ppc.branch.T_BUS"]),
    ], args={"i_ft": i_ft}, options=ro))
    for tl in ("current", "power"):
        cases.append(Case(f"trafo-res-{tl}", f"{RBR}:_get_trafo_results", [
            Sink("store:net.res_trafo.i_hv_ka", {"A": 1}, 3, ["i_ft"]),
            Sink("store:net.res_trafo.i_lv_ka", {"A": 1}, 3, ["i_ft"]),
            Sink("store:net.res_trafo.loading_percent", {"par": -1}, -2,
                 (["i_ft", "net.trafo.vn_hv_kv", "net.trafo.vn_lv_kv"] if tl == "current" else ["s_ft"]) + ["net.trafo.sn_mva", "net.trafo.df", "net.trafo.parallel"]),
            Sink("store:net.res_trafo.p_hv_mw", {"V": 1, "A": 1}, 6, ["ppc.branch.PF"]),
            Sink("store:net.res_trafo.p_lv_mw", {"V": 1, "A": 1}, 6, ["ppc.branch.PT"]),
        ], args={"i_ft": i_ft, "s_ft": s_ft}, options=dict(ro, trafo_loading=tl)))
        cases.append(Case(f"trafo3w-res-{tl}", f"{RBR}:_get_trafo3w_results", [
            Sink("store:net.res_trafo3w.i_hv_ka", {"A": 1}, 3, ["i_ft"]),
            Sink("store:net.res_trafo3w.i_mv_ka", {"A": 1}, 3, ["i_ft"]),
            Sink("store:net.res_trafo3w.i_lv_ka", {"A": 1}, 3, ["i_ft"]),
            Sink("store:net.res_trafo3w.loading_percent", {}, -2,
                 ["net.trafo3w.sn_hv_mva", "net.trafo3w.sn_mv_mva", "net.trafo3w.sn_lv_mva"] + (["i_ft"] if tl == "current" else ["s_ft"])),
            Sink("store:net.res_trafo3w.p_hv_mw", {"V": 1, "A": 1}, 6, ["ppc.branch.PF"]),
            Sink("store:net.res_trafo3w.p_mv_mw", {"V": 1, "A": 1}, 6, ["ppc.branch.PT"]),
            Sink("store:net.res_trafo3w.p_lv_mw", {"V": 1, "A": 1}, 6, ["ppc.branch.PT"]),
        ], args={"i_ft": i_ft, "s_ft": s_ft}, options=dict(ro, trafo_loading=tl)))
    cases.append(Case("impedance-res", f"{RBR}:_get_impedance_results", [
        Sink("store:net.res_impedance.i_from_ka", {"A": 1}, 3, ["i_ft"]),
        Sink("store:net.res_impedance.i_to_ka", {"A": 1}, 3, ["i_ft"]),
        Sink("store:net.res_impedance.p_from_mw", {"V": 1, "A": 1}, 6, ["ppc.branch.PF"]),
        Sink("store:net.res_impedance.p_to_mw", {"V": 1, "A": 1}, 6, ["ppc.branch.PT"]),
    ], args={"i_ft": i_ft}, options=ro))
    return cases
