"""C10 - distributed slack: structural clauses only.

The property itself (equal weighted deviation of every participant in a converged run) is a numerical fixed point and is not
decided.  Its anchors, however, are three pieces of bookkeeping whose correctness is visible in the code, and each is a
necessary condition: a weight that reaches the wrong row, bus or island, or a result written to the wrong rows, makes the
deviation / weight ratio differ for some input.

 SW-FLOW     every table with a `slack_weight` column (schema / network_structure) is written to ppc["gen"][f:t, SL_FAC] by
             its builder with the in-service mask that selects every other column of that builder
 SW-PAIR     _normalise_slack_weights pairs `gen_buses` and `slack_weights_gen` by position: both are np.r_[gen part, xward
             part]; the xward part of the buses (_get_xward_pq_buses) must be derived from the xward branch rows by
             order- and multiplicity-preserving steps only (no setdiff1d / unique / sort / union / intersect)
 SW-NORM     per island the divisor is the sum over the rows of that island, the bus weights are the grouped sums over the same
             rows stored at the group key, zero / negative sums raise
 SW-SPLIT    pfsoln._split_p_for_gens_at_same_bus: weights, their sum, the set-points and the assigned rows are the same rows
 SW-MISMATCH the mismatch carries + slack_weights * slack and includes the ref rows; both Jacobian siblings receive the weights
 SW-REF      buses / gens with non-zero weight are added to ref / ref_gens before pfsoln
 SW-XWARD    _extract_dist_slack_pq_results: buses of in-service xwards, each once; scalar total weight; constant demand
             subtracted with scaling and with generation negative; the share is added to the rows of that bus only
"""
import ast

from ppsa import facts
from ppsa.astutil import norm, dotted, names_in, inline_locals
from ppsa.selftest import Variant, replace_once, in_function

BG = "pandapower.build_gen"
PS = "pandapower.pypower.pfsoln"
NP = "pandapower.pypower.newtonpf"
RB = "pandapower.results_bus"
NR = "pandapower.pf.run_newton_raphson_pf"
CJ = "pandapower.pf.create_jacobian"

ORDER_BREAKING = {"setdiff1d", "unique", "sort", "argsort", "union1d", "intersect1d", "sorted", "set", "setxor1d", "flip"}


def _assigns(fn):
    out = {}
    for st in ast.walk(fn):
        if isinstance(st, ast.Assign) and len(st.targets) == 1 and isinstance(st.targets[0], ast.Name):
            out.setdefault(st.targets[0].id, []).append(st)
    return out


def _gen_store(st):
    """ppc["gen"][f:t, COL] = value -> (COL, value)"""
    if not (isinstance(st, ast.Assign) and isinstance(st.targets[0], ast.Subscript)):
        return None
    tg = st.targets[0]
    if not (isinstance(tg.slice, ast.Tuple) and len(tg.slice.elts) == 2 and isinstance(tg.slice.elts[0], ast.Slice)
            and isinstance(tg.slice.elts[1], ast.Name)):
        return None
    if "'gen'" not in ast.unparse(tg.value).replace('"', "'"):
        return None
    return tg.slice.elts[1].id, st.value


def _masks_of(value):
    """names used as the subscript of `<...>.values[m]` / `<...>[m].values` / `x[m]` in value"""
    out = set()
    for n in ast.walk(value):
        if isinstance(n, ast.Subscript) and isinstance(n.slice, ast.Name):
            out.add(n.slice.id)
    return out


def rule_flow(ctx):
    R = "SW-FLOW"
    ctx.rule(R, "every element table that has a slack_weight column is written to ppc['gen'][f:t, SL_FAC] by its builder in "
                "build_gen, selected with the same in-service mask as the other columns of that builder")
    schema = facts.schema_of(ctx.repo)
    tabs = sorted(t for t in schema.element_tables() if "slack_weight" in schema.input_columns(t))
    if len(tabs) < 3:
        ctx.fail(f"SW-FLOW: only {tabs} carry a slack_weight column (confirmed: ext_grid, gen, xward)")
    builders = {"ext_grid": "_build_pp_ext_grid", "gen": "_build_pp_gen", "xward": "_build_pp_xward"}
    for t in tabs:
        bn = builders.get(t)
        fi = ctx.repo.try_func(f"{BG}:{bn}") if bn else None
        if fi is None:
            ctx.ob(R, f"{BG}::<builder>::{t}.slack_weight", False,
                   f"table {t} has a slack_weight column but no generator builder writes it to SL_FAC", "pandapower/build_gen.py")
            continue
        stores = [s for s in (_gen_store(st) for st in ast.walk(fi.node)) if s]
        sl = [v for c, v in stores if c == "SL_FAC"]
        other_masks = set()
        for c, v in stores:
            if c != "SL_FAC":
                other_masks |= {m for m in _masks_of(v) if m.endswith("_is")}
        ok = False
        why = "no store into SL_FAC"
        if sl:
            txt = ast.unparse(sl[0]).replace('"', "'")
            masks = {m for m in _masks_of(sl[0]) if m.endswith("_is")}
            ok = "slack_weight" in txt and (f"'{t}'" in txt or "xw[" in txt) and bool(masks) and masks <= other_masks
            why = f"SL_FAC = {norm(sl[0], 80)}; in-service masks of the sibling stores: {sorted(other_masks)}"
        ctx.ob(R, f"{BG}::{bn}::{t}.slack_weight", ok, why, fi.loc())
    ctx.require_min(R, 3)


def _provenance(fn, name, depth=0, seen=None):
    """all call names on the definition chain of a local name"""
    seen = seen if seen is not None else set()
    calls = []
    if name in seen or depth > 6:
        return calls
    seen.add(name)
    for st in _assigns(fn).get(name, []):
        for n in ast.walk(st.value):
            if isinstance(n, ast.Call):
                d = dotted(n.func) or (n.func.attr if isinstance(n.func, ast.Attribute) else "")
                calls.append((d.split(".")[-1], st))
        for nm in names_in(st.value):
            calls += _provenance(fn, nm, depth + 1, seen)
    # tuple-unpacking assignments do not carry calls in this function
    return calls


def rule_pair(ctx):
    R = "SW-PAIR"
    ctx.rule(R, "slack weights and their buses are paired by position in _normalise_slack_weights (np.r_[gens, xwards] on both "
                "sides, same masks, same order); the xward PQ buses come from the xward branch rows through order- and "
                "multiplicity-preserving steps only")
    fi = ctx.repo.func(f"{BG}:_normalise_slack_weights")
    asg = _assigns(fi.node)
    r_b = [st.value for st in asg.get("gen_buses", []) if isinstance(st.value, ast.Subscript) and dotted(st.value.value) in ("np.r_", "numpy.r_")]
    r_w = [st.value for st in asg.get("slack_weights_gen", []) if any(isinstance(x, ast.Subscript) and dotted(x.value) in ("np.r_", "numpy.r_")
                                                                       for x in ast.walk(st.value))]
    if not r_b or not r_w:
        ctx.fail("_normalise_slack_weights: the np.r_ concatenations of buses / weights were not found")
    wnode = next(x for x in ast.walk(r_w[0]) if isinstance(x, ast.Subscript) and dotted(x.value) in ("np.r_", "numpy.r_"))
    b_el = r_b[0].slice.elts if isinstance(r_b[0].slice, ast.Tuple) else [r_b[0].slice]
    w_el = wnode.slice.elts if isinstance(wnode.slice, ast.Tuple) else [wnode.slice]
    # first parts: gen_buses (= ppc.gen[gen_mask, GEN_BUS]) vs ppc.gen[gen_mask, SL_FAC]
    def mask_col(e):
        if isinstance(e, ast.Name):
            for st in asg.get(e.id, []):
                r = mask_col(st.value)
                if r:
                    return r
            return None
        for x in ast.walk(e):
            if isinstance(x, ast.Subscript) and isinstance(x.slice, ast.Tuple) and len(x.slice.elts) == 2 and \
                    all(isinstance(y, ast.Name) for y in x.slice.elts):
                return x.slice.elts[0].id, x.slice.elts[1].id
        return None
    ok = len(b_el) == 2 and len(w_el) == 2
    detail = f"buses np.r_[{', '.join(norm(e, 40) for e in b_el)}], weights np.r_[{', '.join(norm(e, 50) for e in w_el)}]"
    if ok:
        mb, mw0, mw1 = mask_col(b_el[0]), mask_col(w_el[0]), mask_col(w_el[1])
        ok = bool(mb and mw0 and mw1) and mb[0] == mw0[0] == "gen_mask" and mb[1] == "GEN_BUS" and mw0[1] == mw1[1] == "SL_FAC" \
            and mw1[0] == "xward_mask" and isinstance(b_el[1], ast.Name) and b_el[1].id == "xward_pq_buses"
    ctx.ob(R, f"{BG}::_normalise_slack_weights::r_-order", ok, detail, fi.loc())
    # provenance of the xward buses
    fx = ctx.repo.func(f"{BG}:_get_xward_pq_buses")
    rets = [n for n in ast.walk(fx.node) if isinstance(n, ast.Return) and isinstance(n.value, ast.Name)]
    if not rets:
        ctx.fail("_get_xward_pq_buses: returned name not found")
    for r in rets:
        calls = _provenance(fx.node, r.value.id)
        bad = sorted({c for c, _ in calls if c in ORDER_BREAKING})
        src = "F_BUS" in "".join(ast.unparse(st) for _, st in calls) or any("F_BUS" in ast.unparse(st) for st in ast.walk(fx.node)
                                                                            if isinstance(st, ast.Assign))
        ctx.ob(R, f"{BG}::_get_xward_pq_buses::order-preserving", not bad and src,
               "xward PQ buses keep the order and multiplicity of the xward rows" if not bad else
               f"the xward PQ buses pass through {bad}: the result is sorted / de-duplicated while the weights stay in xward row order - "
               "xwards whose buses are not ascending swap weights, two xwards at one bus no longer match in length", fx.loc(r))
    fm = ctx.repo.func(f"{BG}:_gen_xward_mask")
    asg = _assigns(fm.node)
    from ppsa.astutil import inline_locals
    def val(n):
        st = asg.get(n)
        return norm(inline_locals(fm.node, st[0].value), 300).replace(" ", "").replace('"', "'") if st else ""
    g, x = val("gen_mask"), val("xward_mask")
    ok = g == "~" + x and x.startswith("np.isin(ppc['gen'][:,GEN_BUS],")
    ctx.ob(R, f"{BG}::_gen_xward_mask::complement", ok, "gen_mask is the complement of xward_mask over the generator rows", fm.loc())
    # index space: GEN_BUS holds ppc bus numbers, so the auxiliary buses must pass the bus lookup before the comparison
    okl = "net['_pd2ppc_lookups']['bus'][" in x and ".get('aux',dict()).get('xward',[])" in x
    ctx.ob(R, f"{BG}::_gen_xward_mask::ppc-numbering", okl,
           "auxiliary xward buses mapped to ppc numbers before they are compared with GEN_BUS" if okl else
           f"`xward_mask = {x[:120]}` compares ppc bus numbers with pandapower bus indices: the two coincide only for consecutive indices from 0",
           fm.loc())


def rule_norm(ctx):
    R = "SW-NORM"
    ctx.rule(R, "per island: the divisor is np.sum of the weights selected by the island mask, the bus weights are _sum_by_group of "
                "buses and weights selected by the same mask, stored at the group key; a zero or negative sum raises")
    fi = ctx.repo.func(f"{BG}:_normalise_slack_weights")
    loops = [n for n in ast.walk(fi.node) if isinstance(n, ast.For)]
    if not loops:
        ctx.fail("_normalise_slack_weights: island loop not found")
    lp = loops[0]
    asg = _assigns(lp)
    msk = [st for st in asg.get("subnet_gen_mask", [])]
    ok_mask = bool(msk) and "isin(gen_buses" in ast.unparse(msk[0].value) and isinstance(lp.target, ast.Name) and lp.target.id in ast.unparse(msk[0].value)
    ctx.ob(R, f"{BG}::_normalise_slack_weights::island-mask", ok_mask, "island mask = isin(gen_buses, island)", fi.loc(lp))
    s = asg.get("sum_slack_weights", [])
    KEEP = ("slack_weights_gen", "subnet_gen_mask", "gen_buses", "sum_slack_weights")
    ok_sum = bool(s) and norm(inline_locals(lp, s[0].value, keep=KEEP), 200).replace(" ", "") in (
        "np.sum(slack_weights_gen[subnet_gen_mask])", "slack_weights_gen[subnet_gen_mask].sum()", "sum(slack_weights_gen[subnet_gen_mask])")
    ctx.ob(R, f"{BG}::_normalise_slack_weights::divisor", ok_sum,
           f"divisor = {norm(s[0].value, 80) if s else '?'}", fi.loc(s[0]) if s else fi.loc())
    div = [n for n in ast.walk(lp) if isinstance(n, ast.AugAssign) and isinstance(n.op, ast.Div)]
    ok_div = len(div) == 1 and isinstance(div[0].target, ast.Name) and div[0].target.id == "slack_weights_gen" and \
        isinstance(div[0].value, ast.Name) and div[0].value.id == "sum_slack_weights"
    ctx.ob(R, f"{BG}::_normalise_slack_weights::normalise", ok_div, "weights divided by the island sum", fi.loc(div[0]) if div else fi.loc())
    grp = [n for n in ast.walk(lp) if isinstance(n, ast.Call) and (dotted(n.func) or "").endswith("_sum_by_group")]
    ok_grp = False
    if grp:
        a = [norm(inline_locals(lp, x, keep=KEEP), 80).replace(" ", "") for x in grp[0].args]
        ok_grp = len(a) >= 2 and a[0] == "gen_buses[subnet_gen_mask]" and a[1] == "slack_weights_gen[subnet_gen_mask]"
    ctx.ob(R, f"{BG}::_normalise_slack_weights::grouped-sum", ok_grp,
           "bus weights = grouped sum of the island's weights by the island's buses", fi.loc(grp[0]) if grp else fi.loc())
    store = [n for n in ast.walk(lp) if isinstance(n, ast.Assign) and isinstance(n.targets[0], ast.Subscript)
             and "SL_FAC_BUS" in ast.unparse(n.targets[0])]
    ok_store = False
    if store and grp:
        # key of the store is the first name unpacked from _sum_by_group, value the second
        unpack = [n for n in ast.walk(lp) if isinstance(n, ast.Assign) and n.value is grp[0] and isinstance(n.targets[0], ast.Tuple)]
        if unpack:
            k, v = unpack[0].targets[0].elts[0], unpack[0].targets[0].elts[1]
            tg = store[0].targets[0]
            ok_store = isinstance(tg.slice, ast.Tuple) and isinstance(tg.slice.elts[0], ast.Name) and tg.slice.elts[0].id == k.id \
                and isinstance(store[0].value, ast.Name) and store[0].value.id == v.id
    ctx.ob(R, f"{BG}::_normalise_slack_weights::store", ok_store, "ppc['bus'][group key, SL_FAC] = grouped weights", fi.loc(store[0]) if store else fi.loc())
    raises = [n for n in ast.walk(lp) if isinstance(n, ast.Raise)]
    tests = [norm(n.test, 80).replace(" ", "") for n in ast.walk(lp) if isinstance(n, ast.If)]
    ok_raise = len(raises) >= 2 and any("isclose(sum_slack_weights,0)" in t for t in tests) and any(t == "sum_slack_weights<0" for t in tests)
    ctx.ob(R, f"{BG}::_normalise_slack_weights::degenerate-sums-raise", ok_raise, f"tests {tests}", fi.loc(lp))


def rule_split(ctx):
    R = "SW-SPLIT"
    ctx.rule(R, "pfsoln._split_p_for_gens_at_same_bus: the weights, their sum, the set-points the share is added to and the rows that "
                "are assigned are the same reference rows; the shared amount is the bus slack power minus these set-points")
    fi = ctx.repo.func(f"{PS}:_split_p_for_gens_at_same_bus")
    asg = _assigns(fi.node)
    w = asg.get("slack_weights", [])
    rows = None
    if w and isinstance(w[0].value, ast.Subscript) and isinstance(w[0].value.slice, ast.Tuple):
        r, c = w[0].value.slice.elts
        if isinstance(r, ast.Name) and isinstance(c, ast.Name) and c.id == "SL_FAC":
            rows = r.id
    ctx.ob(R, f"{PS}::_split_p_for_gens_at_same_bus::weights-rows", rows is not None, f"slack_weights = gen[{rows}, SL_FAC]", fi.loc())
    s = asg.get("sum_slack_weights", [])
    ok = bool(s) and norm(s[0].value, 60).replace(" ", "") in ("sum(slack_weights)", "np.sum(slack_weights)", "slack_weights.sum()")
    ctx.ob(R, f"{PS}::_split_p_for_gens_at_same_bus::weights-sum", ok, f"sum = {norm(s[0].value, 60) if s else '?'}", fi.loc())
    found = 0
    for st in ast.walk(fi.node):
        if isinstance(st, ast.Assign) and isinstance(st.targets[0], ast.Subscript) and "slack_weights" in names_in(st.value):
            found += 1
            tg = norm(st.targets[0], 60).replace(" ", "")
            v = norm(st.value, 300).replace(" ", "")
            want_t = f"gen[{rows},PG]"
            ok = tg == want_t and v.startswith(want_t + "+(") and f"-sum({want_t}))*slack_weights/sum_slack_weights" in v \
                and "p_ext_grids-" in v
            ctx.ob(R, f"{PS}::_split_p_for_gens_at_same_bus::share", ok,
                   f"{tg} = {v[:120]}", fi.loc(st))
    if not found:
        ctx.fail("_split_p_for_gens_at_same_bus: the weighted share statement was not found")
    pe = asg.get("p_ext_grids", [])
    ok = bool(pe) and norm(pe[0].value, 80).replace(" ", "") == "p_bus-sum(gen[pv_gens,PG])"
    ctx.ob(R, f"{PS}::_split_p_for_gens_at_same_bus::slack-power", ok, f"p_ext_grids = {norm(pe[0].value, 80) if pe else '?'}", fi.loc())


def rule_mismatch(ctx):
    R = "SW-MISMATCH"
    ctx.rule(R, "with dist_slack the power mismatch is V*conj(Ybus*V) - Sbus + slack_weights*slack and the residual contains the "
                "reference rows; create_jacobian_matrix hands slack_weights and dist_slack to both Jacobian siblings and the "
                "non-numba sibling places the weights of the residual's P rows in the slack column")
    fi = ctx.repo.func(f"{NP}:_evaluate_Fx")
    ifs = [n for n in fi.node.body if isinstance(n, ast.If) and isinstance(n.test, ast.Name) and n.test.id == "dist_slack"]
    if not ifs:
        ctx.fail("_evaluate_Fx: the dist_slack branch was not found")
    body = ifs[0].body
    mis = [st for st in body if isinstance(st, ast.Assign) and isinstance(st.targets[0], ast.Name) and st.targets[0].id == "mis"]
    ok = False
    if mis:
        v = mis[0].value
        # ((V*conj(..)) - Sbus) + (slack_weights * slack)
        ok = isinstance(v, ast.BinOp) and isinstance(v.op, ast.Add) and isinstance(v.right, ast.BinOp) and isinstance(v.right.op, ast.Mult) \
            and names_in(v.right) == {"slack_weights", "slack"} and isinstance(v.left, ast.BinOp) and isinstance(v.left.op, ast.Sub) \
            and isinstance(v.left.right, ast.Name) and v.left.right.id == "Sbus"
    ctx.ob(R, f"{NP}::_evaluate_Fx::mismatch", ok, f"mis = {norm(mis[0].value, 90) if mis else '?'}", fi.loc(mis[0]) if mis else fi.loc())
    F = [st for st in body if isinstance(st, ast.Assign) and isinstance(st.targets[0], ast.Name) and st.targets[0].id == "F"]
    okF = bool(F) and norm(F[0].value, 120).replace(" ", "").startswith("r_[mis[ref].real,mis[pv].real,mis[pq].real,mis[pq].imag]")
    ctx.ob(R, f"{NP}::_evaluate_Fx::residual-rows", okF, f"F = {norm(F[0].value, 90) if F else '?'}", fi.loc(F[0]) if F else fi.loc())
    fj = ctx.repo.func(f"{CJ}:create_jacobian_matrix")
    calls = [n for n in ast.walk(fj.node) if isinstance(n, ast.Call) and isinstance(n.func, ast.Name) and n.func.id.startswith("_create_J_")]
    for c in calls:
        a = [x.id for x in c.args if isinstance(x, ast.Name)]
        ctx.ob(R, f"{CJ}::create_jacobian_matrix::{c.func.id}", "slack_weights" in a and "dist_slack" in a,
               f"{c.func.id}({', '.join(a)})", fj.loc(c))
    if len(calls) < 2:
        ctx.fail("create_jacobian_matrix: the two Jacobian siblings were not found")
    fnp = ctx.repo.func(f"{NP}:newtonpf")
    blk = next((n for n in ast.walk(fnp.node) if isinstance(n, ast.If) and "dist_slack" in norm(n.test, 60) and "len(ref)" in norm(n.test, 60)), None)
    got = {norm(st.targets[0], 10): norm(st.value, 60).replace(" ", "") for st in (blk.body if blk else []) if isinstance(st, ast.Assign)}
    ctx.ob(R, f"{NP}::newtonpf::further-references-become-pv", got.get("pv") == "r_[ref[1:],pv]" and got.get("ref") in ("ref[[0]]", "ref[:1]"),
           f"with several reference buses: pv = {got.get('pv')}, ref = {got.get('ref')} (all but the first reference bus take part as PV buses)",
           fnp.loc(blk) if blk is not None else fnp.loc())
    fpa = ctx.repo.func("pandapower.powerflow:_run_pf_algorithm")
    byp = next((n for n in ast.walk(fpa.node) if isinstance(n, ast.If) and any(not isinstance(st, ast.If) and any(isinstance(c, ast.Call) and norm(c.func, 40) == "_bypass_pf_and_set_results"
                                                                                       for c in ast.walk(st)) for st in n.body)), None)
    t = norm(byp.test, 400).replace(" ", "").replace('"', "'") if byp is not None else ""
    ctx.ob(R, "pandapower.powerflow::_run_pf_algorithm::bypass-guard", "notoptions['distributed_slack']" in t,
           "the bypass for nets with reference buses only is not taken with distributed_slack" if "notoptions['distributed_slack']" in t else
           f"bypass condition `{t[:120]}` ignores distributed_slack: with reference buses only every machine just covers its local demand",
           fpa.loc(byp) if byp is not None else fpa.loc())
    fn = ctx.repo.func(f"{CJ}:_create_J_without_numba")
    j10 = [st for st in ast.walk(fn.node) if isinstance(st, ast.Assign) and isinstance(st.targets[0], ast.Name) and st.targets[0].id == "J10"]
    rows = [st for st in ast.walk(fn.node) if isinstance(st, ast.Assign) and isinstance(st.targets[0], ast.Name) and st.targets[0].id == "rows_pvpq"]
    ok = bool(j10) and "slack_weights[rows_pvpq]" in norm(j10[0].value, 100).replace(" ", "") and \
        any("r_[ref,pvpq]" in norm(r.value, 80).replace(" ", "") for r in rows)
    ctx.ob(R, f"{CJ}::_create_J_without_numba::slack-column", ok, f"J10 = {norm(j10[0].value, 80) if j10 else '?'}", fn.loc())


def rule_ref(ctx):
    R = "SW-REF"
    ctx.rule(R, "before pfsoln extracts results, buses with a non-zero bus weight join ref and generators with a non-zero weight "
                "join ref_gens (otherwise their share is never written to PG / PD)")
    fi = ctx.repo.func(f"{NR}:_get_pf_variables_from_ppci") if ctx.repo.try_func(f"{NR}:_get_pf_variables_from_ppci") else None
    if fi is None or "buses_with_slack_weights" not in ast.unparse(fi.node):
        fi = None
        for f in ctx.repo.module(NR).functions.values():
            if "buses_with_slack_weights" in ast.unparse(f.node):
                fi = f
    if fi is None:
        ctx.fail("run_newton_raphson_pf: extension of ref / ref_gens by the slack weights not found")
    asg = _assigns(fi.node)
    def val(n):
        return [norm(st.value, 160).replace(" ", "").replace('"', "'") for st in asg.get(n, [])]
    g = val("gens_with_slack_weights")
    b = val("buses_with_slack_weights")
    ok_g = any("internal['gen'][:,SL_FAC]!=0" in x for x in g)
    ok_b = any("internal['bus'][:,SL_FAC_BUS]!=0" in x and "BUS_I" in x for x in b)
    ok_r = any(x.startswith("union1d(internal['ref'],buses_with_slack_weights)") for x in val("ref"))
    ok_rg = any(x.startswith("union1d(internal['ref_gens'],gens_with_slack_weights)") for x in val("ref_gens"))
    ctx.ob(R, f"{NR}::{fi.qualname}::gens", ok_g and ok_rg, f"gens_with_slack_weights = {g}; ref_gens = {val('ref_gens')}", fi.loc())
    ctx.ob(R, f"{NR}::{fi.qualname}::buses", ok_b and ok_r, f"buses_with_slack_weights = {b}; ref = {val('ref')}", fi.loc())


def rule_xward(ctx):
    R = "SW-XWARD"
    ctx.rule(R, "_extract_dist_slack_pq_results: iterates over the distinct buses of in-service xwards; the total weight of a bus is a "
                "scalar sum; the constant demand subtracted from PD is scaled and counts generation (sgen) negative, as it was "
                "aggregated into the bus; the variable part is added to the result rows of the xwards of that bus only; "
                "write_pq_results_to_element calls it for xward under distributed_slack after the set-point has been written")
    fi = ctx.repo.func(f"{RB}:_extract_dist_slack_pq_results")
    loops = [n for n in fi.node.body if isinstance(n, ast.For)]
    if not loops:
        ctx.fail("_extract_dist_slack_pq_results: bus loop not found")
    lp = loops[0]
    it = norm(lp.iter, 160).replace(" ", "").replace('"', "'")
    ok = "unique(" in it and ("_is_elements[element]" in it or "in_service" in it)
    ctx.ob(R, f"{RB}::_extract_dist_slack_pq_results::buses", ok,
           "distinct buses of in-service elements" if ok else
           f"`for {norm(lp.target)} in {norm(lp.iter, 80)}`: buses of out-of-service xwards are visited and a bus with two xwards is "
           "visited twice (the share is added once per visit)", fi.loc(lp))
    ne = next((st for st in fi.node.body if isinstance(st, ast.Assign) and norm(st.targets[0], 20) == "node_elements"), None)
    got = [e.value for e in ne.value.elts if isinstance(e, ast.Constant)] if ne is not None and isinstance(ne.value, (ast.List, ast.Tuple)) else []
    need = {"sgen", "load", "ward", "xward", "storage"}
    ctx.ob(R, f"{RB}::_extract_dist_slack_pq_results::node-elements", need <= set(got),
           f"constant demand of {sorted(got)} is subtracted" if need <= set(got) else
           f"node_elements = {got} lacks {sorted(need - set(got))}: the demand of such an element at the xward bus is booked as slack share of the xward "
           "and counted twice", fi.loc(ne) if ne is not None else fi.loc())
    # connected elements: in service only
    conns = [n for n in ast.walk(lp) if isinstance(n, ast.Assign) and len(n.targets) == 1 and isinstance(n.targets[0], ast.Name) and n.targets[0].id == "conn"]
    if not conns:
        ctx.fail("_extract_dist_slack_pq_results: selection of the connected elements not found")
    for i, n in enumerate(conns):
        v = norm(n.value, 160).replace(" ", "")
        ok = "in_service" in v and "bus" in v
        ctx.ob(R, f"{RB}::_extract_dist_slack_pq_results::connected{i}", ok,
               "elements at the bus: in service only" if ok else
               f"`conn = {v[:90]}` also takes out-of-service elements: their set-points are subtracted from the bus demand although they are not part of it",
               fi.loc(n))
    # total weight accumulations
    tw = [n for n in ast.walk(lp) if isinstance(n, ast.AugAssign) and isinstance(n.target, ast.Name) and n.target.id == "total_weight"]
    for i, n in enumerate(tw):
        v = norm(n.value, 120).replace(" ", "")
        ok = v.endswith(".sum()") or v.startswith("np.sum(") or v.startswith("sum(")
        ctx.ob(R, f"{RB}::_extract_dist_slack_pq_results::total-weight{i}", ok,
               "total weight is a sum" if ok else f"`total_weight += {norm(n.value, 60)}` keeps one entry per element: with two "
               "weighted elements at the bus each receives the full variable power", fi.loc(n))
    if not tw:
        ctx.fail("_extract_dist_slack_pq_results: accumulation of total_weight not found")
    # constant demand
    sub = [n for n in ast.walk(lp) if isinstance(n, ast.AugAssign) and isinstance(n.target, ast.Name) and n.target.id == "p_bus"
           and isinstance(n.op, ast.Sub)]
    if not sub:
        ctx.fail("_extract_dist_slack_pq_results: subtraction of the constant demand not found")
    asg = _assigns(lp)

    def expand(e, depth=0):
        txt = norm(e, 400)
        if depth < 3:
            for nm in names_in(e):
                for st in asg.get(nm, []):
                    txt += " | " + expand(st.value, depth + 1)
        return txt
    for i, n in enumerate(sub):
        txt = expand(n.value).replace('"', "'")
        has_scaling = "scaling" in txt
        # generation convention exactly for sgen (storage, load, ward, xward are demand): the sign table of the bus aggregation (C01)
        negs = set()
        for x in ast.walk(n.value):
            if isinstance(x, ast.IfExp) and isinstance(x.body, (ast.UnaryOp, ast.Constant)) and norm(x.body, 10).replace(" ", "") == "-1":
                for c in ast.walk(x.test):
                    if isinstance(c, ast.Constant) and isinstance(c.value, str):
                        negs.add(c.value)
        has_sign = negs == {"sgen"}
        ctx.ob(R, f"{RB}::_extract_dist_slack_pq_results::constant-demand{i}", has_scaling and has_sign,
               "constant demand: scaled, sgen negative" if has_scaling and has_sign else
               "the constant part subtracted from the bus demand " + ("ignores scaling" if not has_scaling else "") +
               (" and " if not has_scaling and not has_sign else "") + ("counts sgen generation as demand" if not has_sign else "") +
               ": with such an element at the xward bus the difference is booked as slack contribution of the xward", fi.loc(n))
    # share store
    shares = [n for n in ast.walk(lp) if isinstance(n, (ast.AugAssign, ast.Assign)) and "total_weight" in names_in(n.value)
              and "res_" in ast.unparse(n.target if isinstance(n, ast.AugAssign) else n.targets[0])]
    if not shares:
        ctx.fail("_extract_dist_slack_pq_results: store of the share into the result table not found")
    for i, n in enumerate(shares):
        tg = n.target if isinstance(n, ast.AugAssign) else n.targets[0]
        t = norm(tg, 100).replace(" ", "")
        ok = ".loc[idx," in t or ".loc[idx][" in t
        v = norm(n.value, 100).replace(" ", "")
        okv = v == "p_bus*elm_weight/total_weight"
        ctx.ob(R, f"{RB}::_extract_dist_slack_pq_results::share{i}", ok and okv,
               "share added to the rows of this bus" if ok and okv else
               (f"`{norm(n, 90)}` adds the share of this bus to every row of the result table" if not ok else f"share = {v}"), fi.loc(n))
    # caller guard and order
    fw = ctx.repo.func(f"{RB}:write_pq_results_to_element")
    call = None
    for n in ast.walk(fw.node):
        if isinstance(n, ast.If) and any(isinstance(x, ast.Call) and (dotted(x.func) or "") == "_extract_dist_slack_pq_results" for s in n.body for x in ast.walk(s)):
            call = n
    ok = False
    if call is not None:
        t = norm(call.test, 300).replace('"', "'").replace(" ", "")
        ok = "distributed_slack" in t and "element=='xward'" in t
        # after the set-point store
        setp = [st for st in fw.node.body if isinstance(st, ast.Assign) and "p_mw" in ast.unparse(st.targets[0]) and "values[:]" in ast.unparse(st.targets[0])]
        ok = ok and bool(setp) and setp[-1].lineno < call.lineno
    ctx.ob(R, f"{RB}::write_pq_results_to_element::call", ok, "called for xward under distributed_slack after the set-point store",
           fw.loc(call) if call is not None else fw.loc())


def run(ctx):
    ctx.assume("decides the bookkeeping of slack weights (flow into ppc, pairing with buses, per-island normalisation, split at shared "
               "buses, mismatch term, result extraction for xwards); the equal-deviation property of the converged solution is not decided")
    rule_flow(ctx)
    rule_pair(ctx)
    rule_norm(ctx)
    rule_split(ctx)
    rule_mismatch(ctx)
    rule_ref(ctx)
    rule_xward(ctx)
    rule_always(ctx)


def rule_always(ctx):
    R = "SW-ALWAYS"
    ctx.rule(R, "whenever the gen part of the ppc is (re)built with distributed_slack, the weights are normalised again: the call of "
                "_normalise_slack_weights in _build_gen_ppc depends on distributed_slack only (the gen rows are rebuilt from the "
                "tables, a kept bus column would belong to the previous weights); the per-bus loop of "
                "_extract_dist_slack_pq_results visits every xward bus (no return / break inside)")
    fi = ctx.repo.func(f"{BG}:_build_gen_ppc")
    pm = {c: p_ for p_ in ast.walk(fi.node) for c in ast.iter_child_nodes(p_)}
    calls = [c for c in ast.walk(fi.node) if isinstance(c, ast.Call) and dotted(c.func) == "_normalise_slack_weights"]
    if not calls:
        ctx.fail("_build_gen_ppc: call of _normalise_slack_weights not found")
    for c in calls:
        conds = []
        node = c
        while node in pm:
            par = pm[node]
            if isinstance(par, (ast.If, ast.While)) and node is not par.test:
                conds.append(par.test if node in par.body else ast.UnaryOp(op=ast.Not(), operand=par.test))
            node = par
        extra = sorted({nm for t in conds for nm in names_in(inline_locals(fi.node, t, keep=("distributed_slack",)))} - {"distributed_slack"})
        ok = bool(conds) and not extra
        ctx.ob(R, f"{BG}::_build_gen_ppc::normalise-guard", ok,
               "normalisation runs whenever distributed_slack is set" if ok else
               f"the normalisation also depends on {extra} (`{'; '.join(norm(t, 60) for t in conds)}`): in the runs where it is skipped "
               "the bus contribution factors are those of an earlier weight vector", fi.loc(c))
    fx = ctx.repo.func("pandapower.results_bus:_extract_dist_slack_pq_results")
    loops = [n for n in fx.node.body if isinstance(n, ast.For)]
    if not loops:
        ctx.fail("_extract_dist_slack_pq_results: loop over the buses not found")
    lp = loops[0]
    exits = [x for x in ast.walk(lp) if isinstance(x, ast.Return)]
    # break statements that leave the bus loop itself (not an inner loop)
    def _breaks(sts, inner):
        out = []
        for st in sts:
            if isinstance(st, ast.Break) and not inner:
                out.append(st)
            elif isinstance(st, (ast.For, ast.While)):
                out += _breaks(st.orelse, inner)
            else:
                for fld in ("body", "orelse", "finalbody"):
                    out += _breaks(getattr(st, fld, []) or [], inner)
                for h in getattr(st, "handlers", []) or []:
                    out += _breaks(h.body, inner)
        return out
    exits += _breaks(lp.body, False)
    ctx.ob(R, "pandapower.results_bus::_extract_dist_slack_pq_results::bus-loop", not exits,
           "every bus with a distributed-slack element is visited" if not exits else
           f"`{norm(exits[0], 30)}` inside the loop over the buses ends the extraction at the first bus that meets the condition: elements "
           "at the remaining buses keep their setpoint as result although they took part in the balancing", fx.loc(exits[0]) if exits else fx.loc(lp))


def variants(repo):
    bg = "pandapower/build_gen.py"
    ps = "pandapower/pypower/pfsoln.py"
    npf = "pandapower/pypower/newtonpf.py"
    rb = "pandapower/results_bus.py"
    nr = "pandapower/pf/run_newton_raphson_pf.py"
    cj = "pandapower/pf/create_jacobian.py"
    V = Variant
    return [
        V("normalisation skipped for a recycled ppc", bg, in_function("_build_gen_ppc", replace_once("    if distributed_slack:\n", '    recycled = isinstance(net["_options"].get("recycle", None), dict) and np.any(ppc["bus"][:, SL_FAC_BUS] != 0)\n    if distributed_slack and not recycled:\n')), "normalise-guard"),
        V("early return in the xward bus loop", rb, in_function("_extract_dist_slack_pq_results", replace_once("        # now, distribute the variable part of the active power among the dist_slack elements\n", "        if total_weight == 0:\n            return\n")), "bus-loop"),
        V("twin: zero-weight bus skipped with continue", rb, in_function("_extract_dist_slack_pq_results", replace_once("        # now, distribute the variable part of the active power among the dist_slack elements\n", "        if total_weight == 0:\n            continue\n")), None),
        V("gen weights not written", bg, in_function("_build_pp_gen", replace_once('    ppc["gen"][f:t, SL_FAC] = net["gen"]["slack_weight"].values[gen_is]\n', "")), "_build_pp_gen::gen.slack_weight"),
        V("xward weights without in-service mask", bg, in_function("_build_pp_xward", replace_once('net["xward"]["slack_weight"].values[xw_is]', 'net["xward"]["slack_weight"].values[:t - f]')), "_build_pp_xward::xward.slack_weight"),
        V("aux buses compared without the bus lookup", bg, replace_once("aux_buses_ppc = net[\"_pd2ppc_lookups\"][\"bus\"][aux_buses]", "aux_buses_ppc = aux_buses"), "ppc-numbering"),
        V("xward buses through setdiff1d", bg, replace_once("xward_pq_buses = xward_pq_buses[ppc['bus'][xward_pv_buses, BUS_TYPE] != NONE]",
                                                            "xward_pq_buses = np.setdiff1d(xward_pq_buses, xward_pq_buses[ppc['bus'][xward_pv_buses, BUS_TYPE] == NONE])"), "order-preserving"),
        V("xward buses unique", bg, replace_once("xward_pq_buses = xward_pq_buses[ppc['bus'][xward_pv_buses, BUS_TYPE] != NONE]",
                                                 "xward_pq_buses = np.unique(xward_pq_buses[ppc['bus'][xward_pv_buses, BUS_TYPE] != NONE])"), "order-preserving"),
        V("weights concatenated xward first", bg, replace_once("np.r_[ppc['gen'][gen_mask, SL_FAC], ppc['gen'][xward_mask, SL_FAC]]", "np.r_[ppc['gen'][xward_mask, SL_FAC], ppc['gen'][gen_mask, SL_FAC]]"), "r_-order"),
        V("divisor over all islands", bg, replace_once("sum_slack_weights = np.sum(slack_weights_gen[subnet_gen_mask])", "sum_slack_weights = np.sum(slack_weights_gen)"), "divisor"),
        V("bus weights stored at gen buses", bg, replace_once("ppc['bus'][buses, SL_FAC_BUS] = slack_weights_bus", "ppc['bus'][gen_buses[subnet_gen_mask], SL_FAC_BUS] = slack_weights_gen[subnet_gen_mask]"), "_normalise_slack_weights::store"),
        V("negative sum accepted", bg, replace_once("        elif sum_slack_weights < 0:\n", "        elif sum_slack_weights < -1:\n"), "degenerate-sums-raise"),
        V("share relative to zero", ps, replace_once("p_ext_grids - sum(gen[ext_grids, PG])) * slack_weights / sum_slack_weights", "p_ext_grids) * slack_weights / sum_slack_weights"), "_split_p_for_gens_at_same_bus::share"),
        V("weights of all gens at bus", ps, replace_once("slack_weights = gen[ext_grids, SL_FAC]", "slack_weights = gen[gens_at_bus, SL_FAC][:len(ext_grids)]"), "weights-rows"),
        V("mismatch sign", npf, replace_once("- Sbus + slack_weights * slack", "- Sbus - slack_weights * slack"), "_evaluate_Fx::mismatch"),
        V("ref rows dropped from residual", npf, replace_once("F = r_[mis[ref].real, mis[pv].real, mis[pq].real, mis[pq].imag]", "F = r_[mis[ref[1:]].real, mis[pv].real, mis[pq].real, mis[pq].imag]"), "residual-rows"),
        V("non-numba jacobian without weights", cj, replace_once("J = _create_J_without_numba(Ybus, V, ref, pvpq, pq, slack_weights, dist_slack)", "J = _create_J_without_numba(Ybus, V, ref, pvpq, pq, None, dist_slack)"), "_create_J_without_numba"),
        V("weighted gens not reference", nr, replace_once('ref_gens = union1d(internal["ref_gens"], gens_with_slack_weights)', 'ref_gens = internal["ref_gens"]'), "SW-REF"),
        V("storage not among the node elements", rb, replace_once("node_elements = ['sgen', 'load', 'ward', 'xward', 'storage']", "node_elements = ['sgen', 'load', 'ward', 'xward']"), "node-elements"),
        V("out-of-service neighbours subtracted", rb, replace_once("conn = net[e].loc[net[e].in_service & (net[e].bus == b)].index.values", "conn = net[e].index.values[net[e].bus.values == b]"), "connected0"),
        V("storage counted as generation", rb, replace_once('p_bus -= p_elm.sum() * (-1 if e == "sgen" else 1)', 'p_bus -= p_elm.sum() * (-1 if e in ("sgen", "storage") else 1)'), "constant-demand0"),
        V("only the second reference bus becomes pv", npf, replace_once("pv = r_[ref[1:], pv]", "pv = r_[ref[1], pv]"), "further-references-become-pv"),
        V("bypass also with distributed slack", "pandapower/powerflow.py", replace_once("if pq.shape[0] == 0 and pv.shape[0] == 0 and not options['distributed_slack'] \\\n", "if pq.shape[0] == 0 and pv.shape[0] == 0 \\\n"), "bypass-guard"),
        V("share added to the whole column", rb, replace_once('net[res_].loc[idx, "p_mw"] += p_bus * elm_weight / total_weight', 'net[res_]["p_mw"] += p_bus * elm_weight / total_weight'), "share0"),
        V("total weight per element", rb, replace_once("total_weight += np.abs(net[e].loc[idx, 'slack_weight'].values).sum()", "total_weight += np.abs(net[e].loc[idx, 'slack_weight'].values)"), "total-weight0"),
        V("all xward buses visited", rb, replace_once("for b in np.unique(net[element].bus.values[net._is_elements[element]]):", "for b in net[element].bus.values:"), "_extract_dist_slack_pq_results::buses"),
        V("demand without scaling", rb, in_function("_extract_dist_slack_pq_results", replace_once('            if "scaling" in net[e].columns:\n                p_elm = p_elm * net[e].loc[idx, "scaling"].values\n', "")), "constant-demand0"),
        V("sgen counted as demand", rb, in_function("_extract_dist_slack_pq_results", replace_once('p_bus -= p_elm.sum() * (-1 if e == "sgen" else 1)', "p_bus -= p_elm.sum()")), "constant-demand0"),
        V("twin: weight sum via np.sum", rb, replace_once("total_weight += np.abs(net[e].loc[idx, 'slack_weight'].values).sum()", "total_weight += np.sum(np.abs(net[e].loc[idx, 'slack_weight'].values))"), None),
        V("twin: boolean mask spelled with ~ ==", bg, replace_once("xward_pq_buses = xward_pq_buses[ppc['bus'][xward_pv_buses, BUS_TYPE] != NONE]", "xward_pq_buses = xward_pq_buses[~(ppc['bus'][xward_pv_buses, BUS_TYPE] == NONE)]"), None),
    ]
