"""C17 - OPF minimises the user's cost functions: sign-parity clause.

A load / storage / dcline is an internal generator with pg = -p.  The user's cost
c2*p^2 + c1*p + c0 is c2*pg^2 - c1*pg + c0 in the solver's variable: the element sign may
multiply coefficients of odd degree only.  In the polynomial gencost layout the slot COST+k
under NCOST = n holds the coefficient of degree n-1-k.  Decided: in _fill_gencost_poly (P and Q
blocks) the stored value carries the element sign iff the degree is odd; the linear->pwl helper
multiplies cost values (degree 1 in p) by the sign and leaves the break points to PMIN/PMAX;
net.res_cost flows from the objective value of the solved problem.
Not decided: optimality of the solver.
"""
import ast

from ppsa.astutil import names_in, norm, fold, NOFOLD
from ppsa.selftest import Variant, replace_once, in_function

MO = "pandapower.opf.make_objective"


def _cost_slot(target):
    """k if target is ppci['gencost'][rows, COST + k] (COST alone -> 0), 'NCOST' for the NCOST column."""
    if not (isinstance(target, ast.Subscript) and isinstance(target.slice, ast.Tuple) and len(target.slice.elts) == 2):
        return None
    if "gencost" not in ast.unparse(target.value):
        return None
    c = target.slice.elts[1]
    if isinstance(c, ast.Name):
        return 0 if c.id == "COST" else ("NCOST" if c.id == "NCOST" else None)
    if isinstance(c, ast.BinOp) and isinstance(c.op, ast.Add) and isinstance(c.left, ast.Name) and c.left.id == "COST" \
            and isinstance(c.right, ast.Constant):
        return int(c.right.value)
    return None


def _signed_names(fn):
    """Names whose value (transitively, through simple local assignments) mentions the element sign."""
    signed = {"signs", "sign"}
    changed = True
    while changed:
        changed = False
        for n in ast.walk(fn):
            if isinstance(n, ast.Assign) and len(n.targets) == 1 and isinstance(n.targets[0], ast.Name):
                t = n.targets[0].id
                if t not in signed and t not in ("signs", "sign") and names_in(n.value) & signed:
                    signed.add(t)
                    changed = True
    return signed


def _blocks_with_ncost(fn):
    """Yield (ncost, [assign statements]) for every statement list that sets NCOST to a literal."""
    for node in ast.walk(fn):
        for field in ("body", "orelse"):
            body = getattr(node, field, None)
            if not isinstance(body, list):
                continue
            n = None
            assigns = []
            for st in body:
                if isinstance(st, ast.Assign) and len(st.targets) == 1:
                    slot = _cost_slot(st.targets[0])
                    if slot == "NCOST" and isinstance(st.value, ast.Constant):
                        n = int(st.value.value)
                    elif isinstance(slot, int):
                        assigns.append((slot, st))
            if n is not None and assigns:
                yield n, assigns


def run(ctx):
    ctx.assume("the element sign is the variable named 'signs'/'sign' produced by _map_costs_to_gen (-1 for load, storage, "
               "dcline); decides coefficient sign parity, not the optimum")
    R = "SIGN-PARITY"
    ctx.rule(R, "polynomial gencost: the coefficient stored in slot COST+k under NCOST=n has degree n-1-k; it is multiplied "
                "by the element sign iff that degree is odd")
    fi = ctx.repo.func(f"{MO}:_fill_gencost_poly")
    n_found = 0
    sn = _signed_names(fi.node)
    for n, assigns in _blocks_with_ncost(fi.node):
        for slot, st in assigns:
            deg = n - 1 - slot
            signed = bool(names_in(st.value) & sn)
            ok = signed == (deg % 2 == 1)
            n_found += 1
            ctx.ob(R, f"{MO}::_fill_gencost_poly::NCOST={n}:{norm(st.targets[0], 80)}", ok,
                   f"degree-{deg} coefficient {'is' if signed else 'is not'} multiplied by the element sign"
                   + ("" if ok else (" (even-degree terms must keep their sign: c2*p^2 and c0 do not change under p -> -p)"
                                     if deg % 2 == 0 else " (odd-degree terms must change sign under p -> -p)")),
                   fi.loc(st))
    if n_found < 10:
        ctx.fail(f"_fill_gencost_poly: only {n_found} coefficient stores recognised (confirmed: 10)")
    # sign table itself: -1 exactly for load, storage, dcline (P) in _map_costs_to_gen
    fm = ctx.repo.func(f"{MO}:_map_costs_to_gen")
    neg = None
    for node in ast.walk(fm.node):
        if isinstance(node, ast.IfExp) and isinstance(node.body, ast.UnaryOp) and isinstance(node.test, ast.Compare):
            v = fold(node.test.comparators[0])
            if v is not NOFOLD:
                neg = set(v)
    ctx.ob(R, f"{MO}::_map_costs_to_gen::sign-table", neg == {"load", "storage", "dcline"},
           f"element sign is -1 exactly for {sorted(neg) if neg else neg} (required: dcline, load, storage)", fm.loc())
    # the sign vector is row-aligned with the cost table that is returned: it must be built after the last filtering of `cost`
    sts = [st for st in fm.node.body if isinstance(st, ast.Assign)]
    pos_sign = [i for i, st in enumerate(sts) if any(isinstance(t, ast.Name) and t.id == "signs" for t in st.targets)]
    pos_cost = [i for i, st in enumerate(sts) if any(isinstance(t, ast.Name) and t.id == "cost" for t in st.targets)]
    ok = len(pos_sign) == 1 and (not pos_cost or max(pos_cost) < pos_sign[0]) and "cost" in names_in(sts[pos_sign[0]].value)
    ctx.ob(R, f"{MO}::_map_costs_to_gen::signs-aligned-with-filtered-costs", ok,
           "signs are computed from the cost rows that are kept" if ok else
           "the sign vector is built before the cost table is filtered (rows of elements that do not take part are dropped afterwards): "
           "signs and cost rows are no longer aligned, later entries get the sign of other elements", fm.loc(sts[pos_sign[0]]) if pos_sign else fm.loc())
    # DC OPF: polynomial coefficients (c2, c1, c0) in MW-units are converted to per unit with baseMVA^(2, 1, 0)
    fd = ctx.repo.func("pandapower.pypower.dcopf_solver:dcopf_solver")
    conv = None
    for node in ast.walk(fd.node):
        if isinstance(node, ast.Assign) and norm(node.targets[0]) == "polycf" and "baseMVA" in norm(node.value):
            lists = [n for n in ast.walk(node.value) if isinstance(n, (ast.List, ast.Tuple)) and len(n.elts) == 3]
            if lists:
                conv = (node, lists[0])
    if conv is None:
        ctx.fail("dcopf_solver: per-unit conversion of the polynomial cost coefficients not found")

    def bexp(e):
        if isinstance(e, ast.Name) and e.id == "baseMVA":
            return 1
        if isinstance(e, ast.BinOp) and isinstance(e.op, ast.Pow) and isinstance(e.left, ast.Name) and e.left.id == "baseMVA" \
                and isinstance(e.right, ast.Constant):
            return e.right.value
        if isinstance(e, ast.BinOp) and isinstance(e.op, ast.Mult) and all(isinstance(x, ast.Name) and x.id == "baseMVA" for x in (e.left, e.right)):
            return 2
        if isinstance(e, ast.Constant) and e.value == 1:
            return 0
        return None
    exps = [bexp(e) for e in conv[1].elts]
    ok = exps == [2, 1, 0]
    ctx.ob(R, "pandapower.pypower.dcopf_solver::dcopf_solver::polycf-per-unit", ok,
           "columns (c2, c1, c0) are scaled by baseMVA^(2, 1, 0)" if ok else
           f"columns (c2, c1, c0) are scaled by baseMVA^{exps}: for net.sn_mva != 1 the DC OPF minimises a different cost function", fd.loc(conv[0]))
    # linear costs as pwl: cost values signed, break points from PMIN/PMAX
    fl = ctx.repo.func(f"{MO}:_add_linear_costs_as_pwl_cost")
    for node in ast.walk(fl.node):
        if isinstance(node, ast.Assign) and len(node.targets) == 1:
            slot = _cost_slot(node.targets[0])
            if isinstance(slot, int):
                signed = bool(names_in(node.value) & {"signs", "sign"})
                want = slot % 2 == 1   # slots 1, 3 are cost values, 0, 2 are break points
                ctx.ob(R, f"{MO}::_add_linear_costs_as_pwl_cost::COST+{slot}", signed == want,
                       f"pwl slot {slot} ({'cost value' if want else 'break point'}) {'is' if signed else 'is not'} multiplied by the sign",
                       fl.loc(node))
    R2 = "COST-FLOW"
    ctx.rule(R2, "net.res_cost is assigned from ppc['obj'], which _copy_results_ppci_to_ppc / opf fill from the solver's "
                 "objective value f of the same gencost")
    fr = ctx.repo.func("pandapower.results:_extract_results")
    found = False
    for mname in ("pandapower.results", "pandapower.results_gen", "pandapower.results_bus"):
        m = ctx.repo.module(mname)
        for node in ast.walk(m.tree):
            if isinstance(node, ast.Assign) and "res_cost" in ast.unparse(node.targets[0]):
                found = True
                ok = "obj" in ast.unparse(node.value) or "['f']" in ast.unparse(node.value)
                ctx.ob(R2, f"{mname}::res_cost", ok, f"res_cost <- {norm(node.value, 60)}", f"{m.relpath}:{node.lineno}")
    if not found:
        ctx.fail("assignment of net.res_cost not found")
    rule_cost_rows(ctx)


def rule_cost_rows(ctx):
    """a cost reaches the row / the columns of the generator it belongs to"""
    from rules import _lints
    from ppsa.astutil import inline_locals
    R3 = "COST-ROW"
    ctx.rule(R3, "the cost of dcline k is mapped to the auxiliary generator of its from side: row len(net.gen) - 2*len(net.dcline) + 2*k + 1 "
                 "(two auxiliary generators per dcline, appended in table order; decided by evaluating the index expression for sample "
                 "values); makeAy computes the segment count ns of a piecewise-linear cost inside every loop that uses it")
    fi = ctx.repo.func(f"{MO}:_get_gen_index")
    blk = next((n for n in fi.node.body if isinstance(n, ast.If) and "dcline" in norm(n.test, 40)), None)
    st = next((x for x in (blk.body if blk else []) if isinstance(x, ast.Assign) and norm(x.targets[0], 20) == "element"), None)
    ok = False
    det = "dcline branch not found"
    if st is not None:
        e = inline_locals(blk, st.value, keep=("dc_idx",))

        def ev(n, G, N, k):
            t = norm(n, 80).replace(" ", "")
            if t in ("len(net.gen.index)", "len(net.gen)", "net.gen.shape[0]"):
                return G
            if t in ("len(net.dcline)", "len(net.dcline.index)", "net.dcline.shape[0]"):
                return N
            if isinstance(n, ast.Name) and n.id == "dc_idx":
                return k
            if isinstance(n, ast.Constant) and isinstance(n.value, int):
                return n.value
            if isinstance(n, ast.BinOp):
                a, b = ev(n.left, G, N, k), ev(n.right, G, N, k)
                if isinstance(n.op, ast.Add):
                    return a + b
                if isinstance(n.op, ast.Sub):
                    return a - b
                if isinstance(n.op, ast.Mult):
                    return a * b
            raise ValueError(t)
        try:
            vals = [(ev(e, G, N, k), G - 2 * N + 2 * k + 1) for G, N, k in ((10, 3, 0), (10, 3, 1), (10, 3, 2), (7, 1, 0), (25, 4, 3))]
            ok = all(a == b for a, b in vals)
            det = f"element = {norm(e, 90)}; sample rows (got, expected): {vals}"
        except ValueError as ex:
            det = f"index expression not evaluable: {ex}"
    ctx.ob(R3, f"{MO}::_get_gen_index::dcline-row", ok, det, fi.loc(st) if st is not None else fi.loc())
    fdc = ctx.repo.func("pandapower.pypower.dcopf_solver:dcopf_solver")
    k = 0
    for st in ast.walk(fdc.node):
        if isinstance(st, ast.Assign) and isinstance(st.targets[0], ast.Subscript) and norm(st.targets[0].value, 10) == "polycf" and "gencost[" in norm(st.value, 80):
            k += 1
            t = norm(st.value, 80).replace(" ", "")
            sel = norm(st.targets[0].slice, 30).replace(" ", "").strip("()").split(",")[0]
            ok = t.startswith(f"gencost[ipol[{sel}],")
            ctx.ob(R3, f"pandapower.pypower.dcopf_solver::dcopf_solver::polycf[{sel}]", ok,
                   f"polycf[{sel}] = {t}" if ok else f"`polycf[{sel}, ...] = {t}` indexes gencost with a position inside the polynomial subset instead of "
                   f"ipol[{sel}]: the coefficients of another generator (e.g. a pwl row) are used", fdc.loc(st))
    if k < 2:
        ctx.fail(f"dcopf_solver: only {k} polycf assignments from gencost found (confirmed: 2)")
    fa = ctx.repo.func("pandapower.pypower.makeAy:makeAy")
    pst = [st for st in ast.walk(fa.node) if isinstance(st, ast.Assign) and norm(st.targets[0], 5) == "p" and "gencost[" in norm(st.value, 80)]
    for i, st in enumerate(pst):
        t = norm(st.value, 100).replace(" ", "")
        ctx.ob(R3, f"pandapower.pypower.makeAy::makeAy::breakpoints-per-unit#{i}", t.endswith("/baseMVA"),
               f"p = {t}" if t.endswith("/baseMVA") else f"`p = {t}`: the break points stay in MW while Pg is per unit - the cost constraints are wrong for sn_mva != 1", fa.loc(st))
    if not pst:
        ctx.fail("makeAy: break point assignment not found")
    if _lints.stale_loop_variable(ctx, R3, [fa]) < 2:
        ctx.fail("makeAy: the two loops over the piecewise-linear costs were not found")


def variants(repo):
    p = "pandapower/opf/make_objective.py"
    V = Variant
    return [
        V("linear dc costs read from the wrong gencost rows", "pandapower/pypower/dcopf_solver.py", replace_once("polycf[ilin, 1:3] = gencost[ipol[ilin], COST:COST + 2]", "polycf[ilin, 1:3] = gencost[ilin, COST:COST + 2]"), "polycf[ilin]"),
        V("pwl break points not per unit", "pandapower/pypower/makeAy.py", replace_once("p = gencost[i, COST:COST + 2 * ns - 1:2] / baseMVA", "p = gencost[i, COST:COST + 2 * ns - 1:2]"), "breakpoints-per-unit"),
        V("dcline cost on the wrong auxiliary generator", p, replace_once("element = len(net.gen.index) - 2*len(net.dcline) + dc_idx*2 + 1", "element = len(net.gen.index) - 2*len(net.dcline) + dc_idx + 1"), "dcline-row"),
        V("makeAy reuses the segment count of the last row", "pandapower/pypower/makeAy.py", lambda s: s.replace("    for i in iycost:\n        ns = gencost[i, NCOST].astype(int64)\n        ## FIXME", "    for i in iycost:\n        ## FIXME", 1), "makeAy"),
        V("twin: first auxiliary generator in a local", p, replace_once("element = len(net.gen.index) - 2*len(net.dcline) + dc_idx*2 + 1", "first_dc_gen = len(net.gen.index) - 2*len(net.dcline)\n        element = first_dc_gen + 2*dc_idx + 1"), None),
        V("signs before filtering", p, in_function("_map_costs_to_gen", lambda s: s.replace('    signs = array([-1 if element in ["load", "storage", "dcline"] else 1 for element in cost.et])\n', '', 1).replace("    cost_is = array(", '    signs = array([-1 if element in ["load", "storage", "dcline"] else 1 for element in cost.et])\n    cost_is = array(', 1)), "signs-aligned-with-filtered-costs"),
        V("dc opf coefficients scaled in the wrong order", "pandapower/pypower/dcopf_solver.py", replace_once("polycf = dot(polycf, diag([ baseMVA**2, baseMVA, 1]))", "polycf = polycf * array([1, baseMVA, baseMVA**2])"), "polycf-per-unit"),
        V("sign on quadratic term", p, replace_once('ppci["gencost"][gens, COST] = c2\n', 'ppci["gencost"][gens, COST] = c2 * signs\n'), "NCOST=3"),
        V("sign missing on linear term", p, replace_once('ppci["gencost"][gens, COST + 1] = c1 * signs\n', 'ppci["gencost"][gens, COST + 1] = c1\n'), "NCOST=3"),
        V("sign on constant q", p, replace_once('ppci["gencost"][gens_q, COST + 1] = c0\n', 'ppci["gencost"][gens_q, COST + 1] = c0 * signs\n'), "NCOST=2"),
        V("storage not load-like", p, in_function("_map_costs_to_gen", replace_once('["load", "storage", "dcline"]', '["load", "dcline"]')), "sign-table"),
        V("twin: local name", p, in_function("_fill_gencost_poly", replace_once('ppci["gencost"][gens, COST + 1] = c1 * signs\n', 'lin = c1 * signs\n        ppci["gencost"][gens, COST + 1] = lin\n')), None),
    ]
