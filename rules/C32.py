"""C32 - characteristics: structural clauses only.

Not decided: that scipy's interpolators pass through / stay between the support points for run-time data.
Decided (necessary conditions of "returns y_i at x_i" and "survives serialisation"):

 INTERP-ARGS  every interpolator is built / called with the abscissae first and the ordinates second, from the object's own
              x_vals / y_vals: np.interp(x, x_vals, y_vals), default_interp1d(x_vals, y_vals, **kwargs) -> interp1d(x, y, kind=kind,
              bounds_error=bounds_error, fill_value=fill_value), PchipInterpolator(x_vals, y_vals, **kwargs); from_points takes
              column 0 as x and column 1 as y; from_gradient pairs x_left with y_min and x_right with y_max
 LOG-PAIR     LogSplineCharacteristic stores log10 of x in _x_vals and log10 of y in _y_vals, the getters return the matching
              attribute, and __call__ is 10 ** interpolator(log10(x)) (the inverse transform of the one applied to y)
 SERIAL       the cached scipy object `_interpolator` is excluded from serialisation and rebuilt lazily from attributes that
              __init__ assigns (x_vals, y_vals, interpolator_kind, kwargs), so a restored object interpolates as before
"""
import ast

from ppsa.astutil import norm, dotted
from ppsa.selftest import Variant, replace_once, in_function

CH = "pandapower.control.util.characteristic"


def _n(e, k=200):
    return norm(e, k).replace(" ", "").replace('"', "'")


def _bound(call, params):
    """{param: text} for positional and keyword arguments of call, params = the callee's leading parameter names"""
    out = {}
    for p, a in zip(params, call.args):
        out[p] = _n(a)
    for k in call.keywords:
        if k.arg:
            out[k.arg] = _n(k.value)
    return out


def rule_args(ctx):
    R = "INTERP-ARGS"
    ctx.rule(R, "abscissae first, ordinates second, both the object's own support points, in every interpolator construction / call; "
                "default_interp1d forwards kind, bounds_error and fill_value")
    f = ctx.repo.func(f"{CH}:Characteristic.__call__")
    rets = [x.value for x in ast.walk(f.node) if isinstance(x, ast.Return)]
    b = _bound(rets[0], ("x", "xp", "fp")) if len(rets) == 1 and isinstance(rets[0], ast.Call) and _n(rets[0].func) in ("interp", "np.interp", "numpy.interp") else {}
    ctx.ob(R, f"{CH}::Characteristic.__call__::interp", b == {"x": "x", "xp": "self.x_vals", "fp": "self.y_vals"}, f"np.interp arguments {b}", f.loc())
    g = ctx.repo.func(f"{CH}:SplineCharacteristic.interpolator")
    # the getter is the second definition with that name; take every function of that qualname
    cands = [fi for fi in ctx.repo.module(CH).functions.values() if fi.qualname == "SplineCharacteristic.interpolator"] or [g]
    calls = {}
    for fi in cands + [x for x in ast.walk(ctx.repo.module(CH).tree) if isinstance(x, ast.FunctionDef) and x.name == "interpolator"]:
        node = fi.node if hasattr(fi, "node") else fi
        for c in ast.walk(node):
            if isinstance(c, ast.Call) and isinstance(c.func, ast.Name) and c.func.id in ("default_interp1d", "PchipInterpolator"):
                calls[c.func.id] = c
    for name in ("default_interp1d", "PchipInterpolator"):
        c = calls.get(name)
        b = _bound(c, ("x", "y")) if c is not None else {}
        ok = c is not None and b == {"x": "self.x_vals", "y": "self.y_vals"} and any(k.arg is None and _n(k.value) == "self.kwargs" for k in c.keywords)
        ctx.ob(R, f"{CH}::SplineCharacteristic.interpolator::{name}", ok, f"{_n(c) if c is not None else 'call not found'}", g.loc())
    d = ctx.repo.func(f"{CH}:default_interp1d")
    c = next((x for x in ast.walk(d.node) if isinstance(x, ast.Call) and isinstance(x.func, ast.Name) and x.func.id == "interp1d"), None)
    ok = c is not None and _bound(c, ("x", "y")) == {"x": "x", "y": "y", "kind": "kind", "bounds_error": "bounds_error", "fill_value": "fill_value"}
    ctx.ob(R, f"{CH}::default_interp1d::forward", ok, _n(c) if c is not None else "interp1d call not found", d.loc())
    a = d.node.args
    dfl = {p.arg: _n(v) for p, v in zip(a.args[-len(a.defaults):], a.defaults)}
    ctx.ob(R, f"{CH}::default_interp1d::defaults", dfl.get("bounds_error") == "False" and dfl.get("fill_value") == "'extrapolate'",
           f"defaults {dfl}", d.loc())
    p = ctx.repo.func(f"{CH}:Characteristic.from_points")
    rets = [_n(x.value) for x in ast.walk(p.node) if isinstance(x, ast.Return)]
    ctx.ob(R, f"{CH}::Characteristic.from_points::columns", rets == ["cls(net,unzipped[0],unzipped[1],**kwargs)"], f"returns {rets}", p.loc())
    q = ctx.repo.func(f"{CH}:Characteristic.from_gradient")
    rets = [_n(x.value) for x in ast.walk(q.node) if isinstance(x, ast.Return)]
    asg = {_n(st.targets[0]): _n(st.value) for st in q.node.body if isinstance(st, ast.Assign)}
    ok = rets == ["cls(net,[x_left,x_right],[y_min,y_max],**kwargs)"] and asg.get("x_left") == "(y_min-zero_crossing)/float(gradient)" \
        and asg.get("x_right") == "(y_max-zero_crossing)/float(gradient)"
    ctx.ob(R, f"{CH}::Characteristic.from_gradient::pairs", ok, f"{asg}; returns {rets}", q.loc())
    i = ctx.repo.func(f"{CH}:Characteristic.__init__")
    asg = {_n(st.targets[0]): _n(st.value) for st in i.node.body if isinstance(st, ast.Assign)}
    ctx.ob(R, f"{CH}::Characteristic.__init__::store", asg.get("self.x_vals") == "x_values" and asg.get("self.y_vals") == "y_values", f"{asg}", i.loc())


def rule_log(ctx):
    R = "LOG-PAIR"
    ctx.rule(R, "LogSplineCharacteristic: x setter -> _x_vals = log10(x_values), y setter -> _y_vals = log10(y_values), getters return the "
                "matching attribute, __call__ = np.power(10, interpolator(np.log10(x)))")
    mod = ctx.repo.module(CH)
    cls = next((n for n in mod.tree.body if isinstance(n, ast.ClassDef) and n.name == "LogSplineCharacteristic"), None)
    if cls is None:
        ctx.fail("LogSplineCharacteristic vanished")
    for fn in cls.body:
        if not isinstance(fn, ast.FunctionDef) or fn.name not in ("x_vals", "y_vals"):
            continue
        ax = fn.name[0]
        deco = [_n(d) for d in fn.decorator_list]
        if "property" in deco:
            rets = [_n(x.value) for x in ast.walk(fn) if isinstance(x, ast.Return)]
            ctx.ob(R, f"{CH}::LogSplineCharacteristic.{fn.name}::getter", rets == [f"self._{ax}_vals"], f"returns {rets}", f"{mod.relpath}:{fn.lineno}")
        else:
            st = [(_n(s.targets[0]), _n(s.value)) for s in ast.walk(fn) if isinstance(s, ast.Assign)]
            ctx.ob(R, f"{CH}::LogSplineCharacteristic.{fn.name}::setter", st == [(f"self._{ax}_vals", f"np.log10({ax}_values)")], f"stores {st}", f"{mod.relpath}:{fn.lineno}")
    call = next((fn for fn in cls.body if isinstance(fn, ast.FunctionDef) and fn.name == "__call__"), None)
    rets = [_n(x.value) for x in ast.walk(call) if isinstance(x, ast.Return)] if call else []
    ctx.ob(R, f"{CH}::LogSplineCharacteristic.__call__::inverse", rets in (["np.power(10,self.interpolator(np.log10(x)))"], ["10**self.interpolator(np.log10(x))"]),
           f"returns {rets}", f"{mod.relpath}:{call.lineno if call else 0}")
    ctx.require_min(R, 5)


def rule_serial(ctx):
    R = "SERIAL"
    ctx.rule(R, "SplineCharacteristic.json_excludes contains '_interpolator'; the lazy getter caches in exactly that attribute and reads "
                "only attributes assigned by the __init__ chain; __call__ goes through the getter")
    mod = ctx.repo.module(CH)
    cls = next((n for n in mod.tree.body if isinstance(n, ast.ClassDef) and n.name == "SplineCharacteristic"), None)
    if cls is None:
        ctx.fail("SplineCharacteristic vanished")
    ex = next((st.value for st in cls.body if isinstance(st, ast.Assign) and _n(st.targets[0]) == "json_excludes"), None)
    vals = [e.value for e in ex.elts if isinstance(e, ast.Constant)] if isinstance(ex, (ast.List, ast.Tuple)) else []
    ctx.ob(R, f"{CH}::SplineCharacteristic::json_excludes", "_interpolator" in vals and "self" in vals and "__class__" in vals, f"json_excludes = {vals}", f"{mod.relpath}:{cls.lineno}")
    getter = [fn for fn in cls.body if isinstance(fn, ast.FunctionDef) and fn.name == "interpolator"][-1]
    stores = sorted({_n(s.targets[0]) for s in ast.walk(getter) if isinstance(s, ast.Assign)})
    tests = [_n(x) for x in ast.walk(getter) if isinstance(x, ast.Call) and isinstance(x.func, ast.Name) and x.func.id == "hasattr"]
    rets = [_n(x.value) for x in ast.walk(getter) if isinstance(x, ast.Return)]
    ctx.ob(R, f"{CH}::SplineCharacteristic.interpolator::cache-attribute", stores == ["self._interpolator"] and tests == ["hasattr(self,'_interpolator')"] and rets == ["self._interpolator"],
           f"stores {stores}, test {tests}, returns {rets}", f"{mod.relpath}:{getter.lineno}")
    reads = sorted({x.attr for x in ast.walk(getter) if isinstance(x, ast.Attribute) and isinstance(x.value, ast.Name) and x.value.id == "self"} - {"_interpolator"})
    init = next(fn for fn in cls.body if isinstance(fn, ast.FunctionDef) and fn.name == "__init__")
    base = ctx.repo.func(f"{CH}:Characteristic.__init__")
    assigned = {t.attr for fn in (init, base.node) for s in ast.walk(fn) if isinstance(s, ast.Assign) for t in s.targets
                if isinstance(t, ast.Attribute) and isinstance(t.value, ast.Name) and t.value.id == "self"}
    calls_super = any(isinstance(x, ast.Call) and _n(x.func) == "super().__init__" for x in ast.walk(init))
    ctx.ob(R, f"{CH}::SplineCharacteristic.interpolator::rebuilt-from-state", set(reads) <= assigned and calls_super,
           f"getter reads {reads}; __init__ chain assigns {sorted(assigned)}", f"{mod.relpath}:{getter.lineno}")
    call = next(fn for fn in cls.body if isinstance(fn, ast.FunctionDef) and fn.name == "__call__")
    rets = [_n(x.value) for x in ast.walk(call) if isinstance(x, ast.Return)]
    ctx.ob(R, f"{CH}::SplineCharacteristic.__call__::through-getter", rets == ["self.interpolator(x)"], f"returns {rets}", f"{mod.relpath}:{call.lineno}")


def rule_setter_once(ctx):
    R = "LOG-PAIR"
    m = ctx.repo.module(CH)
    transforming = {}
    for ci in m.classes.values():
        for f in ci.node.body:
            if isinstance(f, ast.FunctionDef) and any(isinstance(d, ast.Attribute) and d.attr == "setter" for d in f.decorator_list):
                prm = f.args.args[1].arg if len(f.args.args) > 1 else None
                for st in ast.walk(f):
                    if isinstance(st, ast.Assign) and isinstance(st.targets[0], ast.Attribute) and not (isinstance(st.value, ast.Name) and st.value.id == prm):
                        transforming[f.name] = ci.name
    if len(transforming) < 2:
        ctx.fail(f"characteristic: transforming property setters found for {sorted(transforming)} only (confirmed: x_vals, y_vals)")
    n = 0
    for ci in m.classes.values():
        for fi in ci.methods.values():
            if any(isinstance(d, ast.Attribute) and d.attr == "setter" for d in fi.node.decorator_list):
                continue
            for st in ast.walk(fi.node):
                if isinstance(st, (ast.Assign, ast.AugAssign)):
                    tg = st.targets[0] if isinstance(st, ast.Assign) else st.target
                    if isinstance(tg, ast.Attribute) and isinstance(tg.value, ast.Name) and tg.value.id == "self" and tg.attr in transforming:
                        n += 1
                        rmw = isinstance(st, ast.AugAssign) or any(
                            isinstance(x, ast.Attribute) and isinstance(x.value, ast.Name) and x.value.id == "self" and x.attr == tg.attr
                            for x in ast.walk(st.value))
                        ctx.ob(R, f"{CH}::{fi.qualname}::self.{tg.attr}-assigned-once", not rmw,
                               f"self.{tg.attr} is assigned from the caller's values" if not rmw else
                               f"`{_n(st, 80)}` writes self.{tg.attr} from its own value: in {transforming[tg.attr]} the getter returns the "
                               "log-transformed values and the setter takes the logarithm again, the curve no longer passes through the "
                               "given points", fi.loc(st))
    if n < 2:
        ctx.fail(f"characteristic: only {n} assignments to x_vals / y_vals found outside the setters (confirmed: Characteristic.__init__)")


def run(ctx):
    ctx.assume("decides argument order, transform pairing and the serialisation bookkeeping of the characteristic classes; the "
               "interpolation property of the scipy objects on run-time data is not decided")
    rule_args(ctx)
    rule_log(ctx)
    rule_serial(ctx)
    rule_setter_once(ctx)


def variants(repo):
    p = "pandapower/control/util/characteristic.py"
    V = Variant
    return [
        V("series support values converted in place", p, (lambda s: s.replace("        self.kwargs = kwargs\n        self.interpolator_kind = interpolator_kind\n", "        if hasattr(self.x_vals, 'to_numpy'):\n            self.x_vals = self.x_vals.to_numpy()\n        self.kwargs = kwargs\n        self.interpolator_kind = interpolator_kind\n", 1)), "assigned-once"),
        V("interp arguments swapped", p, replace_once("return interp(x, self.x_vals, self.y_vals)", "return interp(x, self.y_vals, self.x_vals)"), "Characteristic.__call__"),
        V("pchip arguments swapped", p, replace_once("PchipInterpolator(self.x_vals, self.y_vals, **self.kwargs)", "PchipInterpolator(self.y_vals, self.x_vals, **self.kwargs)"), "PchipInterpolator"),
        V("interp1d kwargs dropped", p, replace_once("default_interp1d(self.x_vals, self.y_vals, **self.kwargs)", "default_interp1d(self.x_vals, self.y_vals)"), "default_interp1d"),
        V("fill value not forwarded", p, replace_once("interp1d(x, y, kind=kind, bounds_error=bounds_error, fill_value=fill_value, **kwargs)", "interp1d(x, y, kind=kind, bounds_error=bounds_error, **kwargs)"), "default_interp1d::forward"),
        V("from_points columns swapped", p, replace_once("return cls(net, unzipped[0], unzipped[1], **kwargs)", "return cls(net, unzipped[1], unzipped[0], **kwargs)"), "from_points"),
        V("from_gradient pairs crossed", p, replace_once("return cls(net, [x_left, x_right], [y_min, y_max], **kwargs)", "return cls(net, [x_left, x_right], [y_max, y_min], **kwargs)"), "from_gradient"),
        V("log y setter stores x", p, replace_once("self._y_vals = np.log10(y_values)", "self._x_vals = np.log10(y_values)"), "y_vals::setter"),
        V("log call without back transform", p, replace_once("return np.power(10, self.interpolator(np.log10(x)))", "return self.interpolator(np.log10(x))"), "LogSplineCharacteristic.__call__"),
        V("log call without log of x", p, replace_once("return np.power(10, self.interpolator(np.log10(x)))", "return np.power(10, self.interpolator(x))"), "LogSplineCharacteristic.__call__"),
        V("interpolator serialised", p, replace_once('json_excludes = ["self", "__class__", "_interpolator"]', 'json_excludes = ["self", "__class__"]'), "json_excludes"),
        V("cache under another name", p, replace_once("if not hasattr(self, '_interpolator'):", "if not hasattr(self, 'interpolator_obj'):"), "cache-attribute"),
        V("twin: keyword arguments", p, replace_once("return interp(x, self.x_vals, self.y_vals)", "return interp(x, xp=self.x_vals, fp=self.y_vals)"), None),
        V("twin: power operator", p, replace_once("return np.power(10, self.interpolator(np.log10(x)))", "return 10 ** self.interpolator(np.log10(x))"), None),
    ]
