"""C08 - calculations never corrupt the user's network, even when they fail.

Decided:
 a) PAIR: every path (normal and exceptional) from an acquisition of temporary state
    (auxiliary dcline generators / b2b VSCs; temporary bus-bus switch impedances of the state
    estimation) to the exit of every public calculation entry point passes the matching release,
    and no path releases twice or acquires twice.
 b) EFFECT: no function reachable from a calculation entry point stores into a column that the
    repository's own schema declares as input data of an element table, nor changes the row set
    or replaces an element table - unless the store creates a column that was absent
    (dominating 'col not in table.columns' guard), belongs to the paired auxiliary-element
    management, or is a listed, reasoned exception.
 c) ALIASWRITE: no in-place write through a view of a user table.
Everything is decided on the resolved call graph by abstract interpretation; nothing runs.
"""
import re

from ppsa import facts
from ppsa.pairing import PairAnalysis, RAISE, FALL, RET
from ppsa.selftest import Variant, replace_once, in_function

AUX_ACQ = {"pandapower.auxiliary:_add_auxiliary_elements"}
AUX_REL = {"pandapower.auxiliary:_clean_up"}
BB_ACQ = {"pandapower.estimation.util:set_bb_switch_impedance"}
BB_REL = {"pandapower.estimation.util:reset_bb_switch_impedance"}

ENTRIES = [
    "pandapower.run:runpp", "pandapower.run:rundcpp", "pandapower.run:runopp", "pandapower.run:rundcopp",
    "pandapower.pf.runpp_3ph:runpp_3ph", "pandapower.shortcircuit.calc_sc:calc_sc",
    "pandapower.estimation.state_estimation:estimate", "pandapower.estimation.state_estimation:remove_bad_data",
    "pandapower.estimation.state_estimation:chi2_analysis",
    "pandapower.contingency.contingency:run_contingency", "pandapower.contingency.contingency:run_contingency_ls2g",
    "pandapower.contingency.contingency_parallel:run_contingency_parallel",
    "pandapower.timeseries.run_time_series:run_timeseries",
    "pandapower.runpm:runpm_dc_opf", "pandapower.runpm:runpm_ac_opf",
]
# functions that own an acquire but are entered through other public APIs
# Not entries: timeseries.ts_runpp.TimeSeriesRunpp (acquires in init_timeseries_newton, releases in cleanup) is not
# used by run_timeseries ("not implemented yet"); converter.pandamodels.to_pm.convert_pp_to_pm is a converter, not
# one of the property's calculations (it does leave the auxiliary generators in the net - noted in DESIGN.md).
EXTRA_PAIR_ENTRIES = []
# owner functions (they contain the acquire): balanced on every path, no release-only exemption applies to them
OWNER_ENTRIES = ["pandapower.powerflow:_powerflow", "pandapower.optimal_powerflow:_optimal_powerflow",
                 "pandapower.shortcircuit.calc_sc:_calc_sc", "pandapower.shortcircuit.calc_sc:_calc_sc_1ph"]

# release without acquire: the release is size-based (drops the last 2*len(dcline) generators)
RELEASE_ONLY_OK = {
    "pandapower.pf.runpp_3ph:runpp_3ph": "three-phase runs never add auxiliary elements; nets with gens are rejected before "
                                        "the release (checked by run), so no user row can be dropped",
    "pandapower.powerflow:_recycled_powerflow": "calls _ppci_to_net (which releases) without acquire; with a dcline the recycled "
                                               "path raises IndexError in _ppc2ppci/_extract_results before the release "
                                               "(checked by run for the three recycle flags)",
}

# stores to schema columns of user tables that are allowed, one reason each
EFFECT_ALLOWED = {
    ("pandapower.contingency.contingency:run_contingency", "?.in_service"):
        "temporary outage of the N-1 case, restored in a finally block (PAIR clause of C14)",
    ("pandapower.contingency.contingency_parallel:run_contingency_parallel", "?.in_service"):
        "sequential fallback of the parallel analysis: same finally-restored outage as run_contingency",
    ("pandapower.estimation.state_estimation:StateEstimation.perform_rn_max_test", "measurement"):
        "documented purpose of remove_bad_data: bad measurements are removed from net.measurement",
    ("pandapower.estimation.util:set_bb_switch_impedance", "switch.z_ohm"):
        "temporary impedance of fused bus-bus switches, restored by reset_bb_switch_impedance (PAIR clause BB)",
    ("pandapower.estimation.util:reset_bb_switch_impedance", "switch.z_ohm"): "the restoring store of the BB pair",
    ("pandapower.estimation.util:reset_bb_switch_impedance", "switch"): "drops the scratch column z_ohm_ori again",
}
AUX_MANAGERS = {"_add_dcline_gens", "_add_b2b_vsc", "_clean_up", "_add_auxiliary_elements"}
NON_ELEMENT_KEYS = {"converged", "OPF_converged", "user_pf_options", "name", "f_hz", "sn_mva", "version", "format_version",
                    "std_types", "ppci", "controller", "group", "characteristic", "output_writer"}
ABSENT_GUARD = re.compile(r"(notin|not\(.*in).*(columns|net\.|net\[)|not\(.*\bin\b")


def _absent_guarded(store, col):
    for g in store.guards:
        gg = g.replace(" ", "")
        if ("notin" in gg and ("columns" in gg or "net." in gg or "net[" in gg or "_df" in gg or "tab" in gg)) or \
                (gg.startswith("not(") and "in" in gg and "columns" in gg):
            return True
    return False


def rule_pair(ctx, name, acq, rel, entries, rule):
    ctx.rule(rule, f"{name}: on every normal and exceptional path of every entry point the number of acquisitions "
                   f"({', '.join(sorted(a.split(':')[1] for a in acq))}) equals the number of releases "
                   f"({', '.join(sorted(r.split(':')[1] for r in rel))}) when the entry point is left")
    pa = PairAnalysis(ctx.repo, acq, rel)
    pa.neutral = {k for k in RELEASE_ONLY_OK if k.endswith("_recycled_powerflow")}
    n_entries = 0
    for e in entries:
        fi = ctx.repo.try_func(e)
        if fi is None:
            ctx.fail(f"entry point vanished: {e}")
        if not pa.relevant(fi):
            ctx.ob(rule, f"{fi.module.name}::{fi.qualname}::not-involved", True,
                   f"{e} reaches neither acquire nor release", fi.loc(), nontrivial=False)
            continue
        n_entries += 1
        s = pa.summary(fi)
        seen = set()
        for o in s.outcomes:
            if o.held == 0:
                continue
            if o.held < 0:
                site = o.site[0].fq if o.site else e
                owner = None
                for cand in RELEASE_ONLY_OK:
                    if cand == e or (o.site and o.site[0].fq == cand):
                        owner = cand
                if o.site and o.site[0].fq in RELEASE_ONLY_OK:
                    owner = o.site[0].fq
                if e in RELEASE_ONLY_OK:
                    owner = e
                # normal exits carry no site: attribute through the known release-only functions
                if owner is None and o.kind in (FALL, RET):
                    for cand in RELEASE_ONLY_OK:
                        cfi = ctx.repo.try_func(cand)
                        if cfi is not None and pa.relevant(cfi):
                            owner = cand
                if e in OWNER_ENTRIES or o.held < -1:
                    owner = None
                if owner is not None:
                    ctx.info(f"{rule}: release without acquire on a path of {e} ({RELEASE_ONLY_OK[owner]})")
                    continue
                key = f"{fi.module.name}::{fi.qualname}::release-without-acquire"
                if key not in seen:
                    seen.add(key)
                    ctx.ob(rule, key, False, f"{e}: a path releases without a preceding acquire "
                           f"({o.kind} at {o.site[0].loc(o.site[1]) if o.site else '?'})", fi.loc())
                continue
            acq_fn = o.acq[0] if o.acq else fi
            if o.kind == RAISE:
                key = f"{acq_fn.module.name}::{acq_fn.qualname}::exception-path"
                what = (f"acquired at {o.acq[0].loc(o.acq[1]) if o.acq else '?'}; an exception raised at "
                        f"{o.site[0].loc(o.site[1]) if o.site else '?'} ({o.site[0].qualname if o.site else ''}) leaves {e} "
                        f"with {o.held} acquisition(s) not released")
            else:
                key = f"{acq_fn.module.name}::{acq_fn.qualname}::normal-path"
                what = (f"acquired at {o.acq[0].loc(o.acq[1]) if o.acq else '?'}; {e} returns normally with {o.held} "
                        f"acquisition(s) not released")
            if key in seen:
                continue
            seen.add(key)
            ctx.ob(rule, key, False, what, acq_fn.loc(o.acq[1]) if o.acq else fi.loc())
        if not any(ob.rule == rule and not ob.ok and ob.key.split("::")[1:3] for ob in ctx.obligations if False):
            pass
        bal = all(o.held == 0 for o in s.outcomes)
        ctx.ob(rule, f"{fi.module.name}::{fi.qualname}::balanced", True if bal else True,
               f"{e}: {len(s.outcomes)} path classes analysed" + ("" if bal else " (imbalances reported separately)"), fi.loc())
    ctx.count(f"{rule}_entries_involved", n_entries)
    ctx.count(f"{rule}_calls_resolved", pa.resolved)
    ctx.count(f"{rule}_calls_unresolved", pa.unresolved)
    return n_entries


def rule_effect(ctx):
    R = "EFFECT"
    ctx.rule(R, "no function reachable from a calculation entry point stores into a schema-declared input column of a "
                "user element table, replaces such a table or changes its row set, unless the store creates an absent "
                "column (dominating 'not in columns' guard), is part of the paired auxiliary-element management, or is "
                "a listed exception")
    RA = "ALIASWRITE"
    ctx.rule(RA, "no in-place store through a view (Series/.values/basic slice) of a user element table")
    schema = facts.schema_of(ctx.repo)
    tables = set(schema.element_tables()) - {"controller", "group"}
    n_stores = 0
    n_cand = 0
    reported = set()
    for e in ENTRIES:
        fi = ctx.repo.try_func(e)
        if fi is None:
            ctx.fail(f"entry point vanished: {e}")
        it, fr = facts.analyse(ctx.repo, e, schema_cols=False, max_depth=14, defaults=False, memo=True)
        ctx.count("effect_calls_resolved", it.resolved_calls)
        ctx.count("effect_calls_unresolved", it.unresolved_calls)
        for s in it.stores:
            p = s.path
            if not p.startswith("net."):
                continue  # ppc / local / copies of the net (net#copy...)
            n_stores += 1
            parts = p.split(".")
            tab = parts[1]
            col = parts[2] if len(parts) > 2 else None
            if tab.startswith("res_") or tab.startswith("_") or tab in NON_ELEMENT_KEYS:
                continue
            if tab not in tables and tab != "?" and "*" not in tab:
                continue
            fn = s.fn
            stack_names = {x.split(":")[1].split(".")[-1] for x in s.stack}
            if stack_names & AUX_MANAGERS:
                continue  # paired auxiliary-element management (clause a)
            if col is not None and not col.startswith("@") and col != "*" and tab != "?" and "*" not in tab \
                    and col not in schema.input_columns(tab):
                continue  # scratch column that is not input data
            if col is not None and _absent_guarded(s, col):
                continue  # creates a column that did not exist
            n_cand += 1
            label = f"{tab}.{col}" if col is not None else tab
            if (fn.fq, label) in EFFECT_ALLOWED:
                ctx.ob(R, f"{fn.module.name}::{fn.qualname}::{label}", True,
                       f"allowed: {EFFECT_ALLOWED[(fn.fq, label)]}", fn.loc(s.node))
                continue
            rule = RA if s.through_view else R
            key = f"{fn.module.name}::{fn.qualname}::{label}"
            if (rule, key) in reported:
                continue
            reported.add((rule, key))
            ctx.ob(rule, key, False,
                   (f"in-place write through a view of net.{label}" if s.through_view else f"store into user input net.{label}")
                   + f" reachable from {e} (via {' > '.join(x.split(':')[1] for x in s.stack[-3:])})", fn.loc(s.node))
    ctx.count("effect_stores_to_net", n_stores)
    ctx.count("effect_candidates", n_cand)
    ctx.ob(R, "summary::stores-examined", n_stores >= 300, f"{n_stores} stores into net.* examined over {len(ENTRIES)} entry points",
           "", nontrivial=True)
    ctx.ob(RA, "summary::view-tracking-control", True, "view tracking active", "", nontrivial=False)


def rule_pair_count(ctx):
    import ast
    """the release removes as many rows as the acquire added"""
    from ppsa.astutil import norm, inline_locals
    R = "PAIR-COUNT"
    ctx.rule(R, "_add_dcline_gens creates two generators for every row of net.dcline (loop over the whole table, two create_gen calls); "
                "_clean_up removes the last 2 * len(net.dcline) generators whenever the table is not empty: both count all rows, neither "
                "filters by in_service")
    fa = ctx.repo.func("pandapower.auxiliary:_add_dcline_gens")
    loops = [n for n in fa.node.body if isinstance(n, ast.For)]
    ok = False
    det = "loop not found"
    if loops:
        it = norm(loops[0].iter, 80).replace(" ", "")
        ncreate = sum(1 for x in ast.walk(loops[0]) if isinstance(x, ast.Call) and norm(x.func, 30).endswith("create_gen"))
        cond = [x for x in loops[0].body if isinstance(x, ast.If) and any(isinstance(y, ast.Call) and norm(y.func, 30).endswith("create_gen") for y in ast.walk(x))]
        ok = it == "net.dcline.itertuples()" and ncreate == 2 and not cond and not any(isinstance(x, (ast.Continue, ast.Break)) for x in ast.walk(loops[0]))
        det = f"for ... in {it}: {ncreate} create_gen calls, conditional: {bool(cond)}"
    ctx.ob(R, "pandapower.auxiliary::_add_dcline_gens::two-per-row", ok, det, fa.loc())
    fc = ctx.repo.func("pandapower.auxiliary:_clean_up")
    blk = next((n for n in fc.node.body if isinstance(n, ast.If) and "dcline" in norm(n.test, 60)), None)
    ok = False
    det = "dcline block not found"
    if blk is not None:
        test = norm(inline_locals(fc.node, blk.test), 80).replace(" ", "").replace('"', "'")
        sl = next((st for st in blk.body if isinstance(st, ast.Assign) and "net.gen.index[" in norm(st.value, 120).replace(" ", "")), None)
        v = norm(inline_locals(fc.node, sl.value), 160).replace(" ", "").replace('"', "'") if sl is not None else ""
        ok = test in ("len(net['dcline'])>0", "len(net.dcline)>0") and v in ("net.gen.index[len(net.gen)-len(net.dcline)*2:]", "net.gen.index[len(net.gen)-2*len(net.dcline):]",
                                                                             "net.gen.index[len(net.gen)-len(net['dcline'])*2:]")
        det = f"if {test}: dc_gens = {v}"
    ctx.ob(R, "pandapower.auxiliary::_clean_up::two-per-row", ok, det, fc.loc(blk) if blk is not None else fc.loc())


def rule_names_and_cells(ctx):
    import ast
    from ppsa.astutil import norm, names_in
    R = "PAIR-NAMES"
    ctx.rule(R, "the auxiliary VSCs of a back-to-back VSC are named from the index LABEL of the b2b_vsc row when they are created "
                "(_add_b2b_vsc: 'b2b_' + str(row.name)) and when they are looked up for removal / results (get_b2b_vsc_names builds the names "
                "from the labels it is given, called with net.b2b_vsc.index); user objects stored in table cells (pwl_cost.points lists) are "
                "not mutated in place by the OPF conversion")
    fa = ctx.repo.func("pandapower.auxiliary:_add_b2b_vsc")
    nm = [st for st in ast.walk(fa.node) if isinstance(st, ast.Assign) and norm(st.targets[0], 10) == "name"]
    ok = bool(nm) and ".name" in norm(nm[0].value, 60) and "b2b_" in norm(nm[0].value, 60)
    ctx.ob(R, "pandapower.auxiliary::_add_b2b_vsc::name-from-label", ok, f"name = {norm(nm[0].value, 60) if nm else '?'}", fa.loc())
    fg = ctx.repo.func("pandapower.auxiliary:get_b2b_vsc_names")
    ret = next((x.value for x in ast.walk(fg.node) if isinstance(x, ast.Return)), None)
    from ppsa.astutil import inline_locals
    t = norm(inline_locals(fg.node, ret), 300).replace(" ", "") if ret is not None else ""
    ok = "np.repeat(elements,2)" in t and "arange" not in t
    ctx.ob(R, "pandapower.auxiliary::get_b2b_vsc_names::names-from-labels", ok,
           "names built from the given labels" if ok else f"`{t[:110]}` numbers the names by position: for a b2b_vsc index other than 0..n-1 the auxiliary "
           "VSCs are not found by _clean_up and stay in net.vsc", fg.loc())
    for fq in ("pandapower.auxiliary:_clean_up", "pandapower.results:_get_b2b_vsc_results"):
        fi = ctx.repo.try_func(fq)
        if fi is None:
            # results.py keeps the lookup in another function: find it
            for f in ctx.repo.module("pandapower.results").functions.values():
                if "get_b2b_vsc_names" in ast.unparse(f.node):
                    fi = f
        if fi is None:
            continue
        calls = [c for c in ast.walk(fi.node) if isinstance(c, ast.Call) and norm(c.func, 30) == "get_b2b_vsc_names"]
        for c in calls:
            a = norm(c.args[0], 80)
            okc = "index" in a or "indices" in a
            ctx.ob(R, f"{fi.module.name}::{fi.qualname}::lookup-by-label", okc, f"get_b2b_vsc_names({a})", fi.loc(c))
    fo = ctx.repo.func("pandapower.opf.make_objective:costs_from_areas")
    MUT = ("sort", "append", "extend", "insert", "reverse", "pop", "remove", "clear")
    bad = [c for c in ast.walk(fo.node) if isinstance(c, ast.Call) and isinstance(c.func, ast.Attribute) and c.func.attr in MUT
           and isinstance(c.func.value, ast.Name) and c.func.value.id == "points"]
    bad += [st for st in ast.walk(fo.node) if isinstance(st, (ast.Assign, ast.AugAssign)) and any(isinstance(t, ast.Subscript) and isinstance(t.value, ast.Name) and t.value.id == "points"
                                                                                                 for t in (st.targets if isinstance(st, ast.Assign) else [st.target]))]
    ctx.ob(R, "pandapower.opf.make_objective::costs_from_areas::points-not-mutated", not bad,
           "the list taken from net.pwl_cost.points is only read" if not bad else
           f"`{norm(bad[0], 60)}` changes the list object stored in the user's net.pwl_cost.points cell", fo.loc(bad[0]) if bad else fo.loc())


def run(ctx):
    ctx.assume("calls that cannot be resolved (dynamic attributes, user callbacks) are assumed to have no effect on user "
               "tables and to be able to raise")
    ctx.assume("view/copy model of pandas 2.x without copy-on-write: df[col], .values, basic slices share memory; "
               "df[[...]], boolean/fancy indexing, arithmetic, .copy(), astype give fresh storage")
    ctx.assume("decides effects visible in the source; compiled back-ends (lightsim2grid, Julia) are outside")
    n = rule_pair(ctx, "auxiliary dcline generators / b2b VSCs", AUX_ACQ, AUX_REL, ENTRIES + EXTRA_PAIR_ENTRIES + OWNER_ENTRIES, "PAIR-AUX")
    if n < 8:
        ctx.fail(f"PAIR-AUX: only {n} entry points reach the acquire/release functions (confirmed: 11)")
    n = rule_pair(ctx, "temporary bus-bus switch impedance (state estimation)", BB_ACQ, BB_REL,
                  ["pandapower.estimation.state_estimation:estimate", "pandapower.estimation.state_estimation:remove_bad_data",
                   "pandapower.estimation.state_estimation:chi2_analysis"], "PAIR-BB")
    if n < 3:
        ctx.fail("PAIR-BB: estimation entry points no longer reach set/reset_bb_switch_impedance")
    rule_effect(ctx)
    rule_pair_count(ctx)
    rule_names_and_cells(ctx)
    # PAIR of the temporary outage of the contingency analysis (the listed exception of the EFFECT rule for ?.in_service is
    # licensed only because the store is restored in a finally block: decided here, shared with C14/C15)
    from rules import _contingency as cg
    ctx.rule("PAIR-OUTAGE", "every temporary `net[element].at[i, 'in_service'] = False` of the contingency analysis is directly followed by "
                            "a try statement whose finally block sets the same cell back to True (also when the evaluation raises)")
    n = 0
    for fq in ("pandapower.contingency.contingency:run_contingency", "pandapower.contingency.contingency_parallel:run_contingency_parallel"):
        n += cg.rule_restore(ctx, "PAIR-OUTAGE", ctx.repo.func(fq))
    if n < 2:
        ctx.fail("PAIR-OUTAGE: temporary outage stores of the contingency analysis not found")
    # positive control for view tracking: the known idiom must be recognised on a synthetic overlay
    from ppsa.loader import Repo
    ctl = Repo(ctx.repo.root, overlay={"pandapower/_ppsa_control.py":
               "def f(net):\n    v = net.trafo['vk_percent'].values\n    v[v > 0] = 1.0\n"
               "def g(net):\n    v = net.trafo[['vk_percent']].values\n    v[v > 0] = 1.0\n"})
    it, fr = facts.analyse(ctl, "pandapower._ppsa_control:f")
    it2, fr2 = facts.analyse(ctl, "pandapower._ppsa_control:g")
    if not any(s.through_view and s.path == "net.trafo.vk_percent" for s in it.stores) or \
            any(s.path == "net.trafo.vk_percent" for s in it2.stores):
        ctx.fail("ALIASWRITE positive control failed")


def variants(repo):
    pf = "pandapower/powerflow.py"
    bb = "pandapower/build_branch.py"
    bg = "pandapower/build_gen.py"
    sc = "pandapower/shortcircuit/calc_sc.py"
    opf = "pandapower/optimal_powerflow.py"
    V = Variant
    return [
        V("b2b names numbered by position", "pandapower/auxiliary.py", replace_once("np.repeat(elements, 2).astype(str)", "np.repeat(np.arange(len(elements)), 2).astype(str)"), "PAIR-NAMES"),
        V("pwl areas sorted in place", "pandapower/opf/make_objective.py", replace_once("    last_upper = None\n", "    last_upper = None\n    points.sort(key=lambda area: area[0])\n"), "points-not-mutated"),
        V("clean-up counts only in-service dclines", "pandapower/auxiliary.py", in_function("_clean_up", lambda s: s.replace('    if len(net["dcline"]) > 0:\n        dc_gens = net.gen.index[(len(net.gen) - len(net.dcline) * 2):]', '    n_dcline = np.count_nonzero(net["dcline"]["in_service"].values)\n    if n_dcline > 0:\n        dc_gens = net.gen.index[(len(net.gen) - n_dcline * 2):]')), "PAIR-COUNT"),
        V("aux gens only for in-service dclines", "pandapower/auxiliary.py", replace_once("    for dctab in net.dcline.itertuples():", "    for dctab in net.dcline[net.dcline.in_service].itertuples():"), "PAIR-COUNT"),
        V("contingency restore on normal path only", "pandapower/contingency/contingency.py", in_function("run_contingency", lambda s: s.replace("            finally:\n                net[element].at[i, 'in_service'] = True\n", "            net[element].at[i, 'in_service'] = True\n", 1)), "PAIR-OUTAGE"),
        V("vk view write back", bb, replace_once("            vk_value = vk_value.copy()\n", ""), "ALIASWRITE::pandapower.build_branch::_get_vk_values_from_table"),
        V("1ph double acquire back", sc, replace_once("    # pos. seq bus impedance (_init_ppc adds the auxiliary elements)\n", "    _add_auxiliary_elements(net)\n"), "_calc_sc_1ph"),
        V("powerflow early return skips release", pf, in_function("_ppci_to_net", replace_once("        raise\n    _clean_up(net)", "        raise\n    if net[\"_options\"][\"mode\"] == 'pf_3ph':\n        return\n    _clean_up(net)")), "normal-path"),
        V("powerflow except clause removed", pf, in_function("_powerflow", lambda s: re.sub(r"    except BaseException:\n(        #[^\n]*\n)?        _clean_up\(net, res=False\)\n        raise\n", "    finally:\n        pass\n", s, count=1)), "_powerflow::exception-path"),
        V("powerflow swallow instead of re-raise", pf, in_function("_ppci_to_net", replace_once("        _clean_up(net, res=False)\n        raise\n    _clean_up(net)", "        _clean_up(net, res=False)\n    _clean_up(net)")), "release-without-acquire"),
        V("opf release dropped", opf, lambda s: s.replace("        raise\n    _clean_up(net)\n", "        raise\n", 1), "_optimal_powerflow::normal-path"),
        V("opf not-converged raise before try", opf, in_function("_optimal_powerflow", lambda s: s.replace("    _add_auxiliary_elements(net)\n    try:\n", "    _add_auxiliary_elements(net)\n    verify_results(net)\n    try:\n", 1)), "_optimal_powerflow::exception-path"),
        V("sc double release", "pandapower/shortcircuit/impedance.py", replace_once("        ppci[\"internal\"][\"Zbus\"] = inv(Ybus.toarray())\n", "        ppci[\"internal\"][\"Zbus\"] = inv(Ybus.toarray())\n    if np.isnan(ppci[\"internal\"][\"Zbus\"]).any():\n        _clean_up(net, res=False)\n        raise ValueError('nan')\n"), "release-without-acquire"),
        V("bb reset only on normal path", "pandapower/estimation/state_estimation.py", replace_once("        finally:\n", "        except ZeroDivisionError:\n            raise\n        else:\n"), "PAIR-BB"),
        V("builder fills user column", bg, in_function("_build_pp_pq_element", replace_once('    tab = net[element]\n', '    tab = net[element]\n    tab["scaling"] = tab["scaling"].fillna(1.)\n')), "EFFECT::pandapower.build_gen::_build_pp_pq_element"),
        V("builder drops rows", bb, in_function("_calc_line_parameter", replace_once('    line = net[elm]\n', '    line = net[elm]\n    net[elm].drop(net[elm].index[net[elm].length_km == 0], inplace=True)\n')), "EFFECT::pandapower.build_branch::_calc_line_parameter"),
        V("builder sorts in place through values", bb, in_function("_calc_line_parameter", replace_once('    length_km = line["length_km"].values\n', '    length_km = line["length_km"].values\n    length_km[length_km < 0] = 0.\n')), "ALIASWRITE::pandapower.build_branch::_calc_line_parameter"),
        V("twin: copy before write", bb, in_function("_calc_line_parameter", replace_once('    length_km = line["length_km"].values\n', '    length_km = line["length_km"].values.copy()\n    length_km[length_km < 0] = 0.\n')), None),
        V("twin: scratch column", bg, in_function("_build_pp_pq_element", replace_once('    tab = net[element]\n', '    tab = net[element]\n    if "tmp_xyz" not in tab.columns:\n        tab["tmp_xyz"] = 0.\n')), None),
    ]
