"""C23 - result-preserving toolbox transformations: shape and flow clauses of the replacement family.

Only the clause whose truth is in the shape of the code is claimed: every `replace_*` function of
toolbox/grid_modification.py creates the new element from the old one by closed formulas.  For the replacement to be
electrically neutral each created parameter must
  * come from the corresponding parameter of the replaced element (power from power, set point from set point, bus from
    bus, status from status), with the sign that the change of the sign convention requires (load <-> sgen, sgen <->
    storage), and
  * have the unit / decimal scale / base-power degree / parallel degree of the target column (per-unit impedances
    refer to the impedance element's own sn_mva: ohm * sn_mva / kV^2).
Decided by the abstract interpreter (rows of itertuples()/iterrows() are table rows, create_* calls are inlined).
Not decided: neutrality of re-indexing, merging, sub-net selection, dropping and fusing (equality of power-flow results),
literal factors of the capacitance split of replace_line_by_impedance (declared not neutral by the function itself).
"""
from ppsa import facts
from ppsa.absint import const
from ppsa.obligations import Case, Sink, run_cases
from ppsa.selftest import Variant, replace_once, in_function

GM = "pandapower.toolbox.grid_modification"
MW = {"V": 1, "A": 1}
OHM = {"V": 1, "A": -1}


def cases():
    cs = []
    pq = lambda t, src, p, q: [Sink(f"store:net.{t}.p_mw", MW, 6, [f"net.{src}.{p}"], sign=1),
                               Sink(f"store:net.{t}.q_mvar", MW, 6, [f"net.{src}.{q}"], sign=1)]
    cs.append(Case("ward-internal", f"{GM}:replace_ward_by_internal_elements",
                   pq("load", "ward", "ps_mw", "qs_mvar") + pq("shunt", "ward", "pz_mw", "qz_mvar") + [
                       Sink("store:net.load.bus", {}, 0, ["net.ward.bus"]), Sink("store:net.shunt.bus", {}, 0, ["net.ward.bus"]),
                       Sink("store:net.load.in_service", {}, 0, ["net.ward.in_service"]),
                       Sink("store:net.shunt.in_service", {}, 0, ["net.ward.in_service"])]))
    cs.append(Case("xward-internal", f"{GM}:replace_xward_by_internal_elements",
                   pq("load", "xward", "ps_mw", "qs_mvar") + pq("shunt", "xward", "pz_mw", "qz_mvar") + [
                       Sink("store:net.load.bus", {}, 0, ["net.xward.bus"]), Sink("store:net.shunt.bus", {}, 0, ["net.xward.bus"]),
                       Sink("store:net.gen.vm_pu", {}, 0, ["net.xward.vm_pu"]),
                       Sink("store:net.impedance.from_bus", {}, 0, ["net.xward.bus"]),
                       Sink("store:net.impedance.rft_pu", {"B": 1}, 0, ["net.xward.r_ohm", "net.bus.vn_kv", "net.sn_mva"], forbids=["net.xward.x_ohm"]),
                       Sink("store:net.impedance.xft_pu", {"B": 1}, 0, ["net.xward.x_ohm", "net.bus.vn_kv", "net.sn_mva"], forbids=["net.xward.r_ohm"]),
                       Sink("store:net.impedance.sn_mva", {"V": 1, "A": 1, "B": 1}, 6, ["net.sn_mva"]),
                       Sink("store:net.bus.vn_kv", {"V": 1}, 3, ["net.bus.vn_kv"], deps_only=True),
                       Sink("store:net.gen.in_service", {}, 0, ["net.xward.in_service"]),
                       Sink("store:net.impedance.in_service", {}, 0, ["net.xward.in_service"])]))
    cs.append(Case("xward-ward", f"{GM}:replace_xward_by_ward", [
        Sink("store:net.ward.ps_mw", MW, 6, ["net.xward.ps_mw"], sign=1), Sink("store:net.ward.qs_mvar", MW, 6, ["net.xward.qs_mvar"], sign=1),
        Sink("store:net.ward.pz_mw", MW, 6, ["net.xward.pz_mw"], sign=1), Sink("store:net.ward.qz_mvar", MW, 6, ["net.xward.qz_mvar"], sign=1),
        Sink("store:net.ward.bus", {}, 0, ["net.xward.bus"]), Sink("store:net.ward.in_service", {}, 0, ["net.xward.in_service"])]))
    z = lambda col, src: Sink(f"store:net.impedance.{col}", {"B": 1, "par": -1}, 0,
                              [f"net.line.{src}", "net.line.length_km", "net.line.parallel", "net.bus.vn_kv", "net.sn_mva"])
    y = lambda col, src, extra=(): Sink(f"store:net.impedance.{col}", {"B": -1, "par": 1}, 0,
                                        [f"net.line.{src}", "net.line.length_km", "net.line.parallel", "net.bus.vn_kv", "net.sn_mva"] + list(extra))
    cs.append(Case("line-impedance", f"{GM}:replace_line_by_impedance", [
        z("rft_pu", "r_ohm_per_km"), z("xft_pu", "x_ohm_per_km"), z("rtf_pu", "r_ohm_per_km"), z("xtf_pu", "x_ohm_per_km"),
        y("gf_pu", "g_us_per_km"), y("bf_pu", "c_nf_per_km", ["net.f_hz"]),
        z("rft0_pu", "r0_ohm_per_km"), z("xft0_pu", "x0_ohm_per_km"), y("gf0_pu", "g0_us_per_km"), y("bf0_pu", "c0_nf_per_km", ["net.f_hz"]),
        Sink("store:net.impedance.from_bus", {}, 0, ["net.line.from_bus"]), Sink("store:net.impedance.to_bus", {}, 0, ["net.line.to_bus"]),
        Sink("store:net.impedance.in_service", {}, 0, ["net.line.in_service"]),
        Sink("store:net.impedance.sn_mva", {"V": 1, "A": 1, "B": 1}, 6, ["net.sn_mva"]),
    ], args={"sn_mva": const(None)}))
    cs.append(Case("impedance-line", f"{GM}:replace_impedance_by_line", [
        Sink("store:net.line.r_ohm_per_km", OHM, 0, ["net.impedance.sn_mva", "net.bus.vn_kv"], data_needs=["net.impedance.rft_pu"], data_forbids=["net.impedance.xft_pu"]),
        Sink("store:net.line.x_ohm_per_km", OHM, 0, ["net.impedance.sn_mva", "net.bus.vn_kv"], data_needs=["net.impedance.xft_pu"], data_forbids=["net.impedance.rft_pu"]),
        Sink("store:net.line.from_bus", {}, 0, ["net.impedance.from_bus"]), Sink("store:net.line.to_bus", {}, 0, ["net.impedance.to_bus"]),
        Sink("store:net.line.in_service", {}, 0, ["net.impedance.in_service"]),
    ]))
    cs.append(Case("ext_grid-gen", f"{GM}:replace_ext_grid_by_gen", [
        Sink("store:net.gen.vm_pu", {}, 0, ["net.ext_grid.vm_pu"]), Sink("store:net.gen.bus", {}, 0, ["net.ext_grid.bus"]),
        Sink("store:net.gen.p_mw", MW, 6, ["net.res_ext_grid.p_mw"], sign=1),
        Sink("store:net.gen.in_service", {}, 0, ["net.ext_grid.in_service"])]))
    cs.append(Case("gen-ext_grid", f"{GM}:replace_gen_by_ext_grid", [
        Sink("store:net.ext_grid.vm_pu", {}, 0, ["net.gen.vm_pu"]), Sink("store:net.ext_grid.bus", {}, 0, ["net.gen.bus"]),
        Sink("store:net.ext_grid.va_degree", {}, 0, ["net.res_bus.va_degree", "net.gen.bus"]),
        Sink("store:net.ext_grid.in_service", {}, 0, ["net.gen.in_service"])]))
    cs.append(Case("gen-sgen", f"{GM}:replace_gen_by_sgen", [
        Sink("store:net.sgen.p_mw", MW, 6, ["net.gen.p_mw"], sign=1), Sink("store:net.sgen.q_mvar", MW, 6, ["net.res_gen.q_mvar"], sign=1),
        Sink("store:net.sgen.bus", {}, 0, ["net.gen.bus"]), Sink("store:net.sgen.in_service", {}, 0, ["net.gen.in_service"])]))
    cs.append(Case("sgen-gen", f"{GM}:replace_sgen_by_gen", [
        Sink("store:net.gen.p_mw", MW, 6, ["net.sgen.p_mw"], sign=1), Sink("store:net.gen.vm_pu", {}, 0, ["net.res_bus.vm_pu", "net.sgen.bus"]),
        Sink("store:net.gen.bus", {}, 0, ["net.sgen.bus"]), Sink("store:net.gen.in_service", {}, 0, ["net.sgen.in_service"])]))
    # sign convention of the pq family: load and storage consume, sgen generates
    consume = {"load": 1, "storage": 1, "sgen": -1}
    for old, new in (("load", "sgen"), ("sgen", "load"), ("load", "storage"), ("storage", "load"), ("sgen", "storage"), ("storage", "sgen")):
        sgn = consume[old] * consume[new]
        lim = lambda a, b: (a, b) if sgn > 0 else (b, a)
        sinks = [
            Sink(f"store:net.{new}.p_mw", MW, 6, [f"net.{old}.p_mw"], sign=sgn), Sink(f"store:net.{new}.q_mvar", MW, 6, [f"net.{old}.q_mvar"], sign=sgn),
            Sink(f"store:net.{new}.bus", {}, 0, [f"net.{old}.bus"]), Sink(f"store:net.{new}.in_service", {}, 0, [f"net.{old}.in_service"])]
        if sgn < 0:
            # the limits change sign and swap roles (generic copies for the same-sign pairs go through dynamic column lists)
            sinks += [
                Sink(f"store:net.{new}.min_p_mw", MW, 6, [f"net.{old}.max_p_mw"], sign=-1, skip_top=True),
                Sink(f"store:net.{new}.max_p_mw", MW, 6, [f"net.{old}.min_p_mw"], sign=-1, skip_top=True),
                Sink(f"store:net.{new}.min_q_mvar", MW, 6, [f"net.{old}.max_q_mvar"], sign=-1, skip_top=True),
                Sink(f"store:net.{new}.max_q_mvar", MW, 6, [f"net.{old}.min_q_mvar"], sign=-1, skip_top=True)]
        cs.append(Case(f"pq-{old}-{new}", f"{GM}:replace_pq_elmtype", sinks,
                       args={"old_element_type": const(old), "new_element_type": const(new)}))
    return cs


def run(ctx):
    ctx.assume("decides the unit / scale / base / sign shape and the source of every parameter the replace_* functions create, "
               "not the equality of power-flow results before and after a transformation")
    R = "REPLACE-SHAPE"
    ctx.rule(R, "each parameter of an element created by a replace_* function has the unit, decimal scale, base-power degree, "
                "parallel degree and sign of its column and depends on the corresponding parameter of the replaced element")
    run_cases(ctx, R, cases(), aspects=("units", "base", "par", "dec", "needs", "sign"))
    ctx.require_min(R, 100)
    # dropping / re-indexing elements is neutral only if the rows of referencing tables are selected by their exact type code
    from rules import _lints
    fis = list(ctx.repo.module(GM).functions.values()) + list(ctx.repo.module("pandapower.toolbox.data_modification").functions.values())
    _lints.et_exact(ctx, "ET-EXACT", fis, minimum=10)
    rule_transform_guards(ctx)
    rule_neutral_details(ctx)


def rule_neutral_details(ctx):
    import ast
    import re
    from ppsa.astutil import norm
    R = "NEUTRAL-DETAIL"
    ctx.rule(R, "merge_parallel_line writes back every line parameter it reads for the conversion (a parameter that depends on the "
                "number of parallel systems and is not rescaled changes the line); the 'other end' of a branch is np.where(bus == A, B, "
                "A); select_subnet keeps the tap characteristic rows referenced by the two-winding AND the three-winding "
                "transformers of the selection")
    fm = ctx.repo.func(f"{GM}:merge_parallel_line")
    reads, writes = set(), set()
    for st in ast.walk(fm.node):
        if isinstance(st, ast.Assign):
            for x in ast.walk(st.value):
                if isinstance(x, ast.Subscript) and ast.unparse(x.value) == "net.line.at" and isinstance(x.slice, ast.Tuple) and \
                        isinstance(x.slice.elts[1], ast.Constant):
                    reads.add(x.slice.elts[1].value)
            t = st.targets[0]
            if isinstance(t, ast.Subscript) and ast.unparse(t.value) == "net.line.at" and isinstance(t.slice, ast.Tuple):
                k = t.slice.elts[1]
                if isinstance(k, ast.Constant):
                    writes.add(k.value)
                elif isinstance(k, ast.Name):
                    # key is a loop variable over a literal sequence of tuples / strings
                    for lp in ast.walk(fm.node):
                        if isinstance(lp, ast.For) and st in list(ast.walk(lp)) and isinstance(lp.iter, (ast.Tuple, ast.List)):
                            tg = lp.target
                            pos = [i for i, e in enumerate(tg.elts) if isinstance(e, ast.Name) and e.id == k.id][0] if isinstance(tg, ast.Tuple) else None
                            for e in lp.iter.elts:
                                c = e.elts[pos] if pos is not None and isinstance(e, (ast.Tuple, ast.List)) else e
                                if isinstance(c, ast.Constant):
                                    writes.add(c.value)
    if len(reads) < 5:
        ctx.fail(f"merge_parallel_line: only {sorted(reads)} read from net.line.at (confirmed: 6 columns)")
    lost = sorted(reads - writes)
    ctx.ob(R, f"{GM}::merge_parallel_line::written-back", not lost,
           f"all of {sorted(reads)} are written back" if not lost else
           f"{lost} is read for the conversion but not written back: `parallel` becomes 1 while the value still is the one of a single "
           "system, the merged line differs from the parallel lines it replaces", fm.loc())
    n = 0
    for mn in (GM, "pandapower.toolbox.element_selection", "pandapower.toolbox.power_factor", "pandapower.toolbox.data_modification"):
        try:
            m = ctx.repo.module(mn)
        except Exception:
            continue
        for fi in m.functions.values():
            for c in ast.walk(fi.node):
                if not (isinstance(c, ast.Call) and ast.unparse(c.func) in ("np.where", "where") and len(c.args) == 3 and
                        isinstance(c.args[0], ast.Compare) and len(c.args[0].ops) == 1 and isinstance(c.args[0].ops[0], ast.Eq)):
                    continue
                P = norm(c.args[0].comparators[0], 200)
                a, b = norm(c.args[1], 200), norm(c.args[2], 200)
                if not (re.search(r"from_bus|to_bus|hv_bus|lv_bus", P) and re.search(r"from_bus|to_bus|hv_bus|lv_bus", a + b) and a != b):
                    continue
                n += 1
                ok = b == P and a != P
                ctx.ob(R, f"{mn}::{fi.qualname}::other-end@{P[:30]}", ok,
                       "other end = where(bus == A, B, A)" if ok else
                       f"`{norm(c, 110)}` returns the compared end itself where the buses match: the 'other bus' of a branch is the bus "
                       "the switch sits at, so an energised line behind an open switch is treated as isolated (or the reverse)", fi.loc(c))
    if n < 1:
        ctx.fail("NEUTRAL-DETAIL: no 'other end' selection found in the toolbox (confirmed: set_isolated_areas_out_of_service)")
    fs = ctx.repo.func(f"{GM}:select_subnet")
    cover = None
    for st in ast.walk(fs.node):
        if isinstance(st, ast.Assign) and isinstance(st.targets[0], ast.Subscript) and ast.unparse(st.targets[0].value) == "p2":
            k = st.targets[0].slice
            if isinstance(k, ast.Constant) and k.value == "trafo_characteristic_table":
                cover = st
            elif isinstance(k, ast.Name):
                for lp in ast.walk(fs.node):
                    if isinstance(lp, ast.For) and st in list(ast.walk(lp)) and isinstance(lp.iter, (ast.List, ast.Tuple)) and \
                            any(isinstance(e, ast.Constant) and e.value == "trafo_characteristic_table" for e in lp.iter.elts):
                        cover = cover or st
    txt = ast.unparse(cover).replace('"', "'") if cover is not None else ""
    ok = cover is not None and "'trafo3w'" in txt and "'trafo'" in txt
    ctx.ob(R, f"{GM}::select_subnet::trafo_characteristic_table", ok,
           "characteristic rows of trafo and trafo3w are kept" if ok else
           ("trafo_characteristic_table is not copied into the sub-network" if cover is None else
            f"`{norm(cover, 100)}` keeps the rows referenced by one transformer table only") +
           ": a three-winding transformer with tap_dependency_table loses its characteristic and the sub-network computes other "
           "impedances than the full network", fs.loc(cover) if cover is not None else fs.loc())


def rule_transform_guards(ctx):
    import ast
    R = "TRANSFORM-GUARD"
    ctx.rule(R, "replace_impedance_by_line treats an impedance as not representable by a line when r OR x is asymmetric (negated "
                "conjunction of the two isclose tests); select_subnet hands the system frequency f_hz of the source net to the new net "
                "(line susceptances are 2*pi*f*c); _merge_nets offsets the characteristic ids of the second net by max(id) + 1 of the first")
    fi = ctx.repo.func(f"{GM}:replace_impedance_by_line")
    tests = [n for n in ast.walk(fi.node) if isinstance(n, ast.If) and "isclose" in ast.unparse(n.test) and "rft_pu" in ast.unparse(n.test)]
    if not tests:
        ctx.fail("replace_impedance_by_line: symmetry test not found")
    t = tests[0].test

    def is_close(e, a, b):
        return isinstance(e, ast.Call) and ast.unparse(e.func).endswith("isclose") and len(e.args) >= 2 and \
            {ast.unparse(e.args[0]).split(".")[-1], ast.unparse(e.args[1]).split(".")[-1]} == {a, b}

    def neg(e):
        return e.operand if isinstance(e, ast.UnaryOp) and isinstance(e.op, ast.Not) else None
    ok = False
    if isinstance(t, ast.BoolOp) and isinstance(t.op, ast.Or) and len(t.values) == 2 and all(neg(v) is not None for v in t.values):
        a, b = neg(t.values[0]), neg(t.values[1])
        ok = (is_close(a, "rft_pu", "rtf_pu") and is_close(b, "xft_pu", "xtf_pu")) or (is_close(b, "rft_pu", "rtf_pu") and is_close(a, "xft_pu", "xtf_pu"))
    elif neg(t) is not None and isinstance(neg(t), ast.BoolOp) and isinstance(neg(t).op, ast.And) and len(neg(t).values) == 2:
        a, b = neg(t).values
        ok = (is_close(a, "rft_pu", "rtf_pu") and is_close(b, "xft_pu", "xtf_pu")) or (is_close(b, "rft_pu", "rtf_pu") and is_close(a, "xft_pu", "xtf_pu"))
    ctx.ob(R, f"{GM}::replace_impedance_by_line::asymmetry-test", ok,
           f"invalid when `{ast.unparse(t)[:100]}`" if ok else
           f"`{ast.unparse(t)[:110]}` is not 'r asymmetric or x asymmetric': an impedance asymmetric in one of the two is replaced by a symmetric line",
           fi.loc(tests[0]))
    fs = ctx.repo.func(f"{GM}:select_subnet")
    txt = ast.unparse(fs.node).replace('"', "'")
    copied = False
    for n in ast.walk(fs.node):
        if isinstance(n, ast.Assign) and isinstance(n.value, (ast.List, ast.Tuple)) and any(isinstance(e, ast.Constant) and e.value == "f_hz" for e in n.value.elts):
            copied = True
        if isinstance(n, ast.Assign) and "'f_hz'" in ast.unparse(n.targets[0]).replace('"', "'") and "f_hz" in ast.unparse(n.value):
            copied = True
        if isinstance(n, ast.Call) and ast.unparse(n.func).endswith("create_empty_network") and any(k.arg == "f_hz" for k in n.keywords):
            copied = True
    ctx.ob(R, f"{GM}::select_subnet::f_hz", copied, "the sub-network takes f_hz from the source network" if copied else
           "select_subnet (keep_everything_else=False) does not pass f_hz on: the sub-network of a 60 Hz grid is calculated with 50 Hz", fs.loc())
    fm = ctx.repo.func(f"{GM}:_merge_nets")
    st = next((x for x in ast.walk(fm.node) if isinstance(x, ast.Assign) and ast.unparse(x.targets[0]) == "id_start"), None)
    v = ast.unparse(st.value).replace(" ", "") if st is not None else ""
    ctx.ob(R, f"{GM}::_merge_nets::characteristic-id-offset", st is not None and v.endswith(".id_characteristic.max()+1") and v.startswith("net1["),
           f"id_start = {v}", fm.loc(st) if st is not None else fm.loc())


def variants(repo):
    V = Variant
    gm = "pandapower/toolbox/grid_modification.py"
    return [
        V("merged line keeps the conductance of one system", gm, in_function("merge_parallel_line", replace_once('    net.line.at[idx, "g_us_per_km"] = g1\n', '')), "merge_parallel_line::written-back"),
        V("twin: shunt parameters written in a loop", gm, in_function("merge_parallel_line", replace_once('    net.line.at[idx, "c_nf_per_km"] = c1\n    net.line.at[idx, "g_us_per_km"] = g1\n', '    for col, val1 in (("c_nf_per_km", c1), ("g_us_per_km", g1)):\n        net.line.at[idx, col] = val1\n')), None),
        V("other bus is the switch bus", gm, in_function("set_isolated_areas_out_of_service", replace_once("np.where(j['bus'].values == j['from_bus'].values, j['to_bus'].values, j['from_bus'].values)", "np.where(j['bus'].values == j['to_bus'].values, j['to_bus'].values, j['from_bus'].values)")), "other-end"),
        V("characteristics of trafo3w dropped from the sub-network", gm, in_function("select_subnet", lambda s: s.replace(' |\n            net["trafo_characteristic_table"].id_characteristic.isin(p2["trafo3w"].id_characteristic_table.values)]', ']', 1)), "select_subnet::trafo_characteristic_table"),
        Variant("impedance asymmetric in x only accepted", "pandapower/toolbox/grid_modification.py", replace_once("if not np.isclose(imp.rft_pu, imp.rtf_pu) or not np.isclose(imp.xft_pu, imp.xtf_pu):", "if not (np.isclose(imp.rft_pu, imp.rtf_pu) or np.isclose(imp.xft_pu, imp.xtf_pu)):"), "asymmetry-test"),
        Variant("sub-network loses the frequency", "pandapower/toolbox/grid_modification.py", replace_once('net_parameters = ["name", "f_hz"]', 'net_parameters = ["name"]'), "select_subnet::f_hz"),
        Variant("characteristic id offset by the number of ids", "pandapower/toolbox/grid_modification.py", replace_once("id_start = net1[elm_type].id_characteristic.max() + 1", "id_start = net1[elm_type].id_characteristic.nunique()"), "characteristic-id-offset"),
        Variant("twin: de morgan form", "pandapower/toolbox/grid_modification.py", replace_once("if not np.isclose(imp.rft_pu, imp.rtf_pu) or not np.isclose(imp.xft_pu, imp.xtf_pu):", "if not (np.isclose(imp.rft_pu, imp.rtf_pu) and np.isclose(imp.xft_pu, imp.xtf_pu)):"), None),
        V("xward impedance without base power", gm, in_function("replace_xward_by_internal_elements", lambda s: s.replace(" * net.sn_mva,", ",", 2)), "xward-internal:store:net.impedance.rft_pu"),
        V("xward r and x swapped", gm, in_function("replace_xward_by_internal_elements", lambda s: s.replace("xward.r_ohm / (vn ** 2)", "xward.X_TMP / (vn ** 2)", 1).replace("xward.x_ohm / (vn ** 2)", "xward.r_ohm / (vn ** 2)", 1).replace("xward.X_TMP", "xward.x_ohm", 1)), "xward-internal:store:net.impedance.rft_pu"),
        V("xward shunt takes the constant power part", gm, in_function("replace_xward_by_internal_elements", replace_once("q_mvar=xward.qz_mvar, p_mw=xward.pz_mw", "q_mvar=xward.qz_mvar, p_mw=xward.ps_mw")), "xward-internal:store:net.shunt.p_mw"),
        V("ward load q from z part", gm, in_function("replace_ward_by_internal_elements", replace_once("create_load(net, ward.bus, ward.ps_mw, ward.qs_mvar,", "create_load(net, ward.bus, ward.ps_mw, ward.qz_mvar,")), "ward-internal:store:net.load.q_mvar"),
        V("line impedance ignores parallel", gm, in_function("replace_line_by_impedance", replace_once("rft_pu=line_.r_ohm_per_km * l / p / Zni,", "rft_pu=line_.r_ohm_per_km * l / Zni,")), "line-impedance:store:net.impedance.rft_pu"),
        V("line impedance base inverted", gm, in_function("replace_line_by_impedance", replace_once("xft_pu=line_.x_ohm_per_km * l / p / Zni,", "xft_pu=line_.x_ohm_per_km * l / p * Zni,")), "line-impedance:store:net.impedance.xft_pu"),
        V("line susceptance scale", gm, in_function("replace_line_by_impedance", replace_once("bf_pu=2 * net.f_hz * np.pi * line_.c_nf_per_km * 1e-9 * Zni * l * p,", "bf_pu=2 * net.f_hz * np.pi * line_.c_nf_per_km * 1e-6 * Zni * l * p,")), "line-impedance:store:net.impedance.bf_pu"),
        V("line base voltage not squared", gm, in_function("replace_line_by_impedance", replace_once("Zni = vn ** 2 / sn_mva[i]", "Zni = vn / sn_mva[i]")), "line-impedance:store:net.impedance.rft_pu"),
        V("impedance line base", gm, in_function("replace_impedance_by_line", replace_once("Zni = vn ** 2 / imp.sn_mva", "Zni = vn ** 2 / net.sn_mva")), "impedance-line:store:net.line.r_ohm_per_km"),
        V("impedance line x from r", gm, in_function("replace_impedance_by_line", replace_once("x_ohm_per_km=imp.xft_pu * Zni,", "x_ohm_per_km=imp.rft_pu * Zni,")), "impedance-line:store:net.line.x_ohm_per_km"),
        V("gen keeps default voltage", gm, in_function("replace_ext_grid_by_gen", replace_once("vm_pu=ext_grid.vm_pu, ", "")), "ext_grid-gen:store:net.gen.vm_pu"),
        V("ext grid angle from voltage", gm, in_function("replace_gen_by_ext_grid", replace_once("net.res_bus.va_degree.at[gen.bus]", "net.res_bus.vm_pu.at[gen.bus]")), "gen-ext_grid:store:net.ext_grid.va_degree"),
        V("load to sgen keeps sign", gm, in_function("replace_pq_elmtype", replace_once("            sign *= -1\n", "            sign *= 1\n")), "pq-load-sgen:store:net.sgen.p_mw"),
        V("limits not swapped", gm, in_function("replace_pq_elmtype", replace_once('["min_p_mw", "max_p_mw", "min_q_mvar", "max_q_mvar"]):', '["max_p_mw", "min_p_mw", "max_q_mvar", "min_q_mvar"]):')), "store:net.sgen.min_p_mw"),
        V("trafo drop removes switches by code prefix", gm, in_function("drop_trafos", replace_once('(net["switch"]["et"] == et)]', '(net["switch"]["et"].str.startswith(et))]')), "ET-EXACT"),
        # twin
        V("twin: reorder factors", gm, in_function("replace_line_by_impedance", replace_once("rft_pu=line_.r_ohm_per_km * l / p / Zni,", "rft_pu=l * line_.r_ohm_per_km / (p * Zni),")), None),
    ]
