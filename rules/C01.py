"""C01 - nodal power balance: structural necessary conditions.

Decided (not the numerical balance):
 a) the monomials (sign x source columns) aggregated into ppc bus PD/QD by the builder equal the
    monomials summed back into res_bus by the result reader (element set, sign table, scaling and
    in-service dependence);  same for the constant-impedance part GS/BS vs _get_shunt_results
 c) the ZIP voltage law has the same monomial structure in the mismatch (_get_Sload) and in the
    per-load result writer
 d) the per-bus ZIP coefficients must depend on the load powers          (known finding today)
 e) the demand added back when splitting generator P/Q depends on the ZIP columns (known finding)
 f) branch element types built into ppc == branch element types reported
"""
import ast

from ppsa import facts, shape as sh
from ppsa.absint import AV, E, const
from ppsa.astutil import str_elements, calls_in, call_name, norm
from ppsa.selftest import Variant, replace_once, in_function

BB = "pandapower.build_bus"
RB = "pandapower.results_bus"


def _sig_no_ppc(sigs):
    return {s for s in sigs if not any(a.startswith("ppc.") for a in s[1])}


def _has(sig, frag):
    return any(frag in a for a in sig[1])


def demand_side(ctx):
    it, fr = facts.analyse(ctx.repo, f"{BB}:_calc_pq_elements_and_add_on_ppc",
                           options={"mode": "pf", "voltage_depend_loads": False})
    out = {}
    for col in ("PD", "QD"):
        ss = facts.stores(it, f"ppc.bus.{col}")
        if not ss:
            ctx.fail(f"no store to ppc bus {col} found in _calc_pq_elements_and_add_on_ppc")
        v = facts.joined_value(ss)
        sg = facts.sigs(v.shape)
        if sg is None:
            ctx.fail(f"shape of ppc bus {col} is undecidable (TOP)")
        out[col] = (sg, ss[0])
    return out, it


def result_side(ctx, vdl):
    it, fr = facts.analyse(ctx.repo, f"{RB}:_get_p_q_results",
                           options={"ac": True, "voltage_depend_loads": vdl, "distributed_slack": False, "mode": "pf"},
                           local_stores=True)
    out = {}
    for col, name in (("0", "P"), ("1", "Q")):
        ss = [s for s in it.stores if s.path == f"local.bus_pq.{col}" and s.fn.name == "_get_p_q_results"]
        if not ss:
            ctx.fail(f"_get_p_q_results: no store to bus_pq[:, {col}]")
        v = facts.joined_value(ss)
        sg = facts.sigs(v.shape)
        if sg is None:
            ctx.fail(f"_get_p_q_results: bus_pq[:, {col}] undecidable (TOP)")
        out[name] = (sg, ss[0])
    return out, it


def rule_a(ctx):
    R = "BALANCE-TERMS"
    ctx.rule(R, "every (sign x source columns) monomial aggregated into ppc bus PD/QD is summed back into "
                "res_bus p/q with the same sign and the same factors, and vice versa (monomials of the result "
                "side that read solver output - ppc.* - or ZIP coefficients are extra terms and exempt)")
    dem, it_d = demand_side(ctx)
    res, it_r = result_side(ctx, vdl=False)
    for col, name in (("PD", "P"), ("QD", "Q")):
        D, dst = dem[col]
        Rr, rst = res[name]
        Rn = _sig_no_ppc(Rr)
        for sig in sorted(D, key=facts.fmt_sig):
            key = f"{BB}::_calc_pq_elements_and_add_on_ppc::{col}:{facts.fmt_sig(sig)}"
            ctx.ob(R, key, sig in Rn, f"demand term {facts.fmt_sig(sig)} of {col} "
                   + ("is reported by _get_p_q_results" if sig in Rn else "has no equal term in res_bus aggregation (_get_p_q_results)"),
                   dst.fn.loc(dst.node))
        for sig in sorted(Rn, key=facts.fmt_sig):
            if sig in D:
                continue
            key = f"{RB}::_get_p_q_results::{name}:{facts.fmt_sig(sig)}"
            ctx.ob(R, key, False, f"result term {facts.fmt_sig(sig)} of res_bus {name} has no equal term in the bus demand {col}",
                   rst.fn.loc(rst.node))
    ctx.require_min(R, 20)

    # per-element result tables: res_<el>.p_mw must be the element's own demand monomial
    R2 = "ELEMENT-RESULT"
    ctx.rule(R2, "res_<element>.p_mw/q_mvar written by write_pq_results_to_element carries exactly the factors "
                 "(power column, scaling, in-service mask) of that element's bus demand term")
    D_all = {("p_mw", s) for s in dem["PD"][0]} | {("q_mvar", s) for s in dem["QD"][0]}
    for el in ("load", "sgen", "storage", "motor", "ward", "xward", "asymmetric_load", "asymmetric_sgen"):
        for col in ("p_mw", "q_mvar"):
            hv = it_r.heap.get(f"net.res_{el}.{col}")
            if hv is None:
                ctx.ob(R2, f"{RB}::write_pq_results_to_element::res_{el}.{col}", False,
                       f"res_{el}.{col} is never written on the result path", "")
                continue
            sg = facts.sigs(hv.shape)
            if sg is None:
                ctx.fail(f"res_{el}.{col} undecidable")
            mine = {s[1] for s in _sig_no_ppc(sg)}
            want = {s[1] for (c, s) in D_all if c == col and any(a.startswith(f"net.{el}.") for a in s[1])}
            ctx.ob(R2, f"{RB}::write_pq_results_to_element::res_{el}.{col}", mine == want,
                   f"res_{el}.{col} factors {sorted(map(sorted, mine))} vs demand factors {sorted(map(sorted, want))}",
                   "pandapower/results_bus.py")
    ctx.require_min(R2, 16)


def rule_shunt(ctx):
    R = "SHUNT-TERMS"
    ctx.rule(R, "every constant-impedance term put into ppc bus GS/BS by _calc_shunts_and_add_on_ppc (shunt, ward, "
                "xward) is reported by _get_shunt_results with degree 2 in the bus voltage, the same in-service "
                "mask and (shunt) step and voltage-ratio factors")
    it, fr = facts.analyse(ctx.repo, f"{BB}:_calc_shunts_and_add_on_ppc", options={"mode": "pf", "trafo3w_losses": "hv"})
    it2, fr2 = facts.analyse(ctx.repo, f"{RB}:_get_shunt_results", options={"ac": True, "mode": "pf"},
                             args={"bus_pq": AV(E, "val", None, sh.ZERO)}, local_stores=True)
    for col, lc, pcol in (("GS", "0", "p"), ("BS", "1", "q")):
        ss = facts.stores(it, f"ppc.bus.{col}")
        if not ss:
            ctx.fail(f"no store to ppc bus {col}")
        D = facts.sigs(facts.joined_value(ss).shape)
        rs = [s for s in it2.stores if s.path == f"local.bus_pq.{lc}"]
        if not rs:
            ctx.fail(f"_get_shunt_results: no store to bus_pq[:, {lc}]")
        Rv = facts.joined_value(rs)
        if D is None or facts.undecided(Rv.shape):
            ctx.fail(f"shunt {col}: undecidable")
        # result monomials: strip ppc.bus.VM (must be squared) and compare factor sets
        res = {}
        for m in Rv.shape:
            f = frozenset(a for a in m.facs if not a.startswith(("lookup.", "param.")))
            res.setdefault(frozenset(a for a in f if a != "ppc.bus.VM"), []).append(m)
        for sig in sorted(D, key=facts.fmt_sig):
            f = sig[1]
            tabs = {a.split(".")[1] for a in f if a.startswith("net.")}
            if "trafo3w" in tabs or any("_table" in a or "shunt_characteristic_table" in a or "step_dependency_table" in a for a in f):
                continue  # star-loss trafo3w shunt and step-table variants are not bus-element results
            # BS is stored with inverted sign (-vq): compare factors and the voltage degree
            ms = res.get(f)
            key = f"{BB}::_calc_shunts_and_add_on_ppc::{col}:{'*'.join(sorted(f))}"
            ok = bool(ms) and all(m.exp("vm") == 2 for m in ms)
            ctx.ob(R, key, ok, f"shunt term {'*'.join(sorted(f))} " + (
                "reported with vm^2" if ok else f"not reported with the same factors and vm^2 (result has: {[repr(m) for m in (ms or [])][:2]})"),
                   ss[0].fn.loc(ss[0].node))
    ctx.require_min(R, 6)


def rule_zip(ctx):
    R = "ZIP-LAW"
    ctx.rule(R, "bus demand used in the mismatch (makeSbus._get_Sload) and per-load results "
                "(write_voltage_dependend_load_results) have the same voltage law: +1, -ci, -cz at degree 0, "
                "+ci at degree 1, +cz at degree 2 (P with the *_p coefficients, Q with the *_q ones)")
    vm = facts.sym("ppc.bus.VM", {"vm": 1})
    it, fr = facts.analyse(ctx.repo, "pandapower.pypower.makeSbus:_get_Sload", args={"bus": facts.matrix("bus"), "vm": vm})
    if facts.undecided(fr.ret.shape):
        ctx.fail("_get_Sload: return shape undecidable")

    def law(shape, power_atom, ci_atom, cz_atom):
        out = set()
        for m in shape:
            if power_atom not in m.facs:
                continue
            out.add((m.sign, int(m.exp("vm")), ci_atom in m.facs, cz_atom in m.facs))
        return out
    want = {(1, 0, False, False), (-1, 0, True, False), (-1, 0, False, True), (1, 1, True, False), (1, 2, False, True)}
    for pa, ci, cz, nm in (("ppc.bus.PD", "ppc.bus.CID_P", "ppc.bus.CZD_P", "P"), ("ppc.bus.QD", "ppc.bus.CID_Q", "ppc.bus.CZD_Q", "Q")):
        got = law(fr.ret.shape, pa, ci, cz)
        ctx.ob(R, f"pandapower.pypower.makeSbus::_get_Sload::{nm}", got == want,
               f"voltage law of bus demand {nm}: {sorted(got)} (required {sorted(want)})", "pandapower/pypower/makeSbus.py")
    it2, fr2 = facts.analyse(ctx.repo, f"{RB}:write_voltage_dependend_load_results",
                             options={"voltage_depend_loads": True},
                             args={"p": AV(E, "val", None, sh.ZERO), "q": AV(E, "val", None, sh.ZERO), "b": AV(E, "val", None, sh.ZERO)})
    for col, pa, ci, cz in (("p_mw", "net.load.p_mw", "net.load.const_i_p_percent", "net.load.const_z_p_percent"),
                            ("q_mvar", "net.load.q_mvar", "net.load.const_i_q_percent", "net.load.const_z_q_percent")):
        hv = it2.heap.get(f"net.res_load.{col}")
        if hv is None or facts.undecided(hv.shape):
            ctx.fail(f"write_voltage_dependend_load_results: res_load.{col} undecidable")
        got = law(hv.shape, pa, ci, cz)
        ctx.ob(R, f"{RB}::write_voltage_dependend_load_results::{col}", got == want,
               f"voltage law of res_load.{col}: {sorted(got)} (required {sorted(want)})", "pandapower/results_bus.py")
        # every monomial carries scaling and the in-service mask
        bad = [m for m in hv.shape if pa in m.facs and not ({"net.load.scaling", "is.load"} <= m.facs)]
        ctx.ob(R, f"{RB}::write_voltage_dependend_load_results::{col}:scaling+mask", not bad,
               f"every term of res_load.{col} carries scaling and in-service mask" if not bad else f"term without scaling/mask: {bad[0]!r}",
               "pandapower/results_bus.py")
        # dec: coefficient percent columns divided by 100
        bad = [m for m in hv.shape if m.dec != 6]
        ctx.ob(R, f"{RB}::write_voltage_dependend_load_results::{col}:scale", not bad,
               "all terms in MW (percent coefficients divided by 100)" if not bad else f"term with decimal scale {bad[0].dec}: {bad[0]!r}",
               "pandapower/results_bus.py")


def rule_zip_weight(ctx, it_d):
    R = "ZIP-WEIGHT"
    ctx.rule(R, "the per-bus ZIP coefficients CID_*/CZD_* multiply the whole bus demand, so they must be "
                "power-weighted: their value must depend on the load power column and scaling")
    it, fr = facts.analyse(ctx.repo, f"{BB}:_calc_pq_elements_and_add_on_ppc", options={"mode": "pf", "voltage_depend_loads": True})
    bad = []
    first = None
    seen = {}
    for col, pw in (("CID_P", "p_mw"), ("CZD_P", "p_mw"), ("CID_Q", "q_mvar"), ("CZD_Q", "q_mvar")):
        ss = facts.stores(it, f"ppc.bus.{col}")
        if not ss:
            ctx.fail(f"no store to ppc bus {col}")
        first = first or ss[0]
        v = facts.joined_value(ss)
        seen[col] = sorted(d for d in v.deps if d.startswith("net.load.const"))
        if f"net.load.{pw}" not in v.deps:
            bad.append(col)
    ctx.ob(R, f"{BB}::_calc_pq_elements_and_add_on_ppc::CID/CZD", not bad,
           "per-bus ZIP coefficients are power-weighted" if not bad else
           f"{'/'.join(bad)} do not depend on the load power (unweighted mean over the loads of a bus, applied to the whole bus demand PD/QD)",
           first.fn.loc(first.node), detail=seen)


def rule_pfsoln(ctx):
    R = "DEMAND-ADDBACK"
    ctx.rule(R, "pfsoln._update_q/_update_p add the bus demand back to the injected power to obtain generator "
                "Q / slack P; the mismatch was built with the voltage-dependent demand (makeSbus with vm), so the "
                "term added back must depend on the same ppc columns (PD/QD and the ZIP coefficient columns)")
    itS, frS = facts.analyse(ctx.repo, "pandapower.pypower.makeSbus:_get_Sload",
                             args={"bus": facts.matrix("bus"), "vm": facts.sym("ppc.bus.VM", {"vm": 1})})
    need_q = {d for d in frS.ret.deps if d.startswith("ppc.bus.") and d.endswith(("QD", "_Q"))}
    need_p = {d for d in frS.ret.deps if d.startswith("ppc.bus.") and d.endswith(("PD", "_P"))}
    if len(need_q) != 3 or len(need_p) != 3:
        ctx.fail(f"_get_Sload read-set changed: {sorted(frS.ret.deps)}")
    args = {"bus": facts.matrix("bus"), "gen": facts.matrix("gen")}
    it, fr = facts.analyse(ctx.repo, "pandapower.pypower.pfsoln:_update_q", args=args)
    ss = facts.stores(it, "ppc.gen.QG")
    if not ss:
        ctx.fail("_update_q: no store to gen QG")
    deps = set()
    for s in ss:
        deps |= s.value.deps
    ctx.ob(R, "pandapower.pypower.pfsoln::_update_q::QG", need_q <= deps,
           f"gen QG demand term depends on {sorted(d for d in deps if d.startswith('ppc.bus.'))}, needs {sorted(need_q)}",
           ss[0].fn.loc(ss[0].node))
    it, fr = facts.analyse(ctx.repo, "pandapower.pypower.pfsoln:_update_p", args=args)
    ss = facts.stores(it, "ppc.gen.PG")
    if not ss:
        ctx.fail("_update_p: no store to gen PG")
    deps = set()
    for s in ss:
        deps |= s.value.deps
    ctx.ob(R, "pandapower.pypower.pfsoln::_update_p::PG", need_p <= deps,
           f"slack PG demand term depends on {sorted(d for d in deps if d.startswith('ppc.bus.'))}, needs {sorted(need_p)}",
           ss[0].fn.loc(ss[0].node))


def rule_branches(ctx):
    R = "BRANCH-TYPES"
    ctx.rule(R, "branch element types given rows in ppc['branch'] by _initialize_branch_lookup/_build_branch_ppc "
                "are exactly the types whose terminal flows _get_branch_results writes to result tables")
    repo = ctx.repo
    fi = repo.func("pandapower.build_branch:_initialize_branch_lookup")
    lookup_keys = set()
    for n in ast.walk(fi.node):
        if isinstance(n, ast.Assign) and any(isinstance(t, ast.Name) and t.id == "elements" for t in n.targets):
            v = n.value.body if isinstance(n.value, ast.IfExp) else n.value
            els = str_elements(v)
            if els:
                lookup_keys |= set(els)
        if isinstance(n, ast.Assign):
            for t in n.targets:
                if isinstance(t, ast.Subscript) and isinstance(t.slice, ast.Constant) and isinstance(t.slice.value, str) \
                        and "_pd2ppc_lookups" in ast.unparse(t.value):
                    lookup_keys.add(t.slice.value)
    if len(lookup_keys) < 3:
        ctx.fail("_initialize_branch_lookup: element list not found")
    fb = repo.func("pandapower.build_branch:_build_branch_ppc")
    built = set()
    for n in ast.walk(fb.node):
        if isinstance(n, ast.If) and isinstance(n.test, ast.Compare) and isinstance(n.test.ops[0], ast.In) \
                and isinstance(n.test.left, ast.Constant) and isinstance(n.test.comparators[0], ast.Name) \
                and n.test.comparators[0].id == "lookup":
            if any((call_name(c) or "").startswith("_calc_") for c in calls_in(n)):
                built.add(n.test.left.value)
    for el in sorted(built | lookup_keys):
        ctx.ob(R, f"pandapower.build_branch::_build_branch_ppc::lookup:{el}", el in built and el in lookup_keys,
               f"branch type {el}: rows reserved={el in lookup_keys} parameters built={el in built}", fb.loc())
    built = {e for e in built if not e.endswith("_dc")}
    fr = repo.func("pandapower.results_branch:_get_branch_results")
    reported = set()
    for c in calls_in(fr.node):
        nm = call_name(c) or ""
        if nm.startswith("_get_") and nm.endswith("_results"):
            el = nm[len("_get_"):-len("_results")]
            el = el.replace("_branch", "")
            reported.add(el)
    reported_cmp = {e for e in reported if e not in ("line_dc", "tcsc")}
    # impedance switches are reported through _get_switch_results
    built_cmp = set(built)
    for el in sorted(built_cmp | reported_cmp):
        ctx.ob(R, f"pandapower.build_branch::_initialize_branch_lookup::{el}", el in built_cmp and el in reported_cmp,
               f"branch type {el}: built={el in built_cmp} reported={el in reported_cmp}", fi.loc())
    ctx.require_min(R, 5)


def rule_aggregation(ctx):
    """structure of the aggregation itself: several elements at one bus, the fast slack shortcut, the four ZIP columns"""
    import ast
    from rules import _lints
    from rules.C03 import rule_shortcut_guard
    from ppsa.astutil import norm
    R = "ACCUMULATE"
    ctx.rule(R, "contributions of several elements at one bus are summed: every in-place add into ppc['bus'][idx, GS|BS|PD|QD] uses "
                "the unique group key returned by _sum_by_group (numpy's fancy-index += keeps only the last of repeated indices)")
    fis = [ctx.repo.func(f"pandapower.build_bus:{f}") for f in ("_calc_shunts_and_add_on_ppc", "_add_ext_grid_sc_impedance",
                                                                  "_add_motor_impedances_ppc", "_add_load_sc_impedances_ppc")]
    n = _lints.accumulate_unique(ctx, R, fis)
    if n < 4:
        ctx.fail(f"ACCUMULATE: only {n} in-place adds into the bus matrix found")
    # plain stores of the aggregated demand use the group key as well
    fi = ctx.repo.func("pandapower.build_bus:_calc_pq_elements_and_add_on_ppc")
    uniq = _lints._bound_from_sum_by_group(fi.node)
    for st in ast.walk(fi.node):
        if isinstance(st, ast.Assign) and isinstance(st.targets[0], ast.Subscript) and isinstance(st.targets[0].slice, ast.Tuple) \
                and len(st.targets[0].slice.elts) == 2 and isinstance(st.targets[0].slice.elts[1], ast.Name) \
                and st.targets[0].slice.elts[1].id in ("PD", "QD", "DC_PD"):
            idx = st.targets[0].slice.elts[0]
            ok = isinstance(idx, ast.Name) and idx.id in uniq
            ctx.ob(R, f"pandapower.build_bus::_calc_pq_elements_and_add_on_ppc::{norm(st.targets[0], 50)}", ok,
                   "bus demand is stored per unique bus of the grouped sum" if ok else
                   f"`{norm(st, 70)}` stores per-element values at a non-unique bus index: elements sharing a bus overwrite each other", fi.loc(st))
    rule_shortcut_guard(ctx)
    rule_zip_sibling(ctx)
    # the balance at the bus of a participating xward: the share written to res_xward is the solved bus demand minus the constant demand
    # of the in-service elements at that bus, with the sign table of the aggregation (shared with C10)
    from rules import C10
    C10.rule_xward(ctx)
    RG = "RESULT-WRITTEN"
    ctx.rule(RG, "_get_gen_results calls _get_pp_gen_results whenever net.gen has rows: the test does not depend on how many generators are in "
                 "service (with all generators switched off the rows must be rewritten with zeros, otherwise a run that keeps the result "
                 "tables - init='results', rundcpp - reports the generation of the previous run)")
    from ppsa.astutil import inline_locals
    fg = ctx.repo.func("pandapower.results_gen:_get_gen_results")
    gd = next((n for n in ast.walk(fg.node) if isinstance(n, ast.If) and any(isinstance(c, ast.Call) and norm(c.func, 40) == "_get_pp_gen_results" for st in n.body for c in ast.walk(st))), None)
    if gd is None:
        ctx.fail("_get_gen_results: call of _get_pp_gen_results not found")
    t = norm(inline_locals(fg.node, gd.test), 200).replace(" ", "").replace('"', "'")
    ok = "len(net['gen'])" in t and "net['gen'].in_service" not in t and "net.gen.in_service" not in t
    ctx.ob(RG, "pandapower.results_gen::_get_gen_results::gen-results-guard", ok,
           f"generator results written when `{t[:100]}`" if ok else f"generator results written only when `{t[:110]}`: stale rows when every generator is out of service",
           fg.loc(gd))
    R5 = "IS-FACTOR"
    ctx.rule(R5, "every term that _calc_shunts_and_add_on_ppc adds to the shunt accumulators inside an element block is multiplied by "
                 "that element's in-service mask (the result side writes zero for out-of-service elements)")
    if _lints.in_service_factor(ctx, R5, ctx.repo.func("pandapower.build_bus:_calc_shunts_and_add_on_ppc")) < 10:
        ctx.fail("IS-FACTOR: fewer than 10 accumulated terms found in _calc_shunts_and_add_on_ppc")
    # the balance at a reference bus closes only if the slack power of the bus is shared completely among its reference rows
    R4 = "SLACK-SPLIT"
    ctx.rule(R4, "the slack power of a bus is shared among the reference generators of that bus: the divisor is the number of "
                 "exactly the rows the shares are assigned to (AC: pfsoln._split_p_for_gens_at_same_bus, DC: _run_dc_pf); otherwise "
                 "the element results at the reference bus do not add up to the bus injection")
    n = _lints.split_divisor(ctx, R4, [ctx.repo.func("pandapower.pypower.pfsoln:_split_p_for_gens_at_same_bus"),
                                       ctx.repo.func("pandapower.pf.run_dc_pf:_run_dc_pf")])
    if n < 2:
        ctx.fail("SLACK-SPLIT: the slack sharing statements were not found")
    _lints.split_total(ctx, "SPLIT-TOTAL")
    RDC = "DC-CACHE"
    ctx.rule(RDC, "recycled DC power flow: when the phase shift changed, every cached key that the unchanged-shift branch reads (Pbusinj, "
                  "Pfinj) and the compared key (shift) are refreshed; the full build stores all keys")
    _lints.dc_cache_refresh(ctx, RDC)


def rule_zip_sibling(ctx):
    import ast
    from ppsa.astutil import norm
    fi = ctx.repo.func("pandapower.build_bus:_calc_pq_elements_and_add_on_ppc")
    # the four ZIP coefficient columns are computed in the same way
    R2 = "ZIP-SIBLING"
    ctx.rule(R2, "the per-bus ZIP coefficients CID_P, CZD_P, CID_Q, CZD_Q are four instances of one formula (mean over the active "
                 "loads of the bus of the matching const_*_percent column / 100): they must agree up to the column name")
    want = {"CID_P": "const_i_p_percent", "CZD_P": "const_z_p_percent", "CID_Q": "const_i_q_percent", "CZD_Q": "const_z_q_percent"}
    defs = {}
    for st in ast.walk(fi.node):
        if isinstance(st, ast.Assign) and isinstance(st.targets[0], ast.Name):
            defs[st.targets[0].id] = st.value
    forms = {}
    for st in ast.walk(fi.node):
        if isinstance(st, ast.Assign) and isinstance(st.targets[0], ast.Subscript) and isinstance(st.targets[0].slice, ast.Tuple) \
                and isinstance(st.targets[0].slice.elts[-1], ast.Name) and st.targets[0].slice.elts[-1].id in want:
            col = st.targets[0].slice.elts[-1].id
            txt = norm(st.value, 400)
            for nm in sorted({n.id for n in ast.walk(st.value) if isinstance(n, ast.Name)}, key=len, reverse=True):
                if nm in defs and nm.endswith("_sum"):
                    txt = txt.replace(nm, "(" + norm(defs[nm], 400) + ")")
            forms[col] = (txt.replace(want[col], "<COL>"), st, want[col] in txt)
    if set(forms) != set(want):
        ctx.fail(f"ZIP-SIBLING: stores of the ZIP coefficient columns not found ({sorted(forms)})")
    ref = {}
    for col, (txt, st, has) in forms.items():
        ref.setdefault(txt, []).append(col)
    major = max(ref.values(), key=len)
    for col, (txt, st, has) in sorted(forms.items()):
        ok = col in major and has and len(major) >= 3
        ctx.ob(R2, f"pandapower.build_bus::_calc_pq_elements_and_add_on_ppc::{col}", ok,
               f"{col} = mean of {want[col]}/100 over the active loads of the bus, like its siblings" if ok else
               f"{col} is computed as `{txt}` while its siblings {major} use `{[k for k, v in ref.items() if v is major][0]}`"
               + ("" if has else f" and does not read {want[col]}"), fi.loc(st))


def run(ctx):
    ctx.assume("decides structural necessary conditions of nodal balance (term sets, signs, factors, voltage "
               "degrees), not the numerical balance of a converged solution")
    ctx.assume("source columns count as positive symbols; sign is the sign of the syntactic coefficient")
    rule_a(ctx)
    rule_shunt(ctx)
    rule_zip(ctx)
    rule_zip_weight(ctx, None)
    rule_pfsoln(ctx)
    rule_branches(ctx)
    rule_aggregation(ctx)


def variants(repo):
    bb = "pandapower/build_bus.py"
    rb = "pandapower/results_bus.py"
    ms = "pandapower/pypower/makeSbus.py"
    return [
        Variant("recycled dc run keeps the old branch injection", "pandapower/pf/run_dc_pf.py", replace_once("            ppci['internal']['Pfinj'] = Pfinj\n    else:", "    else:"), "DC-CACHE"),
        Variant("recycled dc run forgets the compared shift", "pandapower/pf/run_dc_pf.py", replace_once("            ppci['internal']['shift'] = branch[:, SHIFT]\n            ppci['internal']['Pbusinj'] = Pbusinj\n            ppci['internal']['Pfinj'] = Pfinj\n", "            ppci['internal'].update(Pbusinj=Pbusinj, Pfinj=Pfinj)\n"), "DC-CACHE"),
        Variant("twin: cache refreshed through update()", "pandapower/pf/run_dc_pf.py", replace_once("            ppci['internal']['shift'] = branch[:, SHIFT]\n            ppci['internal']['Pbusinj'] = Pbusinj\n            ppci['internal']['Pfinj'] = Pfinj\n", "            ppci['internal'].update(shift=branch[:, SHIFT], Pbusinj=Pbusinj, Pfinj=Pfinj)\n"), None),
        Variant("storage counted as generation in the xward share", rb, replace_once('p_bus -= p_elm.sum() * (-1 if e == "sgen" else 1)', 'p_bus -= p_elm.sum() * (-1 if e in ("sgen", "storage") else 1)'), "SW-XWARD"),
        Variant("gen results only with in-service gens", "pandapower/results_gen.py", replace_once("gen_end = eg_end + len(net['gen'])", "gen_end = eg_end + sum(net['gen'].in_service)"), "RESULT-WRITTEN"),
        Variant("table shunt without in-service mask", bb, replace_once('q = q + s["q_mvar_table"].fillna(0).to_numpy() * v_ratio * vl', 'q = q + s["q_mvar_table"].fillna(0).to_numpy() * v_ratio'), "IS-FACTOR"),
        Variant("ward admittance without in-service mask", bb, replace_once('p = np.hstack([p, w["pz_mw"].values * base_multiplier * vl])', 'p = np.hstack([p, w["pz_mw"].values * base_multiplier])'), "IS-FACTOR"),
        Variant("ac slack split by all gens at the bus", "pandapower/pypower/pfsoln.py",
                replace_once("gen[ext_grids, PG] = p_ext_grids / len(ext_grids)", "gen[ext_grids, PG] = p_ext_grids / len(gens_at_bus)"), "SLACK-SPLIT"),
        Variant("equal split of the whole bus power among all gens", "pandapower/pypower/pfsoln.py", replace_once("gen[ext_grids, PG] = p_ext_grids / len(ext_grids)", "gen[gens_at_bus, PG] = p_bus / len(gens_at_bus)"), "SPLIT-TOTAL"),
        Variant("equal split forgets the pv generation", "pandapower/pypower/pfsoln.py", replace_once("gen[ext_grids, PG] = p_ext_grids / len(ext_grids)", "gen[ext_grids, PG] = p_bus / len(ext_grids)"), "SPLIT-TOTAL"),
        Variant("twin: pv sum in a local", "pandapower/pypower/pfsoln.py", replace_once("        p_ext_grids = p_bus - sum(gen[pv_gens, PG])\n", "        p_pv = sum(gen[pv_gens, PG])\n        p_ext_grids = p_bus - p_pv\n"), None),
        Variant("dc slack split counts all gens", "pandapower/pf/run_dc_pf.py",
                replace_once("ext_grids_bus=bincount(refgenbus)", "ext_grids_bus=bincount(gen[:, GEN_BUS].astype(np.int64))"), "SLACK-SPLIT"),
        Variant("ext grid admittance with repeated bus index", bb, in_function("_add_ext_grid_sc_impedance",
                lambda s: s.replace('ppc["bus"][buses, GS] += gs * ppc[\'baseMVA\']', 'ppc["bus"][eg_buses_ppc, GS] += y_grid.real * ppc[\'baseMVA\']', 1)), "ACCUMULATE"),
        Variant("demand stored per element", bb, in_function("_calc_pq_elements_and_add_on_ppc",
                replace_once('        b, vp, vq = _sum_by_group(b, p, q)\n', '        vp, vq = p, q\n')), "ACCUMULATE"),
        Variant("zip coefficient not averaged", bb, in_function("_calc_pq_elements_and_add_on_ppc",
                replace_once("CZD_Q] = cz_q_sum / no_loads", "CZD_Q] = cz_q_sum")), "ZIP-SIBLING"),
        Variant("zip q coefficient from p column", bb, in_function("_calc_pq_elements_and_add_on_ppc",
                replace_once('cz_q_sum = sum(tab["const_z_q_percent"][mask] / 100.)', 'cz_q_sum = sum(tab["const_z_p_percent"][mask] / 100.)')), "ZIP-SIBLING"),
        Variant("shortcut with conductance shunts", "pandapower/pf/run_newton_raphson_pf.py",
                replace_once('shunt_in_net = any(ppci["bus"][:, BS]) or any(ppci["bus"][:, GS])', 'shunt_in_net = any(ppci["bus"][:, BS])'), "SHORTCUT-GUARD"),
        Variant("drop scaling in demand", bb, in_function("_calc_pq_elements_and_add_on_ppc",
                replace_once('tab["p_mw"].values * active * scaling * sign', 'tab["p_mw"].values * active * sign')),
                "BALANCE-TERMS"),
        Variant("sgen sign lost in results", rb, in_function("_get_p_q_results",
                replace_once("p = np.hstack([p, -p_el])", "p = np.hstack([p, p_el])")), "BALANCE-TERMS"),
        Variant("ward left out of results", rb, in_function("_get_p_q_results",
                replace_once('"storage", "ward", "xward"', '"storage", "xward"')), "BALANCE-TERMS"),
        Variant("result ignores in_service", rb, in_function("write_pq_results_to_element",
                replace_once("el_data[p_mw].values * scaling * element_in_service", "el_data[p_mw].values * scaling")),
                "ELEMENT-RESULT"),
        Variant("ci/cz swapped in results", rb, in_function("write_voltage_dependend_load_results",
                replace_once("volt_depend_p = ci_p * vm_l + cz_p * vm_l ** 2", "volt_depend_p = cz_p * vm_l + ci_p * vm_l ** 2")),
                "ZIP-LAW"),
        Variant("Sload exponent", ms, replace_once("cp + ci * vm + cz * vm ** 2", "cp + ci * vm + cz * vm"), "ZIP-LAW"),
        Variant("percent not divided", rb, in_function("write_voltage_dependend_load_results",
                replace_once('l["const_i_q_percent"].values / 100.', 'l["const_i_q_percent"].values')), "ZIP-LAW"),
        Variant("ward shunt voltage degree", rb, in_function("_get_shunt_results",
                replace_once('p_ward = u_ward ** 2 * net["ward"]["pz_mw"].values * ward_is', 'p_ward = u_ward * net["ward"]["pz_mw"].values * ward_is')),
                "SHUNT-TERMS"),
        Variant("shunt step dropped", rb, in_function("_get_shunt_results",
                replace_once("q_shunt = u_shunt ** 2 * q_shunt_step * shunt_is * v_ratio * step", "q_shunt = u_shunt ** 2 * q_shunt_step * shunt_is * v_ratio")),
                "SHUNT-TERMS"),
        Variant("twin: renamed local", bb, in_function("_calc_pq_elements_and_add_on_ppc",
                lambda s: s.replace("scaling", "scal_fac").replace('tab["scal_fac"]', 'tab["scaling"]')), None),
    ]
