"""C25 - standard types are applied completely: table agreement and alias clauses.

Decided:
 * LIB-KEYS     every electrical key that occurs in a built-in standard-type library (dict literals of
                basic_line/line_dc/trafo/trafo3w_std_types) is consumed by the creator of that element
                (key reads of the tracked std-type mapping, as in C24); informational keys are listed
 * CHANGE-ITER  change_std_type applies every parameter of the type: it must iterate over the type's
                parameters, not over the columns the table happens to have
 * LOAD-ALIAS   load_std_type returns the library's own dict; no caller may mutate the returned value
                (item store, update, pop, del, setdefault, clear)
Not decided: 'behaves in calculations exactly like explicit parameters'.
"""
import ast

from ppsa import facts
from ppsa.astutil import dotted, norm, names_in
from ppsa.selftest import Variant, replace_once, in_function

ST = "pandapower.std_types"
INFORMATIONAL = {
    "line": {"q_mm2": "cross-section, informational", "voltage_rating": "informational rating class", "endtemp_degree": "consumed by the short-circuit module from the table only when set explicitly"},
    "line_dc": {"q_mm2": "informational", "voltage_rating": "informational", "c_nf_per_km": "DC lines have no capacitance column", "x_ohm_per_km": "DC lines have no reactance"},
    "trafo": {"trafo_characteristic_table": "legacy library flag; the table dependency is the per-element argument tap_dependency_table"},
    "trafo3w": {"trafo_characteristic_table": "legacy library flag; the table dependency is the per-element argument tap_dependency_table"},
}
LIBS = {"line": ("basic_line_std_types", "pandapower.create.line_create:create_line"),
        "line_dc": ("basic_line_dc_std_types", "pandapower.create.line_create:create_line_dc"),
        "trafo": ("basic_trafo_std_types", "pandapower.create.trafo_create:create_transformer"),
        "trafo3w": ("basic_trafo3w_std_types", "pandapower.create.trafo_create:create_transformer3w")}
MUTATORS = {"update", "pop", "popitem", "clear", "setdefault", "__setitem__", "__delitem__"}


def library_keys(ctx, fname):
    fi = ctx.repo.func(f"{ST}:{fname}")
    keys = {}
    for n in ast.walk(fi.node):
        if isinstance(n, ast.Dict):
            for k, v in zip(n.keys, n.values):
                if isinstance(k, ast.Constant) and isinstance(v, ast.Dict):
                    for kk in v.keys:
                        if isinstance(kk, ast.Constant) and isinstance(kk.value, str):
                            keys.setdefault(kk.value, k.value)
    if len(keys) < 5:
        ctx.fail(f"{fname}: library literal not recognised")
    return keys, fi


def run(ctx):
    ctx.assume("decides key coverage of the built-in libraries, the iteration structure of change_std_type and the absence of "
               "mutation through the alias returned by load_std_type")
    R = "LIB-KEYS"
    ctx.rule(R, "each key of the built-in standard-type library of an element is read by the element's creator (or is a listed "
                "informational key)")
    for el, (lib, creator) in LIBS.items():
        keys, fl = library_keys(ctx, lib)
        it, fr = facts.analyse(ctx.repo, creator, defaults=False, max_depth=3)
        read = {k for (m, k, f, n) in it.keyreads if m.startswith("std")}
        if not read:
            ctx.fail(f"{creator}: no std-type key reads recognised")
        for k, example in sorted(keys.items()):
            if k in INFORMATIONAL[el]:
                ctx.ob(R, f"{ST}::{lib}::{k}", True, f"informational key '{k}': {INFORMATIONAL[el][k]}", fl.loc(), nontrivial=False)
                continue
            ok = k in read or "*" in read
            ctx.ob(R, f"{ST}::{lib}::{k}", ok,
                   f"library key '{k}' (e.g. type '{example}') " + ("is read by" if ok else "is never read by") + f" {creator.split(':')[1]}", fl.loc())
    ctx.require_min(R, 30)

    R2 = "CHANGE-ITER"
    ctx.rule(R2, "change_std_type iterates over the parameters of the standard type (so that a parameter whose column does not "
                 "exist yet is applied), not over the existing table columns")
    fc = ctx.repo.func(f"{ST}:change_std_type")
    loops = [n for n in ast.walk(fc.node) if isinstance(n, ast.For)]
    tp = None
    for n in ast.walk(fc.node):
        if isinstance(n, ast.Assign) and isinstance(n.value, ast.Call) and dotted(n.value.func) == "load_std_type":
            tp = n.targets[0].id if isinstance(n.targets[0], ast.Name) else None
    ok = any(tp and tp in names_in(l.iter) for l in loops)
    bad = [l for l in loops if "columns" in ast.unparse(l.iter)]
    ctx.ob(R2, f"{ST}::change_std_type::iteration", ok and not bad,
           "iterates over the type's parameters" if ok and not bad else
           f"iterates over '{norm(bad[0].iter if bad else loops[0].iter, 40)}': a type parameter whose column does not exist yet "
           "(r0_ohm_per_km, alpha, ...) is silently skipped, while create_line from the same type sets it", fc.loc(bad[0] if bad else fc.node))

    R3 = "LOAD-ALIAS"
    ctx.rule(R3, "the dict returned by load_std_type is the library's own object: no function may mutate a value bound to the "
                 "result of load_std_type")
    n3 = 0
    for fi in ctx.repo.all_functions():
        names = set()
        for n in ast.walk(fi.node):
            if isinstance(n, ast.Assign) and isinstance(n.value, ast.Call) and (dotted(n.value.func) or "").endswith("load_std_type"):
                for t in n.targets:
                    if isinstance(t, ast.Name):
                        names.add(t.id)
        if not names:
            continue
        n3 += 1
        muts = []
        for n in ast.walk(fi.node):
            if isinstance(n, ast.Call) and isinstance(n.func, ast.Attribute) and n.func.attr in MUTATORS and isinstance(n.func.value, ast.Name) \
                    and n.func.value.id in names:
                muts.append(n)
            if isinstance(n, (ast.Assign, ast.AugAssign, ast.Delete)):
                tg = n.targets if isinstance(n, (ast.Assign, ast.Delete)) else [n.target]
                for t in tg:
                    if isinstance(t, ast.Subscript) and isinstance(t.value, ast.Name) and t.value.id in names:
                        muts.append(n)
        # a rebinding `x = dict(x)` / `.copy()` before the mutation makes it private
        private = any(isinstance(n, ast.Assign) and isinstance(n.targets[0], ast.Name) and n.targets[0].id in names and
                      isinstance(n.value, ast.Call) and (dotted(n.value.func) in ("dict", "copy.deepcopy", "copy.copy", "deepcopy")
                                                         or (isinstance(n.value.func, ast.Attribute) and n.value.func.attr == "copy"))
                      for n in ast.walk(fi.node))
        ok = not muts or private
        ctx.ob(R3, f"{fi.module.name}::{fi.qualname}::{'/'.join(sorted(names))}", ok,
               f"result of load_std_type ({', '.join(sorted(names))}) is only read" if ok else
               f"'{norm(muts[0], 60)}' mutates the library's own dict: every later element created from the type is affected", fi.loc(muts[0]) if muts else fi.loc())
    if n3 < 8:
        ctx.fail(f"LOAD-ALIAS: only {n3} callers of load_std_type found (confirmed: 10)")
    rule_apply_always(ctx)
    rule_copy_and_guard(ctx)

    from rules import C24
    RS = "STD-SIBLING"
    ctx.rule(RS, "a standard-type parameter is applied by the single and by the batch creator alike (sibling agreement of the consumed "
                 "key sets, shared with C24): a key dropped from one of them is a type parameter that is silently not applied there")
    known = {k["key"].split("::", 1)[1] for k in []}
    C24.rule_std_keys_siblings(ctx, RS)
    rule_fuse_curves(ctx)


def rule_fuse_curves(ctx):
    """Fuse.__init__: each curve of a fuse standard type is a pair x_<k> / t_<k>"""
    R = "FUSE-CURVE"
    ctx.rule(R, "Fuse.__init__ builds the characteristic from x_<k> and t_<k> of the same curve k, in the branch guarded by t_<k> != 0")
    fi = ctx.repo.func("pandapower.protection.protection_devices.fuse:Fuse.__init__")
    n = 0
    for node in ast.walk(fi.node):
        if isinstance(node, ast.If):
            for st in node.body:
                if isinstance(st, ast.Expr) and isinstance(st.value, ast.Call) and ast.unparse(st.value.func) == "self.create_characteristic":
                    keys = [a.slice.value for a in st.value.args if isinstance(a, ast.Subscript) and isinstance(a.slice, ast.Constant)]
                    guard = [c.slice.value for c in ast.walk(node.test) if isinstance(c, ast.Subscript) and isinstance(c.slice, ast.Constant)]
                    n += 1
                    sfx = {k.split("_", 1)[1] for k in keys}
                    ok = len(keys) == 2 and keys[0].startswith("x_") and keys[1].startswith("t_") and len(sfx) == 1 and \
                        all(g.split("_", 1)[1] in sfx for g in guard)
                    ctx.ob(R, f"pandapower.protection.protection_devices.fuse::Fuse.__init__::curve:{'/'.join(keys)}", ok,
                           f"curve from {keys} under guard on {guard}", fi.loc(st))
    if n < 3:
        ctx.fail(f"Fuse.__init__: only {n} create_characteristic calls found (confirmed: 3)")


def _key_txt(node):
    """text of a literal / f-string dictionary key, None for anything else"""
    if isinstance(node, ast.Constant) and isinstance(node.value, str):
        return repr(node.value)
    if isinstance(node, ast.JoinedStr):
        return ast.unparse(node)
    return None


def rule_copy_and_guard(ctx):
    R = "COPY-FORWARD"
    ctx.rule(R, "create_std_types and copy_std_types hand every type, and their own `overwrite` switch, on to create_std_type: the "
                "call is not skipped for names that exist in the target, and `overwrite` is passed as given")
    for fn_name in ("create_std_types", "copy_std_types"):
        fi = ctx.repo.func(f"pandapower.std_types:{fn_name}")
        loops = [n for n in fi.node.body if isinstance(n, ast.For)]
        calls = [c for lp in loops for c in ast.walk(lp) if isinstance(c, ast.Call) and dotted(c.func) == "create_std_type"]
        if not calls:
            ctx.fail(f"{fn_name}: loop calling create_std_type not found")
        c = calls[0]
        kw = next((k.value for k in c.keywords if k.arg == "overwrite"), c.args[4] if len(c.args) > 4 else None)
        fwd = isinstance(kw, ast.Name) and kw.id == "overwrite"
        skips = [x for lp in loops for x in ast.walk(lp) if isinstance(x, (ast.Continue, ast.Break))]
        direct = any(isinstance(st, ast.Expr) and st.value is c for lp in loops for st in lp.body)
        ok = fwd and not skips and direct
        ctx.ob(R, f"pandapower.std_types::{fn_name}::forward", ok,
               "every type is passed to create_std_type with overwrite=overwrite" if ok else
               (f"create_std_type is called with overwrite={ast.unparse(kw) if kw is not None else '<default True>'}" if not fwd else
                "the loop skips some types before create_std_type is reached") +
               ": whether an existing type of the same name is replaced no longer follows the caller's switch, so a copied type can "
               "come back from load_std_type with the old data", fi.loc(c))
    R2 = "GUARD-KEY"
    ctx.rule(R2, "in the transformer creators, a value taken from `entries` under a membership test `K in entries` is read with the "
                 "tested key K (the tap-changer loop formats its keys with the loop variable: a literal key of the first tap changer "
                 "inside the loop gives the second tap changer the first one's neutral position)")
    n = 0
    m = ctx.repo.module("pandapower.create.trafo_create")
    for fi in m.functions.values():
        for lp in [x for x in ast.walk(fi.node) if isinstance(x, ast.For)]:
            loopvars = names_in(lp.target)
            for br in [x for x in ast.walk(lp) if isinstance(x, ast.If)]:
                tested = set()
                for cmp_ in ast.walk(br.test):
                    if isinstance(cmp_, ast.Compare) and len(cmp_.ops) == 1 and isinstance(cmp_.ops[0], ast.In) and \
                            isinstance(cmp_.comparators[0], ast.Name) and _key_txt(cmp_.left) and names_in(cmp_.left) & loopvars:
                        tested.add((cmp_.comparators[0].id, _key_txt(cmp_.left)))
                if not tested:
                    continue
                for st in br.body:
                    for sub in ast.walk(st):
                        if isinstance(sub, ast.Subscript) and isinstance(sub.ctx, ast.Load) and isinstance(sub.value, ast.Name) and \
                                sub.value.id in {d for d, _ in tested} and _key_txt(sub.slice):
                            n += 1
                            key = _key_txt(sub.slice)
                            ok = (sub.value.id, key) in tested or bool(names_in(sub.slice) & loopvars)
                            ctx.ob(R2, f"{m.name}::{fi.qualname}::{sub.value.id}[{key}]", ok,
                                   f"{sub.value.id}[{key}] is read under its own membership test" if ok else
                                   f"`{norm(st, 80)}` reads {sub.value.id}[{key}] under the test for {sorted(k for _, k in tested)}: the "
                                   "key does not follow the loop variable, every pass of the loop reads the same entry", fi.loc(sub))
    if n < 1:
        ctx.fail("GUARD-KEY: no guarded read of `entries` found in the tap-changer loops of trafo_create (confirmed: 1+)")


def rule_apply_always(ctx):
    """three more structural clauses of 'applied completely'"""
    # (1) change_std_type has no shortcut that skips the application (the library entry or the element may have been edited since)
    R = "CHANGE-ALWAYS"
    ctx.rule(R, "change_std_type applies the type's parameters on every call: no early return (e.g. 'element already has this type') "
                "precedes the application")
    fi = ctx.repo.func("pandapower.std_types:change_std_type")
    rets = [n for n in ast.walk(fi.node) if isinstance(n, ast.Return)]
    loops = [n for n in fi.node.body if isinstance(n, ast.For)]
    early = [r for r in rets if loops and r.lineno < loops[0].lineno]
    ctx.ob(R, "pandapower.std_types::change_std_type::no-early-return", not early and bool(loops),
           "the parameters are applied on every call" if not early and loops else
           "change_std_type returns before applying the parameters on some path: after the library entry was overwritten "
           "(create_std_type(overwrite=True)) or the element edited by hand, the element keeps stale values", fi.loc(early[0]) if early else fi.loc())
    # (2) creating or overwriting a type replaces the library entry: the stored dict is never merged into in place
    R2 = "TYPE-REPLACED"
    ctx.rule(R2, "create_std_type stores the given data as the library entry (library[name] = data / library.update({name: data})); an "
                 "existing entry is never updated in place (stale optional parameters of the old definition would survive)")
    fc = ctx.repo.func("pandapower.std_types:create_std_type")
    bad = None
    good = False
    for n in ast.walk(fc.node):
        if isinstance(n, ast.Call) and isinstance(n.func, ast.Attribute) and n.func.attr in ("update", "setdefault"):
            recv = n.func.value
            # library[name].update(..) / library.setdefault(name, ..).update(..) / library.get(name).update(..)
            if isinstance(recv, (ast.Subscript, ast.Call)) and "library" in ast.unparse(recv):
                bad = n
            if isinstance(recv, ast.Name) and recv.id == "library" and n.func.attr == "update" and n.args and isinstance(n.args[0], ast.Dict):
                good = True
        if isinstance(n, ast.Assign) and isinstance(n.targets[0], ast.Subscript) and ast.unparse(n.targets[0].value) == "library":
            good = True
    ctx.ob(R2, "pandapower.std_types::create_std_type::entry-replaced", good and bad is None,
           "the library entry is replaced by the given data" if good and bad is None else
           f"`{ast.unparse(bad) if bad is not None else 'no replacing store'}`: an existing library entry is merged into instead of replaced", fc.loc(bad) if bad is not None else fc.loc())
    # (3) batch creation from a list of types: optional parameters are applied per line if ANY of the listed types defines them
    R3 = "LIST-OPTIONAL"
    ctx.rule(R3, "create_lines with one type per line sets an optional (zero-sequence, alpha) column when any of the listed types defines "
                 "it and reads it per line with .get(param, nan): a line keeps every parameter its own type defines")
    fl = ctx.repo.func("pandapower.create.line_create:create_lines")
    n3 = 0
    for n in ast.walk(fl.node):
        if isinstance(n, ast.If):
            t = n.test
            calls = [c for c in ast.walk(t) if isinstance(c, ast.Call) and isinstance(c.func, ast.Name) and c.func.id in ("any", "all")
                     and c.args and isinstance(c.args[0], ast.GeneratorExp) and "lineparam" in ast.unparse(c.args[0])]
            for c in calls:
                n3 += 1
                tolerant = all(".get(" in ast.unparse(st.value) for st in n.body if isinstance(st, ast.Assign))
                ok = c.func.id == "any" and tolerant
                ctx.ob(R3, f"pandapower.create.line_create::create_lines::{ast.unparse(c.args[0].elt)[:40]}", ok,
                       "optional parameter applied when any listed type defines it, read per line with .get" if ok else
                       f"`{ast.unparse(t)[:80]}`: with a mixed list of types the lines whose type defines the parameter lose it", fl.loc(n))
    if n3 < 2:
        ctx.fail(f"create_lines: only {n3} optional-parameter guards of the list branch found (confirmed: 2)")


def variants_r5(V):
    st = "pandapower/std_types.py"
    tc = "pandapower/create/trafo_create.py"
    return [
        V("copy keeps existing types", st, in_function("copy_std_types", lambda s: s.replace("        create_std_type(to_net, typdata, name, element=element, overwrite=overwrite)\n", "        if name in to_net.std_types[element] and overwrite:\n            continue\n        create_std_type(to_net, typdata, name, element=element)\n", 1)), "copy_std_types::forward"),
        V("second tap changer starts at the first one's neutral", tc, in_function("create_transformer", replace_once('entries[f"tap{s}_pos"] = entries[f"tap{s}_neutral"]', 'entries[f"tap{s}_pos"] = entries["tap_neutral"]')), "GUARD-KEY"),
    ]


def variants(repo):
    st = "pandapower/std_types.py"
    lc = "pandapower/create/line_create.py"
    tc = "pandapower/create/trafo_create.py"
    V = Variant
    _extra = [
        Variant("change_std_type skips elements that already have the type", st, in_function("change_std_type", replace_once("    for column in table.columns:", '    if table.at[eid, "std_type"] == name:\n        return\n    for column in table.columns:')), "CHANGE-ALWAYS"),
        Variant("existing type merged in place", st, in_function("create_std_type", replace_once("library.update({name: data})", "library.setdefault(name, data).update(data)")), "TYPE-REPLACED"),
        Variant("optional parameters only if all listed types define them", lc, in_function("create_lines", replace_once("if any(param in line_param_dict for line_param_dict in lineparam):", "if all(param in line_param_dict for line_param_dict in lineparam):")), "LIST-OPTIONAL"),
    ]
    return _extra + [
        V("creator mutates library dict", lc, in_function("create_line", replace_once('    lineparam = load_std_type(net, std_type, "line")\n', '    lineparam = load_std_type(net, std_type, "line")\n    lineparam["max_i_ka"] = lineparam["max_i_ka"] * df\n')), "LOAD-ALIAS"),
        V("fuse total curve built with the minimum times", "pandapower/protection/protection_devices/fuse.py", replace_once('self.create_characteristic(net, fuse_data["x_total"], fuse_data["t_total"])', 'self.create_characteristic(net, fuse_data["x_total"], fuse_data["t_min"])'), "FUSE-CURVE"),
        V("creator ignores g", lc, in_function("create_line", lambda s: s.replace('entries["g_us_per_km"] = lineparam["g_us_per_km"] if "g_us_per_km" in lineparam else 0.0', 'entries["g_us_per_km"] = 0.0', 1)), "STD-SIBLING"),
        V("trafo creator ignores pfe", tc, in_function("create_transformer", replace_once('        "pfe_kw": ti["pfe_kw"],\n', '        "pfe_kw": 0.,\n')), "basic_trafo_std_types::pfe_kw"),
        V("twin: private copy then mutate", lc, in_function("create_line", replace_once('    lineparam = load_std_type(net, std_type, "line")\n', '    lineparam = load_std_type(net, std_type, "line")\n    lineparam = dict(lineparam)\n    lineparam["max_i_ka"] = lineparam["max_i_ka"] * 1.0\n')), None),
    ] + variants_r5(Variant)
