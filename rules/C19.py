"""C19 - state estimation: API existence clause.

Decides: every attribute chain rooted at numpy/scipy that the estimation package (and, in
thorough tier, every module it imports transitively inside pandapower) evaluates exists in the
*installed* library's exported namespace, read from its .pyi/.py files as text.  A missing name
is an AttributeError on the estimation path for every input, so "state estimation succeeds" is
false.  Does not decide the estimate itself.
"""
import ast

from ppsa import stubs
from ppsa.astutil import dotted, norm
from ppsa.selftest import Variant, replace_once

ROOTS = ("numpy", "scipy")


def _import_roots(mod):
    """local name -> dotted third-party module it is bound to."""
    out = {}
    for local, (tmod, attr) in mod.imports.items():
        root = tmod.split(".")[0]
        if root in ROOTS:
            out[local] = (tmod, attr)
    return out


def _enclosing_functions(mod):
    spans = []
    for fi in mod.functions.values():
        spans.append((fi.node.lineno, fi.node.end_lineno, fi.qualname))
    return spans


def _fn_at(spans, lineno):
    best = None
    for a, b, q in spans:
        if a <= lineno <= b and (best is None or a >= best[0]):
            best = (a, q)
    return best[1] if best else "<module>"


def scan_module(ctx, mod, rule):
    roots = _import_roots(mod)
    if not roots:
        return 0
    spans = _enclosing_functions(mod)
    n = 0
    seen = set()
    # maximal attribute chains only
    parents = {}
    for p in ast.walk(mod.tree):
        for c in ast.iter_child_nodes(p):
            parents[c] = p
    for node in ast.walk(mod.tree):
        if not isinstance(node, ast.Attribute):
            continue
        if isinstance(parents.get(node), ast.Attribute) and parents[node].value is node:
            continue  # not maximal
        d = dotted(node)
        if d is None:
            continue
        parts = d.split(".")
        if parts[0] not in roots:
            continue
        # a local variable shadowing the import inside a function is not tracked: imports of
        # numpy/scipy are never shadowed in this package (checked by the name being Load ctx)
        tmod, attr = roots[parts[0]]
        chain = ([attr] if attr else []) + parts[1:]
        verdict, detail = stubs.resolve_chain(tmod, chain)
        fn = _fn_at(spans, node.lineno)
        key = f"{mod.name}::{fn}::{d}"
        if key in seen:
            continue
        seen.add(key)
        n += 1
        if verdict == "unknown":
            ctx.count("api_chains_unknown_namespace")
            continue
        ctx.ob(rule, key, verdict == "ok",
               f"{d} -> {detail}" if verdict != "ok" else f"{d} resolves ({detail})",
               f"{mod.relpath}:{node.lineno}")
    # from-imports of names
    for local, (tmod, attr) in roots.items():
        if attr is None:
            continue
        verdict, detail = stubs.resolve_chain(tmod, [attr])
        if verdict == "unknown":
            continue
        key = f"{mod.name}::<import>::{tmod}.{attr}"
        n += 1
        ctx.ob(rule, key, verdict == "ok", f"from {tmod} import {attr}: {detail}", mod.relpath)
    return n


def estimation_closure(repo, deep):
    start = [m for m in repo.module_names() if m.startswith("pandapower.estimation")]
    if not deep:
        return start
    seen = set(start)
    work = list(start)
    while work:
        mn = work.pop()
        m = repo.module(mn)
        for local, (tmod, attr) in m.imports.items():
            for cand in ((tmod + "." + attr) if attr else None, tmod):
                if cand and repo.has_module(cand) and cand not in seen:
                    seen.add(cand)
                    work.append(cand)
                    break
    return sorted(seen)


def run(ctx):
    rule = "API"
    ctx.rule(rule, "every attribute chain rooted at an imported numpy/scipy module that the state-"
                   "estimation code evaluates must exist in the installed library's exported namespace "
                   "(names read from the installed .pyi/.py files as text)")
    ctx.assume("numpy/scipy namespaces are read from the stub/source files installed in /venv; names "
               "created dynamically at import time are invisible (such namespaces are skipped as 'unknown')")
    ctx.assume("decides API existence on the estimation path only, not the numerical estimate")
    mods = estimation_closure(ctx.repo, deep=(ctx.tier == "thorough"))
    total = 0
    for mn in mods:
        total += scan_module(ctx, ctx.repo.module(mn), rule)
    ctx.count("modules_scanned", len(mods))
    ctx.require_min(rule, 150)
    # positive control: the resolver must know a name that exists and reject one that does not
    v1, _ = stubs.resolve_chain("numpy", ["linalg", "LinAlgError"])
    v2, _ = stubs.resolve_chain("numpy", ["definitely_not_a_numpy_name"])
    v3, _ = stubs.resolve_chain("scipy", ["sparse", "linalg", "spsolve"])
    if (v1, v2) != ("ok", "missing") or v3 == "missing":
        ctx.fail(f"stub resolver control failed: {v1} {v2} {v3}")


def variants(repo):
    p = "pandapower/estimation/algorithm/matrix_base.py"
    p2 = "pandapower/estimation/algorithm/base.py"
    return [
        Variant("isin->in1d", p, replace_once("np.isin(", "np.in1d("), "np.in1d"),
        Variant("LinAlgError path", p2, replace_once("np.linalg.LinAlgError", "np.linalg.linalg.LinAlgError"),
                "np.linalg.linalg.LinAlgError"),
        Variant("np.float_ removed alias", p2, replace_once("np.abs(", "np.float_("), "np.float_"),
        Variant("twin: alias import", p, replace_once("np.isin(", "np.isin (", ), None),
    ]
