"""C19 - state estimation: API existence clause + measurement-order agreement.

Decides: every attribute chain rooted at numpy/scipy that the estimation package (and, in
thorough tier, every module it imports transitively inside pandapower) evaluates exists in the
*installed* library's exported namespace, read from its .pyi/.py files as text.  A missing name
is an AttributeError on the estimation path for every input, so "state estimation succeeds" is
false.  Does not decide the estimate itself.
"""
import ast
import re

from ppsa import stubs
from ppsa.astutil import dotted, norm
from ppsa.selftest import Variant, replace_once, in_function

ROOTS = ("numpy", "scipy")


def _import_roots(mod):
    """local name -> dotted third-party module it is bound to."""
    out = {}
    for local, (tmod, attr) in mod.imports.items():
        root = tmod.split(".")[0]
        if root in ROOTS:
            out[local] = (tmod, attr)
    return out


def _enclosing_functions(mod):
    spans = []
    for fi in mod.functions.values():
        spans.append((fi.node.lineno, fi.node.end_lineno, fi.qualname))
    return spans


def _fn_at(spans, lineno):
    best = None
    for a, b, q in spans:
        if a <= lineno <= b and (best is None or a >= best[0]):
            best = (a, q)
    return best[1] if best else "<module>"


def scan_module(ctx, mod, rule):
    roots = _import_roots(mod)
    if not roots:
        return 0
    spans = _enclosing_functions(mod)
    n = 0
    seen = set()
    # maximal attribute chains only
    parents = {}
    for p in ast.walk(mod.tree):
        for c in ast.iter_child_nodes(p):
            parents[c] = p
    for node in ast.walk(mod.tree):
        if not isinstance(node, ast.Attribute):
            continue
        if isinstance(parents.get(node), ast.Attribute) and parents[node].value is node:
            continue  # not maximal
        d = dotted(node)
        if d is None:
            continue
        parts = d.split(".")
        if parts[0] not in roots:
            continue
        # a local variable shadowing the import inside a function is not tracked: imports of
        # numpy/scipy are never shadowed in this package (checked by the name being Load ctx)
        tmod, attr = roots[parts[0]]
        chain = ([attr] if attr else []) + parts[1:]
        verdict, detail = stubs.resolve_chain(tmod, chain)
        fn = _fn_at(spans, node.lineno)
        key = f"{mod.name}::{fn}::{d}"
        if key in seen:
            continue
        seen.add(key)
        n += 1
        if verdict == "unknown":
            ctx.count("api_chains_unknown_namespace")
            continue
        ctx.ob(rule, key, verdict == "ok",
               f"{d} -> {detail}" if verdict != "ok" else f"{d} resolves ({detail})",
               f"{mod.relpath}:{node.lineno}")
    # from-imports of names
    for local, (tmod, attr) in roots.items():
        if attr is None:
            continue
        verdict, detail = stubs.resolve_chain(tmod, [attr])
        if verdict == "unknown":
            continue
        key = f"{mod.name}::<import>::{tmod}.{attr}"
        n += 1
        ctx.ob(rule, key, verdict == "ok", f"from {tmod} import {attr}: {detail}", mod.relpath)
    return n


def estimation_closure(repo, deep):
    start = [m for m in repo.module_names() if m.startswith("pandapower.estimation")]
    if not deep:
        return start
    seen = set(start)
    work = list(start)
    while work:
        mn = work.pop()
        m = repo.module(mn)
        for local, (tmod, attr) in m.imports.items():
            for cand in ((tmod + "." + attr) if attr else None, tmod):
                if cand and repo.has_module(cand) and cand not in seen:
                    seen.add(cand)
                    work.append(cand)
                    break
    return sorted(seen)


# ---------------------------------------------------------------------------------------------
# MEAS-ORDER
PPC = "pandapower.estimation.ppc_conversion"
MB = "pandapower.estimation.algorithm.matrix_base"
KIND_OF_COL = {"P": "pbus", "Q": "qbus", "P_FROM": "pfrom", "Q_FROM": "qfrom", "P_TO": "pto",
               "Q_TO": "qto", "VM": "vm", "VA": "va", "IM_FROM": "ifrom", "IM_TO": "ito"}
TABLE_OF_KIND = {"pbus": "bus", "qbus": "bus", "vm": "bus", "va": "bus"}
# h(x): kind -> (numpy part function, quantity family, matrix attribute that must appear in the
# definition of the quantity, bus selector that must appear)
HX = {"pbus": ("real", "Ybus", None), "qbus": ("imag", "Ybus", None),
      "pfrom": ("real", "Yf", "f_bus"), "qfrom": ("imag", "Yf", "f_bus"),
      "pto": ("real", "Yt", "t_bus"), "qto": ("imag", "Yt", "t_bus"),
      "vm": ("abs", None, None), "va": ("angle", None, None),
      "ifrom": ("abs", "Yf", None), "ito": ("abs", "Yt", None)}


def _col_kind(node):
    """`bus_cols + P_STD` / `branch_cols + P_IDX` -> (offset name, kind)."""
    if isinstance(node, ast.BinOp) and isinstance(node.op, ast.Add) and \
            isinstance(node.left, ast.Name) and isinstance(node.right, ast.Name):
        base = re.sub(r"_(IDX|STD)$", "", node.right.id)
        return node.left.id, KIND_OF_COL.get(base)
    return None, None


def _ppci_pick(node):
    """ppci["bus"][mask, bus_cols + P] -> (table, mask name, cols name, kind)."""
    if not (isinstance(node, ast.Subscript) and isinstance(node.value, ast.Subscript)):
        return None
    t = node.value.slice
    if not (isinstance(t, ast.Constant) and isinstance(node.slice, ast.Tuple) and len(node.slice.elts) == 2):
        return None
    m, c = node.slice.elts
    cols, kind = _col_kind(c)
    mask = m.id if isinstance(m, ast.Name) else None
    return t.value, mask, cols, kind


def _concat_elems(value):
    """np.concatenate((a, b, ...))[.real.astype(..)] -> [a, b, ...]"""
    for n in ast.walk(value):
        if isinstance(n, ast.Call) and dotted(n.func) in ("np.concatenate", "numpy.concatenate") and n.args \
                and isinstance(n.args[0], ast.Tuple):
            return n.args[0].elts
    return None


def _assigns(fn):
    out = {}
    for st in ast.walk(fn):
        if isinstance(st, ast.Assign) and len(st.targets) == 1 and isinstance(st.targets[0], ast.Name):
            out.setdefault(st.targets[0].id, []).append(st)
    return out


def rule_meas_order(ctx):
    rule = "MEAS-ORDER"
    ctx.rule(rule, "z, r_cov, pp_meas_indices, imag_meas and the non-NaN mask dictionary in "
                   "_build_measurement_vectors, h(x) in BaseAlgebra.create_hx and the Jacobian rows in "
                   "create_hx_jacobian list the same ten measurement kinds in the same order; every "
                   "block is selected with the mask of its own kind from the table of its kind, "
                   "P blocks take the real and Q blocks the imaginary part of the from/to/bus power")
    repo = ctx.repo
    fb = repo.try_func(f"{PPC}:_build_measurement_vectors")
    if fb is None:
        ctx.fail("anchor vanished: ppc_conversion._build_measurement_vectors")
        return
    where = lambda fi, n: f"{fi.module.relpath}:{n.lineno}"
    asg = _assigns(fb.node)
    # 1. mask definitions: name -> (table, kind)
    mask_def = {}
    for name, sts in asg.items():
        for st in sts:
            v = st.value
            if isinstance(v, ast.UnaryOp) and isinstance(v.op, ast.Invert) and isinstance(v.operand, ast.Call) \
                    and dotted(v.operand.func) in ("np.isnan", "numpy.isnan") and v.operand.args:
                a = v.operand.args[0]
                if isinstance(a, ast.Subscript) and isinstance(a.value, ast.Subscript) and \
                        isinstance(a.slice, ast.Tuple) and len(a.slice.elts) == 2:
                    cols, kind = _col_kind(a.slice.elts[1])
                    t = a.value.slice.value if isinstance(a.value.slice, ast.Constant) else None
                    mask_def[name] = (t, cols, kind)
    for name, (t, cols, kind) in sorted(mask_def.items()):
        ok = kind is not None and t == TABLE_OF_KIND.get(kind, "branch") and cols == f"{t}_cols"
        ctx.ob(rule, f"{PPC}::_build_measurement_vectors::mask:{name}", ok,
               f"{name} = ~isnan(ppci[{t!r}][:, {cols} + <{kind}>])", fb.module.relpath)
    # 2. the sibling vectors
    order = None
    for vec in ("z", "pp_meas_indices", "r_cov"):
        sts = [s for s in asg.get(vec, []) if _concat_elems(s.value) and
               len(_concat_elems(s.value)) >= 10 and _ppci_pick(_concat_elems(s.value)[0])]
        if not sts:
            ctx.fail(f"anchor vanished: {vec} = np.concatenate((...ten ppci picks...))")
            continue
        picks = [_ppci_pick(e) for e in _concat_elems(sts[0].value)]
        kinds = []
        for i, p in enumerate(picks):
            key = f"{PPC}::_build_measurement_vectors::{vec}[{i}]"
            if p is None:
                ctx.ob(rule, key, False, "block is not a ppci[table][mask, cols + COL] pick", where(fb, sts[0]))
                kinds.append(None)
                continue
            t, mask, cols, kind = p
            md = mask_def.get(mask)
            ok = kind is not None and md is not None and md == (t, cols, kind)
            ctx.ob(rule, key, ok, f"ppci[{t!r}][{mask}, {cols} + <{kind}>]; mask defined on {md}",
                   where(fb, sts[0]))
            kinds.append(kind)
        if order is None:
            order = kinds
        else:
            ctx.ob(rule, f"{PPC}::_build_measurement_vectors::{vec}:order", kinds == order,
                   f"{vec} blocks {kinds} vs z blocks {order}", where(fb, sts[0]))
    if not order or None in order:
        return
    # imag_meas: np.zeros(sum(mask)) / np.ones(sum(mask)) in the same order; ones exactly for currents
    for st in asg.get("imag_meas", []):
        el = _concat_elems(st.value)
        if not el or len(el) < 10:
            continue
        seq = []
        for e in el:
            fn = dotted(e.func) if isinstance(e, ast.Call) else None
            inner = e.args[0] if isinstance(e, ast.Call) and e.args else None
            m = inner.args[0].id if isinstance(inner, ast.Call) and inner.args and \
                isinstance(inner.args[0], ast.Name) else None
            seq.append((fn, mask_def.get(m, (None, None, None))[2]))
        ks = [k for _, k in seq]
        ctx.ob(rule, f"{PPC}::_build_measurement_vectors::imag_meas:order", ks == order,
               f"imag_meas blocks {ks} vs z blocks {order}", where(fb, st))
        cur = [k for f, k in seq if f and f.endswith("ones")]
        ctx.ob(rule, f"{PPC}::_build_measurement_vectors::imag_meas:current-only",
               cur == [k for k in order if k.startswith("i")], f"ones() blocks: {cur}", where(fb, st))
        break
    else:
        ctx.fail("anchor vanished: imag_meas = np.concatenate(...)")
    # 3. the mask dictionary
    md_keys = None
    for st in asg.get("meas_mask", []):
        if isinstance(st.value, ast.Dict):
            md_keys = []
            for k, v in zip(st.value.keys, st.value.values):
                kk = k.value if isinstance(k, ast.Constant) else None
                m = v.args[0].id if isinstance(v, ast.Call) and v.args and isinstance(v.args[0], ast.Name) \
                    and dotted(v.func) in ("np.flatnonzero", "numpy.flatnonzero") else None
                got = mask_def.get(m, (None, None, None))[2]
                ctx.ob(rule, f"{PPC}::_build_measurement_vectors::meas_mask[{kk}]", got == kk,
                       f"meas_mask[{kk!r}] = flatnonzero({m}) which is the mask of <{got}>", where(fb, st))
                md_keys.append(kk)
    if md_keys is None:
        ctx.fail("anchor vanished: meas_mask = {...}")
    else:
        ctx.ob(rule, f"{PPC}::_build_measurement_vectors::meas_mask:keys", set(md_keys) == set(order),
               f"keys {md_keys}", fb.module.relpath)
    # 4. h(x)
    fh = repo.try_func(f"{MB}:BaseAlgebra.create_hx")
    fj = repo.try_func(f"{MB}:BaseAlgebra.create_hx_jacobian")
    if fh is None or fj is None:
        ctx.fail("anchor vanished: BaseAlgebra.create_hx / create_hx_jacobian")
        return
    hasg = _assigns(fh.node)

    def names_in(n):
        return {x.id for x in ast.walk(n) if isinstance(x, ast.Name)} | \
               {x.attr for x in ast.walk(n) if isinstance(x, ast.Attribute)}

    def closure(name, depth=0):
        out = set()
        for st in hasg.get(name, []):
            ns = names_in(st.value)
            out |= ns
            if depth < 3:
                for x in ns:
                    if x != name:
                        out |= closure(x, depth + 1)
        return out

    comp_kind = {}
    for name, sts in hasg.items():
        for st in sts:
            v = st.value
            if isinstance(v, ast.Subscript) and isinstance(v.slice, ast.Subscript) and \
                    isinstance(v.slice.value, ast.Name) and v.slice.value.id == "meas_mask" and \
                    isinstance(v.slice.slice, ast.Constant) and isinstance(v.value, ast.Call):
                k = v.slice.slice.value
                if k not in HX:
                    continue
                part = dotted(v.value.func).split(".")[-1]
                arg = v.value.args[0] if v.value.args else None
                src = names_in(arg) | set().union(*[closure(x) for x in names_in(arg)]) if arg is not None else set()
                epart, mat, sel = HX[k]
                ok = part == epart and (mat is None or mat in src) and (sel is None or sel in src)
                others = {"Ybus", "Yf", "Yt"} - ({mat} if mat else set())
                if mat is not None and src & others:
                    ok = False
                ctx.ob(rule, f"{MB}::BaseAlgebra.create_hx::{k}", ok,
                       f"{name} = {part}(..)[meas_mask[{k!r}]] built from {sorted(src & {'Ybus','Yf','Yt','f_bus','t_bus','V'})}; "
                       f"expected {epart} of a quantity on {mat or 'V'}" + (f" at {sel}" if sel else ""),
                       where(fh, st))
                comp_kind[name] = k
    hx_order = None
    for st in hasg.get("hx", []):
        v = st.value
        if isinstance(v, ast.Subscript) and dotted(v.value) in ("np.r_", "numpy.r_") and isinstance(v.slice, ast.Tuple):
            ks = [comp_kind.get(e.id) if isinstance(e, ast.Name) else None for e in v.slice.elts]
            if len(ks) >= 10:
                hx_order = ks
                ctx.ob(rule, f"{MB}::BaseAlgebra.create_hx::hx:order", ks == order,
                       f"hx blocks {ks} vs z blocks {order}", where(fh, st))
    if hx_order is None:
        ctx.fail("anchor vanished: hx = np.r_[ten blocks]")
    # 5. Jacobian: order of the vstack'ed row blocks
    jorder = []
    SIDE = {"_dSbus_dv": ("bus", 2), "_dSbr_dv": (None, 2), "_dVmbus_dV": ("vm", 1), "_dVabus_dV": ("va", 1),
            "_dImbr_dV": (None, 1)}
    produced = {}

    def mask_keys(call):
        out = []
        for a in call.args:
            if isinstance(a, ast.Subscript) and isinstance(a.value, ast.Name) and a.value.id == "meas_mask" \
                    and isinstance(a.slice, ast.Constant):
                out.append(a.slice.value)
        return out

    for st in sorted((x for x in ast.walk(fj.node) if isinstance(x, ast.Assign)), key=lambda x: x.lineno):
        if not isinstance(st.value, ast.Call):
            continue
        fn = dotted(st.value.func) or ""
        meth = fn.split(".")[-1]
        if fn.startswith("self.") and meth in SIDE:
            keys = mask_keys(st.value)
            if any(k not in HX for k in keys):
                continue   # af-wls balance rows, not part of the ten blocks
            side = next((a.value for a in st.value.args if isinstance(a, ast.Constant) and a.value in ("from", "to")), None)
            tg = st.targets[0]
            names = [e.id for e in tg.elts] if isinstance(tg, ast.Tuple) else [tg.id]
            if meth == "_dSbus_dv":
                exp = ["pbus", "qbus"]
            elif meth == "_dSbr_dv":
                exp = [f"p{side}", f"q{side}"]
            elif meth == "_dImbr_dV":
                exp = [f"i{side}"]
            else:
                exp = [SIDE[meth][0]]
            ctx.ob(rule, f"{MB}::BaseAlgebra.create_hx_jacobian::{meth}:{side or ''}", keys == exp and len(names) == len(exp),
                   f"{','.join(names)} = {meth}(V, {side!r}, masks {keys}); expected masks {exp}", where(fj, st))
            for n_, k in zip(names, keys):
                produced[n_] = k
        elif fn in ("vstack",) and isinstance(st.targets[0], ast.Name) and st.targets[0].id == "jac" and \
                st.value.args and isinstance(st.value.args[0], ast.Tuple):
            el = st.value.args[0].elts
            if el and isinstance(el[0], ast.Name) and el[0].id == "jac":
                ks = [produced.get(e.id) for e in el[1:] if isinstance(e, ast.Name)]
                if all(k in HX for k in ks):
                    jorder += ks
    ctx.ob(rule, f"{MB}::BaseAlgebra.create_hx_jacobian::jac:order", jorder == order,
           f"Jacobian row blocks {jorder} vs z blocks {order}", fj.module.relpath)
    ctx.require_min(rule, 45)


def rule_merge_and_dead(ctx):
    from rules import _lints
    R = "MEAS-MERGE"
    ctx.rule(R, "redundant measurements of one quantity are merged by the weighted average helper _calculate_weighted_measurements before "
                "anything is summed or stored: every measurement-type loop of _add_measurements_to_bus and the side loop of "
                "_add_measurements_to_branch calls it, and no raw 'value' column is summed per group")
    for fq, minimum in ((f"{PPC}:_add_measurements_to_bus", 2), (f"{PPC}:_add_measurements_to_branch", 1)):
        fi = ctx.repo.try_func(fq)
        if fi is None:
            ctx.fail(f"anchor vanished: {fq}")
            continue
        loops = [n for n in fi.node.body if isinstance(n, ast.For)]
        k = 0
        for lp in loops:
            stores = [x for x in ast.walk(lp) if isinstance(x, ast.Assign) and isinstance(x.targets[0], ast.Subscript) and
                      ast.unparse(x.targets[0].value) in ("bus_append", "branch_append")]
            if not stores:
                continue
            k += 1
            called = any(isinstance(c, ast.Call) and dotted(c.func) == "_calculate_weighted_measurements" for c in ast.walk(lp))
            raw = [c for c in ast.walk(lp) if isinstance(c, ast.Call) and isinstance(c.func, ast.Attribute) and c.func.attr in ("sum", "mean")
                   and "groupby" in ast.unparse(c.func.value) and ("'value'" in ast.unparse(c.func.value).replace('"', "'") or "std_dev" in ast.unparse(c.func.value))]
            ok = called and not raw
            ctx.ob(R, f"{PPC}::{fi.qualname}::loop-{norm(lp.iter, 30)}", ok,
                   "duplicates merged by the weighted average" if ok else
                   ("the loop stores measurements without calling _calculate_weighted_measurements" if not called else
                    f"`{norm(raw[0], 80)}` sums raw measurement values per group: two measurements of the same quantity count twice"), fi.loc(lp))
        if k < minimum:
            ctx.fail(f"{fq}: only {k} measurement loops found (confirmed: {minimum})")
    RI = "I-BASE"
    ctx.rule(RI, "current measurements are converted to per unit with the base current of the bus they are taken at: base_i_ka = baseMVA / "
                 "vn_kv of that bus (net.bus.vn_kv), the base of the ppci - not the rated voltage of the measured transformer winding")
    fm = ctx.repo.try_func(f"{PPC}:_add_measurements_to_ppci")
    if fm is None:
        ctx.fail("anchor vanished: _add_measurements_to_ppci")
    else:
        st = next((x for x in ast.walk(fm.node) if isinstance(x, ast.Assign) and ast.unparse(x.targets[0]) == "base_i_ka"), None)
        side = next((x for x in ast.walk(fm.node) if isinstance(x, ast.Assign) and ast.unparse(x.targets[0]).replace('"', "'") == "i_meas['side']"), None)
        ok = st is not None and "net.bus.vn_kv" in ast.unparse(st.value) and "baseMVA" in ast.unparse(st.value) and \
            (side is None or not any(k in ast.unparse(side.value) for k in ("vn_hv_kv", "vn_lv_kv", "vn_mv_kv", "'vn_'", '"vn_"')))
        ctx.ob(RI, f"{PPC}::_add_measurements_to_ppci::base-current", ok,
               f"base_i_ka = {ast.unparse(st.value)[:80] if st is not None else '?'}" if ok else
               "the base current of i measurements is not derived from net.bus.vn_kv of the measured bus (rated winding voltages differ from the "
               "bus voltage level whenever a transformer is not rated exactly at the nominal voltages)", fm.loc(st) if st is not None else fm.loc())
    rule_branch_map_and_bound(ctx)
    RD = "DEAD-STORE"
    ctx.rule(RD, "no function of the estimation package assigns a local that is never read (a clamp, filter or copy whose result is lost "
                 "while the unmodified object is used)")
    fis = [f for mn in ctx.repo.module_names() if mn.startswith("pandapower.estimation") for f in ctx.repo.module(mn).functions.values()]
    if _lints.dead_local_stores(ctx, RD, fis) < 60:
        ctx.fail("DEAD-STORE: fewer than 60 functions found in pandapower.estimation")


def rule_branch_map_and_bound(ctx):
    from ppsa.astutil import inline_locals
    R = "BRANCH-LABEL"
    ctx.rule(R, "_get_branch_map keys the branch lookup by the index labels of the element table (net.<element>.index), because the "
                "measurement table refers to branches by label: a positional key attaches the measurements of a line to another line "
                "whenever the table index is not 0..n-1")
    fi = ctx.repo.try_func(f"{PPC}:_get_branch_map")
    if fi is None:
        ctx.fail("anchor vanished: _get_branch_map")
    else:
        rets = [n for n in ast.walk(fi.node) if isinstance(n, ast.Return) and n.value is not None]
        if not rets:
            ctx.fail("_get_branch_map: no return")
        for r in rets:
            v = inline_locals(fi.node, r.value)
            idx = None
            if isinstance(v, ast.Call):
                idx = next((k.value for k in v.keywords if k.arg == "index"), v.args[1] if len(v.args) > 1 else None)
            txt = norm(idx, 200).replace('"', "'") if idx is not None else ""
            ok = idx is not None and ".index" in txt and ("getattr(net,element_type)" in txt.replace(" ", "") or "net[element_type]" in txt)
            ctx.ob(R, f"{PPC}::_get_branch_map::series-index", ok,
                   f"lookup keyed by `{txt[:70]}`" if ok else
                   f"the lookup is keyed by `{txt[:90] or norm(r.value, 90)}`, which is not taken from the index labels of net[element_type]", fi.loc(r))
    R2 = "OBS-BOUND"
    ctx.rule(R2, "check_observability rejects a measurement set only when it has fewer entries than states (2*n_bus - n_slack): an "
                 "exactly determined observable set is solvable and must pass")
    fo = ctx.repo.try_func("pandapower.estimation.algorithm.base:BaseAlgorithm.check_observability")
    if fo is None:
        ctx.fail("anchor vanished: BaseAlgorithm.check_observability")
        return
    guards = [n for n in ast.walk(fo.node) if isinstance(n, ast.If) and any(isinstance(x, ast.Raise) for x in ast.walk(n))]
    if not guards:
        ctx.fail("check_observability: no raising guard found")
    for g in guards:
        t = g.test
        neg = False
        if isinstance(t, ast.UnaryOp) and isinstance(t.op, ast.Not):
            t, neg = t.operand, True
        ok, why = False, f"unrecognised guard `{norm(g.test, 80)}`"
        if isinstance(t, ast.Compare) and len(t.ops) == 1:
            left_is_count = "len(" in norm(t.left)
            op = type(t.ops[0])
            # normalise to: raise when count OP required
            flip = {ast.Lt: ast.Gt, ast.Gt: ast.Lt, ast.LtE: ast.GtE, ast.GtE: ast.LtE}
            inv = {ast.Lt: ast.GtE, ast.GtE: ast.Lt, ast.Gt: ast.LtE, ast.LtE: ast.Gt}
            if not left_is_count and "len(" in norm(t.comparators[0]):
                op = flip.get(op, op)
            if neg:
                op = inv.get(op, op)
            ok = op is ast.Lt
            why = "raises only for count < required" if ok else \
                f"`{norm(g.test, 80)}` also rejects a measurement set with exactly as many entries as states"
        ctx.ob(R2, "pandapower.estimation.algorithm.base::BaseAlgorithm.check_observability::bound", ok, why, fo.loc(g))


def run(ctx):
    rule = "API"
    ctx.rule(rule, "every attribute chain rooted at an imported numpy/scipy module that the state-"
                   "estimation code evaluates must exist in the installed library's exported namespace "
                   "(names read from the installed .pyi/.py files as text)")
    ctx.assume("numpy/scipy namespaces are read from the stub/source files installed in /venv; names "
               "created dynamically at import time are invisible (such namespaces are skipped as 'unknown')")
    ctx.assume("decides API existence on the estimation path only, not the numerical estimate")
    mods = estimation_closure(ctx.repo, deep=(ctx.tier == "thorough"))
    total = 0
    for mn in mods:
        total += scan_module(ctx, ctx.repo.module(mn), rule)
    ctx.count("modules_scanned", len(mods))
    ctx.require_min(rule, 150)
    # positive control: the resolver must know a name that exists and reject one that does not
    v1, _ = stubs.resolve_chain("numpy", ["linalg", "LinAlgError"])
    v2, _ = stubs.resolve_chain("numpy", ["definitely_not_a_numpy_name"])
    v3, _ = stubs.resolve_chain("scipy", ["sparse", "linalg", "spsolve"])
    if (v1, v2) != ("ok", "missing") or v3 == "missing":
        ctx.fail(f"stub resolver control failed: {v1} {v2} {v3}")
    rule_meas_order(ctx)
    rule_merge_and_dead(ctx)


def variants_r5(V):
    pc = "pandapower/estimation/ppc_conversion.py"
    ba = "pandapower/estimation/algorithm/base.py"
    return [
        V("branch map keyed by position", pc, replace_once("element_indices = getattr(net, element_type).index.values[mask]", "element_indices = np.flatnonzero(mask)"), "BRANCH-LABEL"),
        V("twin: branch map through the item access", pc, replace_once("element_indices = getattr(net, element_type).index.values[mask]", "element_indices = net[element_type].index.to_numpy()[mask]"), None),
        V("exactly determined sets rejected", ba, replace_once("if len(z) < measurements_available:", "if len(z) <= measurements_available:"), "OBS-BOUND"),
        V("twin: bound written the other way round", ba, replace_once("if len(z) < measurements_available:", "if not measurements_available <= len(z):"), None),
    ]


def variants(repo):
    p = "pandapower/estimation/algorithm/matrix_base.py"
    p2 = "pandapower/estimation/algorithm/base.py"
    p3 = "pandapower/estimation/ppc_conversion.py"
    return [
        Variant("i measurements related to the rated winding voltage", p3, in_function("_add_measurements_to_ppci", replace_once('base_i_ka = ppci["baseMVA"] / i_meas.side.map(net.bus.vn_kv)', 'base_i_ka = ppci["baseMVA"] / i_meas.side.map(net.trafo.vn_hv_kv)')), "I-BASE"),
        Variant("std_dev floor assigned to an unused local", p2, replace_once("eppci.r_cov[eppci.r_cov<(10**(-5))] = 10**(-5)", "r_cov = np.maximum(eppci.r_cov, 10**(-5))"), "DEAD-STORE"),
        Variant("bus injections summed without merging duplicates", p3, in_function("_add_measurements_to_bus", lambda s: s.replace('        this_meas = _calculate_weighted_measurements(this_meas, "element")\n        this_meas["ppci_index"] = this_meas.index.map(lambda x: map_bus[int(x)])\n', '        this_meas["weighted_measurement"] = this_meas["value"]\n        this_meas["merged_weight"] = this_meas["std_dev"]\n', 1)), "MEAS-MERGE"),
        Variant("isin->in1d", p, replace_once("np.isin(", "np.in1d("), "np.in1d"),
        Variant("LinAlgError path", p2, replace_once("np.linalg.LinAlgError", "np.linalg.linalg.LinAlgError"),
                "np.linalg.linalg.LinAlgError"),
        Variant("np.float_ removed alias", p2, replace_once("np.abs(", "np.float_("), "np.float_"),
        Variant("twin: alias import", p, replace_once("np.isin(", "np.isin (", ), None),
        Variant("hx Q-to block with P mask", p,
                replace_once('Qte = np.imag(Ste)[meas_mask["qto"]]', 'Qte = np.imag(Ste)[meas_mask["pto"]]'), "hx:order"),
        Variant("hx Q-from takes real part", p,
                replace_once('Qfe = np.imag(Sfe)[meas_mask["qfrom"]]', 'Qfe = np.real(Sfe)[meas_mask["qfrom"]]'),
                "create_hx::qfrom"),
        Variant("hx to-flow built on Yf", p,
                replace_once("Ste = V[t_bus] * np.conj(self.Yt * V)", "Ste = V[t_bus] * np.conj(self.Yf * V)"),
                "create_hx::pto"),
        Variant("hx blocks reordered", p,
                replace_once("hx = np.r_[Pbuse, Qbuse, Pfe, Qfe, Pte, Qte,", "hx = np.r_[Pbuse, Qbuse, Pfe, Pte, Qfe, Qte,"),
                "hx:order"),
        Variant("jacobian to-side with from masks", p,
                replace_once('self._dSbr_dv(V, "to", meas_mask["pto"], meas_mask["qto"])',
                             'self._dSbr_dv(V, "to", meas_mask["pfrom"], meas_mask["qto"])'), "_dSbr_dv:to"),
        Variant("jacobian va before vm", p,
                replace_once('        dVm = self._dVmbus_dV(V, meas_mask["vm"])\n        jac = vstack((jac, dVm))\n', '') ,
                "jac:order"),
        Variant("r_cov q-from std from p column", p3,
                replace_once('ppci["branch"][q_line_f_not_nan, branch_cols + Q_FROM_STD]',
                             'ppci["branch"][q_line_f_not_nan, branch_cols + P_FROM_STD]'), "r_cov[3]"),
        Variant("z picks with the wrong mask", p3,
                replace_once('ppci["branch"][q_line_t_not_nan, branch_cols + Q_TO],',
                             'ppci["branch"][p_line_t_not_nan, branch_cols + Q_TO],'), "z[5]"),
        Variant("mask dict key swapped", p3,
                replace_once('"ifrom" : np.flatnonzero(i_line_f_not_nan)', '"ifrom" : np.flatnonzero(i_line_t_not_nan)'),
                "meas_mask[ifrom]"),
        Variant("imag flag on voltage angle", p3,
                replace_once("np.zeros(sum(v_degree_bus_not_nan))", "np.ones(sum(v_degree_bus_not_nan))"),
                "imag_meas:current-only"),
        Variant("twin: hx local renamed", p,
                lambda s: s.replace("Qte", "Q_to_est"), None),
    ] + variants_r5(Variant)
