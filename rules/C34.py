"""C34 - explicit arguments override stored options: information-flow clause.

runpp declares ordinary defaults; by the language semantics the frames of runpp(net) and
runpp(net, algorithm='nr') are identical, so no function of locals() can tell them apart, yet the
property needs exactly that distinction.  Decided:
 * INFOFLOW   'was parameter P passed' must be computed from information that can differ between the two
              calls: a sentinel default that is not a legal value, **kwargs-only passing, or a wrapper that
              binds *args/**kwargs before defaults are applied.  Checked on runpp's signature, its decorators
              and the body of _passed_runpp_parameters (comparison of the value with the default).
 * REREAD     every named option that _init_runpp_options uses in its own logic before
              net._options.update(overrule_options) is re-read from overrule_options first, so a stored
              option is not ignored by the checks made on the way
 * PRIORITY   overrule_options contains only keys that are not in passed_parameters
"""
import ast

from ppsa.astutil import names_in, norm, dotted
from ppsa.selftest import Variant, replace_once, in_function

RUN = "pandapower.run"
AUX = "pandapower.auxiliary"


def _sentinel_default(repo, mod, d):
    if isinstance(d, ast.Name):
        r = repo.resolve(mod, d.id)
        if isinstance(r, tuple) and r[0] == "const":
            v = r[1]
            if isinstance(v, ast.Call) and dotted(v.func) in ("object", "Sentinel", "_Sentinel"):
                return True
    return False


def run(ctx):
    ctx.assume("an argument passed with the value of its default is indistinguishable from an omitted argument inside the "
               "callee unless the default is a sentinel or the call is intercepted before binding (Python call semantics)")
    R = "INFOFLOW"
    ctx.rule(R, "for every named runpp parameter that user_pf_options can overrule, 'was it passed' is computed from information "
                "that differs between runpp(net) and runpp(net, P=<default>): sentinel default, or a binding wrapper; a comparison "
                "of the received value with the default cannot decide it")
    fi = ctx.repo.func(f"{RUN}:runpp")
    a = fi.node.args
    named = a.args[1:]
    defaults = a.defaults[-len(named):] if named else []
    legal = [p.arg for p, d in zip(named, defaults) if not _sentinel_default(ctx.repo, RUN, d)]
    wrapped = False
    for dec in fi.node.decorator_list:
        dn = dotted(dec.func if isinstance(dec, ast.Call) else dec)
        r = ctx.repo.resolve(RUN, dn) if dn else None
        if hasattr(r, "node"):
            inner = [n for n in ast.walk(r.node) if isinstance(n, ast.FunctionDef) and n is not r.node and n.args.vararg and n.args.kwarg]
            if inner:
                wrapped = True
    fp = ctx.repo.func(f"{RUN}:_passed_runpp_parameters")
    value_cmp = None
    for n in ast.walk(fp.node):
        if isinstance(n, ast.Compare) and isinstance(n.ops[0], (ast.NotEq, ast.Eq, ast.IsNot, ast.Is)) and "default" in ast.unparse(n):
            value_cmp = n
    uses_locals = any(isinstance(c, ast.Call) and dotted(c.func) == "locals" for c in ast.walk(fi.node))
    ok = wrapped or not legal or (value_cmp is None and not uses_locals)
    ctx.ob(R, f"{RUN}::_passed_runpp_parameters::value-comparison", ok,
           "passedness is decidable (sentinel defaults or binding wrapper)" if ok else
           f"{len(legal)} runpp parameters have legal values as defaults ({', '.join(legal[:6])}, ...) and passedness is computed as "
           f"'{norm(value_cmp, 60) if value_cmp is not None else 'a function of locals()'}': runpp(net, algorithm='nr') after "
           "set_user_pf_options(algorithm='bfsw') runs bfsw", fp.loc(value_cmp) if value_cmp is not None else fp.loc(),
           detail={"parameters": legal})

    R2 = "REREAD"
    ctx.rule(R2, "_init_runpp_options re-reads from overrule_options every named option that it uses in its own logic before "
                 "net._options.update(overrule_options)")
    fo = ctx.repo.func(f"{AUX}:_init_runpp_options")
    params = [p.arg for p in fo.node.args.args[1:] if p.arg not in ("passed_parameters",)]
    upd_line = None
    for n in ast.walk(fo.node):
        if isinstance(n, ast.Call) and ast.unparse(n.func) == "net._options.update" and "overrule_options" in ast.unparse(n):
            upd_line = n.lineno
    if upd_line is None:
        ctx.fail("_init_runpp_options: net._options.update(overrule_options) not found")
    reread = set()
    reread_line = {}
    for n in ast.walk(fo.node):
        if isinstance(n, ast.Assign) and len(n.targets) == 1 and isinstance(n.targets[0], ast.Name) and isinstance(n.value, ast.Call) \
                and ast.unparse(n.value.func) == "overrule_options.get" and n.value.args and isinstance(n.value.args[0], ast.Constant) \
                and n.value.args[0].value == n.targets[0].id:
            reread.add(n.targets[0].id)
            reread_line[n.targets[0].id] = n.lineno
    forwarded = set()
    for n in ast.walk(fo.node):
        if isinstance(n, ast.Call) and (dotted(n.func) or "").startswith("_add_") and (dotted(n.func) or "").endswith("_options"):
            for a_ in list(n.args) + [k.value for k in n.keywords]:
                if isinstance(a_, ast.Name):
                    forwarded.add(id(a_))
    n_ob = 0
    for p in params:
        # uses of p in tests / computations (not merely passed on as keyword to the _add_*_options calls)
        uses = []
        for n in ast.walk(fo.node):
            if isinstance(n, ast.Name) and n.id == p and isinstance(n.ctx, ast.Load) and n.lineno < upd_line \
                    and id(n) not in forwarded:
                uses.append(n)
        if not uses:
            continue
        first_use = min(u.lineno for u in uses if u.lineno != reread_line.get(p, -1)) if any(u.lineno != reread_line.get(p, -1) for u in uses) else None
        if first_use is None:
            continue
        n_ob += 1
        ok = p in reread and reread_line[p] <= first_use
        ctx.ob(R2, f"{AUX}::_init_runpp_options::{p}", ok,
               f"option '{p}' is re-read from overrule_options before its first use" if ok else
               f"option '{p}' is used at line {first_use} " + ("before it is" if p in reread else "and never") + " re-read from overrule_options: "
               "a stored user option for it is ignored by the checks made in _init_runpp_options", fo.loc())
    if n_ob < 8:
        ctx.fail(f"REREAD: only {n_ob} options recognised (confirmed: 9)")

    R3 = "PRIORITY"
    ctx.rule(R3, "overrule_options = {stored options whose key is not in passed_parameters}")
    ok = False
    for n in ast.walk(fo.node):
        if isinstance(n, ast.DictComp) and "user_pf_options" in ast.unparse(n) and "not in passed_parameters" in ast.unparse(n):
            ok = True
    ctx.ob(R3, f"{AUX}::_init_runpp_options::overrule", ok, "stored options are filtered by 'key not in passed_parameters'", fo.loc())
    rule_kwargs_and_readers(ctx)
    rule_passed_exact(ctx)
    rule_locals_clean(ctx)


def rule_passed_exact(ctx):
    """what counts as passed, what may overrule, and what the control loop receives"""
    R = "PASSED-EXACT"
    ctx.rule(R, "_passed_runpp_parameters decides 'differs from the default' by exact inequality (`val != default`): a tolerance would "
                "classify an explicit value close to the default as not passed; _init_runpp_options builds overrule_options from the "
                "stored options minus the passed keys and adds nothing to it afterwards; the run_control branch of runpp hands every "
                "parameter on (locals() or a mapping with all named parameters)")
    fi = ctx.repo.func(f"{RUN}:_passed_runpp_parameters")
    comp = next((n for n in ast.walk(fi.node) if isinstance(n, ast.Assign) and ast.unparse(n.targets[0]) == "passed_parameters" and isinstance(n.value, ast.DictComp)), None)
    ok = False
    det = "comprehension not found"
    if comp is not None:
        cond = comp.value.generators[0].ifs[0] if comp.value.generators[0].ifs else None
        det = ast.unparse(cond)[:120] if cond is not None else "no condition"
        cmps = [c for c in ast.walk(cond) if isinstance(c, ast.Compare) and isinstance(c.ops[0], ast.NotEq)] if cond is not None else []
        calls = [ast.unparse(c.func) for c in ast.walk(cond) if isinstance(c, ast.Call)] if cond is not None else []
        ok = any(ast.unparse(c.left) == "val" and "default_parameters" in ast.unparse(c.comparators[0]) for c in cmps) and \
            all(f in ("default_parameters.keys", "default_parameters.get") for f in calls)
    ctx.ob(R, f"{RUN}::_passed_runpp_parameters::exact-comparison", ok, f"passed if `{det}`", fi.loc(comp) if comp is not None else fi.loc())
    fo = ctx.repo.func("pandapower.auxiliary:_init_runpp_options")
    defs = [n for n in ast.walk(fo.node) if isinstance(n, ast.Assign) and ast.unparse(n.targets[0]) == "overrule_options"]
    filt = [n for n in defs if isinstance(n.value, ast.DictComp)]
    okf = bool(filt) and "net.user_pf_options.items()" in ast.unparse(filt[0].value) and "notinpassed_parameters" in ast.unparse(filt[0].value).replace(" ", "")
    muts = [c for c in ast.walk(fo.node) if (isinstance(c, ast.Call) and isinstance(c.func, ast.Attribute) and c.func.attr in ("update", "setdefault")
                                              and ast.unparse(c.func.value) == "overrule_options")
            or (isinstance(c, ast.Assign) and isinstance(c.targets[0], ast.Subscript) and ast.unparse(c.targets[0].value) == "overrule_options")]
    ctx.ob(R, "pandapower.auxiliary::_init_runpp_options::overrule-filter", okf and not muts,
           "overrule_options = stored options without the passed keys, not extended afterwards" if okf and not muts else
           (f"`{ast.unparse(muts[0])[:90]}` adds entries to overrule_options after the passed keys were filtered out: a stored value can overrule "
            "an explicit argument" if muts else "filtering comprehension over net.user_pf_options not found"),
           fo.loc(muts[0]) if muts else fo.loc())
    fr = ctx.repo.func(f"{RUN}:runpp")
    blk = next((n for n in ast.walk(fr.node) if isinstance(n, ast.If) and "run_control" in ast.unparse(n.test) and
                any(isinstance(c, ast.Call) and ast.unparse(c.func) == "run_control" for c in ast.walk(n))), None)
    if blk is None:
        ctx.fail("runpp: run_control branch not found")
    body_txt = "\n".join(ast.unparse(st) for st in blk.body)
    ok = "locals()" in body_txt
    missing = []
    if not ok:
        named = [a.arg for a in fr.node.args.args[1:]]
        keys = set()
        for c in ast.walk(ast.Module(body=blk.body, type_ignores=[])):
            if isinstance(c, ast.Call):
                keys |= {k.arg for k in c.keywords if k.arg}
            if isinstance(c, ast.Dict):
                keys |= {k.value for k in c.keys if isinstance(k, ast.Constant)}
        missing = [p for p in named if p not in keys and p != "run_control"]
        ok = not missing
    ctx.ob(R, f"{RUN}::runpp::run_control-hand-over", ok,
           "every runpp parameter is handed to the control loop" if ok else
           f"the run_control branch does not hand over {missing}: with controllers in service an explicit value of these parameters is lost and the "
           "stored option wins", fr.loc(blk))


def _bound_names(st):
    """names bound by one statement (not descending into nested function / class bodies)"""
    out = []
    stack = [st]
    while stack:
        n = stack.pop()
        if isinstance(n, (ast.FunctionDef, ast.AsyncFunctionDef, ast.ClassDef)):
            out.append((n.name, n))
            continue
        if isinstance(n, (ast.Lambda, ast.ListComp, ast.SetComp, ast.DictComp, ast.GeneratorExp)):
            continue
        if isinstance(n, ast.Name) and isinstance(n.ctx, (ast.Store, ast.Del)):
            out.append((n.id, n))
        if isinstance(n, (ast.Import, ast.ImportFrom)):
            out += [((a.asname or a.name).split(".")[0], n) for a in n.names]
        if isinstance(n, ast.ExceptHandler) and n.name:
            out.append((n.name, n))
        stack.extend(ast.iter_child_nodes(n))
    return out


def rule_locals_clean(ctx):
    R = "LOCALS-CLEAN"
    ctx.rule(R, "the locals() snapshot from which the passed parameters are computed contains no helper variable named like a "
                "power-flow option: "
                "_passed_runpp_parameters counts every name that is not a named parameter with a default as passed, so a helper "
                "variable bound on a path to the snapshot makes the option of that name 'passed' in every call and the stored "
                "option is never applied")
    n_sites = 0
    # the names a user can store: everything the option initialisers look up in kwargs, and their own named parameters
    options = set()
    for fo in ctx.repo.module(AUX).functions.values():
        if fo.qualname.startswith("_init_") and fo.qualname.endswith("_options"):
            options |= {a.arg for a in fo.node.args.args[1:]}
            for c in ast.walk(fo.node):
                if isinstance(c, ast.Call) and ast.unparse(c.func) in ("kwargs.get", "kwargs.pop", "overrule_options.get") and c.args \
                        and isinstance(c.args[0], ast.Constant) and isinstance(c.args[0].value, str):
                    options.add(c.args[0].value)
    if len(options) < 25:
        ctx.fail(f"LOCALS-CLEAN: only {len(options)} option names found in the _init_*_options functions (confirmed: 32)")
    for fq in (f"{RUN}:runpp", "pandapower.pf.runpp_3ph:runpp_3ph"):
        fi = ctx.repo.func(fq)
        params = {a.arg for a in fi.node.args.args + fi.node.args.kwonlyargs}
        params |= {a.arg for a in (fi.node.args.vararg, fi.node.args.kwarg) if a is not None}
        snaps = [c for c in ast.walk(fi.node) if isinstance(c, ast.Call) and dotted(c.func) == "_passed_runpp_parameters"
                 and c.args and isinstance(c.args[0], ast.Call) and dotted(c.args[0].func) == "locals"]
        for call in snaps:
            n_sites += 1
            # statements that can execute before the snapshot: walk down the statement lists that contain it
            leaked = []
            body = fi.node.body
            while body is not None:
                nxt = None
                for st in body:
                    if st.lineno <= call.lineno <= (st.end_lineno or st.lineno):
                        # the compound statement holding the call: only its own header bindings, then descend
                        for fld in ("body", "orelse", "finalbody", "handlers"):
                            sub = getattr(st, fld, None)
                            if isinstance(sub, list) and sub and isinstance(sub[0], ast.stmt) and \
                                    sub[0].lineno <= call.lineno <= (sub[-1].end_lineno or sub[-1].lineno):
                                nxt = sub
                        if isinstance(st, (ast.For, ast.AsyncFor)):
                            leaked += _bound_names(st.target)
                        if isinstance(st, (ast.With, ast.AsyncWith)):
                            leaked += [b for it in st.items if it.optional_vars is not None for b in _bound_names(it.optional_vars)]
                        break
                    leaked += _bound_names(st)
                body = nxt
            bad = sorted({nm for nm, _ in leaked if nm not in params and nm in options})
            first = next((nd for nm, nd in leaked if nm in bad), None)
            ctx.ob(R, f"{fi.module.name}::{fi.qualname}::locals-snapshot", not bad,
                   "no local with the name of a power-flow option is bound before the locals() snapshot" if not bad else
                   f"local name(s) {bad} are bound before `_passed_runpp_parameters(locals())`: each counts as a passed argument in "
                   "every call, so a stored user option of that name is never applied",
                   fi.loc(first) if first is not None else fi.loc(call))
    if n_sites < 2:
        ctx.fail(f"LOCALS-CLEAN: only {n_sites} locals() snapshots found (confirmed: runpp, runpp_3ph)")


def rule_kwargs_and_readers(ctx):
    # explicit keyword options are passed by definition - whatever their value
    R = "KWARGS-PASSED"
    ctx.rule(R, "every keyword argument received through **kwargs counts as passed: _passed_runpp_parameters merges the kwargs "
                "dictionary itself (no filtering by value, e.g. `is not None`)")
    fi = ctx.repo.func(f"{RUN}:_passed_runpp_parameters")
    ups = [c for c in ast.walk(fi.node) if isinstance(c, ast.Call) and isinstance(c.func, ast.Attribute) and c.func.attr == "update"
           and c.args and "kwargs" in ast.unparse(c.args[0])]
    if not ups:
        ctx.fail("_passed_runpp_parameters: merge of the kwargs parameters not found")
    for c in ups:
        a = c.args[0]
        filtered = any(isinstance(n, ast.comprehension) and n.ifs for n in ast.walk(a)) or isinstance(a, (ast.DictComp,)) and any(g.ifs for g in a.generators)
        ctx.ob(R, f"{RUN}::_passed_runpp_parameters::kwargs-merge", not filtered,
               "all keyword options are merged into the passed parameters" if not filtered else
               f"`{ast.unparse(c)[:90]}` drops keyword options by their value: an option passed explicitly with that value (e.g. None) "
               "is overruled by the stored option", fi.loc(c))
    # who may read the stored options on the runpp path
    R2 = "STORED-READERS"
    ctx.rule(R2, "on the power-flow entry path net.user_pf_options is read only by _passed_runpp_parameters (is anything stored?) and by "
                 "the option initialisers that filter it with the passed parameters; runpp itself and the solvers never read it - a "
                 "direct read bypasses the priority of explicit arguments")
    allowed = {f"{RUN}:set_user_pf_options", f"{RUN}:_passed_runpp_parameters", "pandapower.auxiliary:_init_runpp_options",
               "pandapower.pf.runpp_3ph:runpp_3ph"}
    n = 0
    for mn in ("pandapower.run", "pandapower.auxiliary", "pandapower.powerflow", "pandapower.pd2ppc", "pandapower.pf.runpp_3ph",
               "pandapower.pf.run_newton_raphson_pf", "pandapower.optimal_powerflow"):
        for f in ctx.repo.module(mn).functions.values():
            reads = [x for x in ast.walk(f.node) if (isinstance(x, ast.Attribute) and x.attr == "user_pf_options") or
                     (isinstance(x, ast.Constant) and x.value == "user_pf_options")]
            if not reads:
                continue
            n += 1
            ok = f.fq in allowed
            ctx.ob(R2, f"{f.module.name}::{f.qualname}::reads-user_pf_options", ok,
                   "reads the stored options through the priority filter" if ok else
                   f"{f.qualname} reads net.user_pf_options directly: the stored value wins over an explicitly passed argument", f.loc(reads[0]))
    if n < 3:
        ctx.fail(f"STORED-READERS: only {n} readers of user_pf_options found")


def variants(repo):
    a = "pandapower/auxiliary.py"
    V = Variant
    return [
        V("default comparison with a tolerance", "pandapower/run.py", in_function("_passed_runpp_parameters", replace_once("val != default_parameters.get(key, None)}", "not np.isclose(val, default_parameters.get(key, None))}")), "exact-comparison"),
        V("nested stored options added after the filter", a, in_function("_init_runpp_options", replace_once("    kwargs.update(overrule_options)\n", '    overrule_options.update(overrule_options.pop("pf_options", {}))\n    kwargs.update(overrule_options)\n')), "overrule-filter"),
        V("run_control branch with a hand-written argument list", "pandapower/run.py", in_function("runpp", replace_once("        parameters = {**locals(), **kwargs}\n", "        parameters = dict(algorithm=algorithm, init=init, max_iteration=max_iteration, tolerance_mva=tolerance_mva, **kwargs)\n        parameters['net'] = net\n")), "run_control-hand-over"),
        V("None-valued keyword options not counted as passed", "pandapower/run.py", in_function("_passed_runpp_parameters", replace_once("passed_parameters.update(kwargs_parameters)", "passed_parameters.update({key: val for key, val in kwargs_parameters.items() if val is not None})")), "KWARGS-PASSED"),
        V("recycle shortcut reads the stored options", "pandapower/run.py", in_function("runpp", replace_once('    if isinstance(kwargs.get("recycle", None), dict) and _internal_stored(net):', '    recycle = net.get("user_pf_options", {}).get("recycle", kwargs.get("recycle", None))\n    if isinstance(recycle, dict) and _internal_stored(net):')), "STORED-READERS"),
        V("helper variable before the locals() snapshot", "pandapower/run.py", in_function("runpp", replace_once('    if isinstance(kwargs.get("recycle", None), dict) and _internal_stored(net):', '    recycle = kwargs.get("recycle", None)\n    if isinstance(recycle, dict) and _internal_stored(net):')), "LOCALS-CLEAN"),
        V("helper variable after the snapshot (twin)", "pandapower/run.py", in_function("runpp", replace_once("        _check_bus_index_and_print_warning_if_high(net)\n", "        n_bus = len(net.bus)\n        _check_bus_index_and_print_warning_if_high(net)\n")), None),
        V("init not re-read", a, in_function("_init_runpp_options", replace_once('    init = overrule_options.get("init", init)\n', '')), "REREAD"),
        V("stored options win", a, in_function("_init_runpp_options", replace_once("if key not in passed_parameters.keys()}", "if key in passed_parameters.keys() or True}")), "PRIORITY"),
    ]
