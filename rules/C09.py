"""C09 - calculation results do not depend on the history of the network object: structural clauses.

Decided (necessary conditions; a broken one makes some history change the next result):
 * STALE-READ    on every path of every calculation entry point (without an explicit recycle request) no
                 cached per-network key (net._options, _pd2ppc_lookups[...], _is_elements, _is_elements_final,
                 _ppc*, _isolated_buses*, _impedance_bb_switches, _gen_order ...) is read before it has
                 definitely been rewritten in the same call (must-definedness typestate, interprocedural,
                 with constant propagation of options and parameters)
 * OPTIONS-RESET every function that fills net._options through _add_*_options resets it first
 * RECYCLE-GUARD the stored solver state is consumed only behind the explicit recycle guard
 * RESULT-INIT   result tables are re-initialised (or verified under init from results) before the
                 conversion; every result table the extractors write is one that the mode re-initialises
 * INIT-NAN      every value that flows from a result table into a start voltage passes a NaN replacement
 * NO-MEMO       no function reachable from the entries memoises (lru_cache / module-level mutable store)
Not decided: convergence from init='results' to the same solution (numerical).
"""
import ast

from ppsa import facts
from ppsa.astutil import norm, dotted, calls_in, call_name, names_in, fold, NOFOLD, walk_no_nested
from ppsa.selftest import Variant, replace_once, in_function
from ppsa.statewalk import StateWalk

KEYS = {"_options", "_pd2ppc_lookups", "_is_elements", "_is_elements_final", "_ppc", "_ppc0", "_ppc1", "_ppc2",
        "_ppc_opf", "_isolated_buses", "_isolated_buses_dc", "_impedance_bb_switches", "_fused_bb_switches",
        "_gen_order"}

ENTRIES = [
    "pandapower.run:runpp",
    "pandapower.run:rundcpp",
    "pandapower.run:runopp",
    "pandapower.run:rundcopp",
    "pandapower.pf.runpp_3ph:runpp_3ph",
    "pandapower.shortcircuit.calc_sc:calc_sc",
]

# the explicit recycle machinery: licensed to read what the previous step stored; its call sites are
# checked by RECYCLE-GUARD instead
RECYCLE_FUNCS = {"pandapower.powerflow:_recycled_powerflow", "pandapower.auxiliary:_internal_stored"}

# stale reads that are licensed, one line of reason each: (entry function, key, sub, reading function)
LICENSED = {
    ("calc_sc", "_options", "trafo_model", "calc_sc"):
        "use_pre_fault_voltage=True explicitly continues from the previous power flow (method C); the transformer "
        "model of that power flow is read on purpose",
}


def _walker(repo):
    return StateWalk(repo, KEYS, skip=set(RECYCLE_FUNCS), sticky_options={"mode"}, kwargs_never={"sequence"})


def rule_stale(ctx):
    R = "STALE-READ"
    ctx.rule(R, "forward must-definedness of cached net keys along each entry point (branches join by intersection, constant "
                "tests folded, repository callees that receive the net inlined): a read of a key that has not definitely been "
                "rewritten in the same call is a read of an earlier calculation's state")
    ctx.assume("entry points are analysed without an explicit recycle request (recycle=None); **kwargs forwarded to internal "
               "functions never carry the parameter 'sequence'; net.user_pf_options does not override the internal option 'mode'")
    total_fresh = 0
    for fq in ENTRIES:
        fi = ctx.repo.func(fq)
        sw = _walker(ctx.repo)
        consts = {"recycle": None} if "recycle" in fi.params else None
        out, evs = sw.run(fi, consts=consts)
        total_fresh += sw.fresh_reads
        if len(sw.visited) < 40:
            ctx.fail(f"{fq}: only {len(sw.visited)} functions reached from the entry (call resolution broke)")
        seen = set()
        stale = []
        for ev in evs:
            if ev.kind != "read":
                continue
            k = (ev.key, ev.sub, ev.where(), norm(ev.node, 70))
            if k in seen:
                continue
            seen.add(k)
            lic = LICENSED.get((fi.name, ev.key, ev.sub, ev.fi.name))
            if lic:
                ctx.info(f"licensed stale read in {fi.name}: {ev.key}[{ev.sub}] in {ev.fi.name}: {lic}")
                continue
            stale.append(ev)
        ctx.ob(R, f"{fi.module.name}::{fi.qualname}::entry", True,
               f"{len(sw.visited)} functions walked, {sw.fresh_reads} reads of cached keys found fresh, {sw.folded_tests} tests folded, "
               f"{len(stale)} stale", fi.loc())
        ctx.count("functions_walked", len(sw.visited))
        ctx.count("unresolved_calls_with_net", sw.unresolved)
        for ev in stale:
            sub = "" if ev.sub is None else f"[{ev.sub}]"
            ctx.ob(R, f"{fi.module.name}::{fi.qualname}::{ev.key}{sub}@{ev.fi.qualname}::{norm(ev.node, 50)}", False,
                   f"{fi.name}: net.{ev.key}{sub} is read in {ev.fi.qualname} (call chain {' > '.join(ev.chain[-4:])}) before it is "
                   f"rewritten in this call: the value of an earlier calculation is used", ev.fi.loc(ev.node))
    ctx.count("fresh_reads", total_fresh)
    if total_fresh < 300:
        ctx.fail(f"only {total_fresh} reads of cached keys were seen from the entry points (the access patterns are no longer recognised)")


def rule_options_reset(ctx):
    R = "OPTIONS-RESET"
    ctx.rule(R, "a function that calls _add_ppc_options/_add_pf_options/_add_opf_options/_add_sc_options must assign "
                "net._options = {} on every path before the first such call (else stale keys survive or _add_options raises)")
    adders = {"_add_ppc_options", "_add_pf_options", "_add_opf_options", "_add_sc_options"}
    n = 0
    for fi in ctx.repo.all_functions():
        if fi.name in adders or fi.name == "_add_options":
            continue
        if not any(call_name(c) in adders for c in calls_in(fi.node)):
            continue
        n += 1
        sw = StateWalk(ctx.repo, {"_options"}, max_depth=3)
        nets = {p for p in fi.params if p == "net"} or set(fi.params[:1])
        out, evs = sw.run(fi, nets=nets)
        bad = [ev for ev in evs if ev.kind == "read" and ev.key == "_options" and ev.fi.name in ("_add_options",) ]
        bad += [ev for ev in evs if ev.kind == "read" and ev.key == "_options" and ev.fi.fq == fi.fq
                and isinstance(ev.node, ast.Call)]
        ctx.ob(R, f"{fi.module.name}::{fi.qualname}::reset-before-add", not bad,
               "net._options is reset before it is filled" if not bad else
               f"net._options is filled ({norm(bad[0].node, 50)} via {' > '.join(bad[0].chain[-3:])}) without a preceding reset on some path",
               fi.loc())
    ctx.require_min(R, 18)


def rule_recycle_guard(ctx):
    R = "RECYCLE-GUARD"
    ctx.rule(R, "every call of _recycled_powerflow is inside an if whose test requires isinstance(<recycle>, dict) and "
                "_internal_stored(net...); _pd2ppc_recycle falls back to a full conversion unless recycle is truthy and the stored "
                "ppc exists; the time-series loop clears the stored ppc before and after the loop")
    n = 0
    for fi in ctx.repo.all_functions():
        for node in ast.walk(fi.node):
            if not isinstance(node, ast.If):
                continue
        pm = None
        for c in calls_in(fi.node):
            if call_name(c) != "_recycled_powerflow":
                continue
            n += 1
            if pm is None:
                pm = {ch: p for p in ast.walk(fi.node) for ch in ast.iter_child_nodes(p)}
            cur = c
            ok = False
            while cur in pm:
                par = pm[cur]
                if isinstance(par, ast.If) and any(cur is x or any(cur is y for y in ast.walk(x)) for x in par.body):
                    t = par.test
                    conj = t.values if isinstance(t, ast.BoolOp) and isinstance(t.op, ast.And) else [t]
                    has_dict = any(isinstance(x, ast.Call) and call_name(x) == "isinstance" and len(x.args) == 2
                                   and dotted(x.args[1]) == "dict" for x in conj)
                    has_stored = any(isinstance(x, ast.Call) and call_name(x) == "_internal_stored" for x in conj)
                    if has_dict and has_stored:
                        ok = True
                        break
                cur = par
            ctx.ob(R, f"{fi.module.name}::{fi.qualname}::call:_recycled_powerflow", ok,
                   "guarded by isinstance(recycle, dict) and _internal_stored(net)" if ok else
                   "_recycled_powerflow is called without the explicit recycle guard: the stored ppc of an earlier calculation "
                   "is used for an ordinary call", fi.loc(c))
    if n < 2:
        ctx.fail("call sites of _recycled_powerflow not found")
    # _pd2ppc_recycle: with recycle falsy no cached key is read before the full conversion rewrites it
    fi = ctx.repo.func("pandapower.pd2ppc:_pd2ppc_recycle")
    for rec in (None, False):
        sw = _walker(ctx.repo)
        out, evs = sw.run(fi, consts={"recycle": rec, "sequence": 1}, init=frozenset({"_options", "opt:mode='pf_3ph'"}))
        stale = [ev for ev in evs if ev.kind == "read"]
        ctx.ob(R, f"pandapower.pd2ppc::_pd2ppc_recycle::recycle={rec}", not stale,
               "falls back to the full conversion before touching the stored ppc" if not stale else
               f"reads net.{stale[0].key} ({norm(stale[0].node, 50)}) although recycle={rec}", fi.loc())
    # time series: cleanup before and after the loop
    fr = ctx.repo.func("pandapower.timeseries.run_time_series:run_timeseries")
    order = [call_name(c) for st in fr.node.body for c in calls_in(st) if call_name(c) in ("cleanup", "run_loop")]
    ok = order[:1] == ["cleanup"] and "run_loop" in order and order[-1] == "cleanup" and order.index("run_loop") > 0
    ctx.ob(R, "pandapower.timeseries.run_time_series::run_timeseries::cleanup-around-loop", ok,
           "cleanup(net) is called before and after run_loop" if ok else f"call order is {order}", fr.loc())
    fc = ctx.repo.func("pandapower.timeseries.run_time_series:cleanup")
    ok = any(isinstance(n_, ast.Assign) and any(dotted(t) == "net._ppc" or norm(t) in ("net['_ppc']", 'net["_ppc"]') for t in n_.targets)
             and isinstance(n_.value, ast.Constant) and n_.value.value is None for n_ in ast.walk(fc.node))
    ctx.ob(R, "pandapower.timeseries.run_time_series::cleanup::clears-ppc", ok,
           "cleanup sets net._ppc = None" if ok else "cleanup no longer clears the stored ppc", fc.loc())


def _calls_before(fn, first_names, then_name):
    """True iff on the statement list of fn a statement that calls one of first_names on *every* branch precedes the first
    statement that calls then_name (syntax directed, descends into try bodies)."""
    def always_calls(st):
        if isinstance(st, ast.If):
            return bool(st.orelse) and any(always_calls(s) for s in st.body) and any(always_calls(s) for s in st.orelse)
        if isinstance(st, (ast.For, ast.While, ast.FunctionDef, ast.ClassDef)):
            return False
        if isinstance(st, ast.Try):
            return any(always_calls(s) for s in st.body)
        if isinstance(st, ast.With):
            return any(always_calls(s) for s in st.body)
        return any(call_name(c) in first_names for c in calls_in(st))

    def scan(body, seen):
        for st in body:
            if isinstance(st, ast.Try):
                r = scan(st.body, seen)
                if r is not None:
                    return r
                seen = seen or any(always_calls(s) for s in st.body)
                continue
            if isinstance(st, ast.With):
                r = scan(st.body, seen)
                if r is not None:
                    return r
                continue
            if not isinstance(st, (ast.If, ast.For, ast.While)) and any(call_name(c) == then_name for c in calls_in(st)):
                return seen
            if isinstance(st, (ast.If, ast.For, ast.While)) and any(call_name(c) == then_name for c in calls_in(st)):
                return seen
            if always_calls(st):
                seen = True
        return None
    return scan(fn.body, False)


def rule_result_init(ctx):
    R = "RESULT-INIT"
    ctx.rule(R, "before the conversion every owner re-initialises the result tables (init_results) or verifies them "
                "(verify_results, only when initialising from results / DC); verify_results re-initialises every table whose index "
                "differs; the result tables written by the extractors are tables the mode re-initialises")
    for fq, then in (("pandapower.powerflow:_powerflow", "_pd2ppc"), ("pandapower.optimal_powerflow:_optimal_powerflow", "_pd2ppc")):
        fi = ctx.repo.func(fq)
        r = _calls_before(fi.node, {"init_results", "verify_results"}, then)
        ctx.ob(R, f"{fi.module.name}::{fi.qualname}::init-before-conversion", r is True,
               "init_results / verify_results is called on every path before _pd2ppc" if r is True else
               "the result tables are not (re)initialised on every path before the conversion: rows of an earlier calculation survive",
               fi.loc())
        # verify_results only under the init-from-results / DC condition
        ok = False
        for node in ast.walk(fi.node):
            if isinstance(node, ast.If) and any(call_name(c) == "verify_results" for st in node.body for c in calls_in(st)):
                t = norm(node.test).replace('"', "'")
                ok = "init_results" in t and any(call_name(c) == "init_results" for st in node.orelse for c in calls_in(st))
        ctx.ob(R, f"{fi.module.name}::{fi.qualname}::verify-only-when-init-results", ok,
               "verify_results (keep tables) only when initialising from results or DC, init_results otherwise" if ok else
               "result tables are kept although the calculation does not initialise from results", fi.loc())
    fi = ctx.repo.func("pandapower.shortcircuit.calc_sc:calc_sc")
    r = _calls_before(fi.node, {"init_results"}, "_calc_sc")
    ctx.ob(R, "pandapower.shortcircuit.calc_sc::calc_sc::init-before-calc", r is True, "init_results(net, 'sc') precedes _calc_sc", fi.loc())
    fi = ctx.repo.func("pandapower.pf.runpp_3ph:runpp_3ph")
    r = _calls_before(fi.node, {"init_results"}, "_extract_results_3ph")
    ctx.ob(R, "pandapower.pf.runpp_3ph::runpp_3ph::init-before-extract", r is True, "init_results(net, 'pf_3ph') precedes _extract_results_3ph", fi.loc())
    # verify_results: index mismatch -> init_element
    fv = ctx.repo.func("pandapower.results:verify_results")
    ok = False
    for node in ast.walk(fv.node):
        if isinstance(node, ast.If) and "index_equal" in names_in(node.test) and isinstance(node.test, ast.UnaryOp):
            ok = any(call_name(c) == "init_element" for st in node.body for c in calls_in(st))
    src = norm(fv.node, 4000)
    ok = ok and ".index.equals(" in src
    ctx.ob(R, "pandapower.results::verify_results::reinit-on-index-mismatch", ok,
           "a result table whose index differs from its element table is re-initialised" if ok else
           "verify_results no longer re-initialises result tables with a different index", fv.loc())
    # init_element: NaN frame over the element's index
    fe = ctx.repo.func("pandapower.results:init_element")
    src = norm(fe.node, 4000)
    ok = "net[element].index" in src and "np.nan" in src and "empty_res_element(" in src
    ctx.ob(R, "pandapower.results::init_element::nan-frame-over-index", ok,
           "init_element builds a NaN frame over the element's current index (or empties the table)" if ok else
           "init_element no longer rebuilds the table from the element's current index", fe.loc())
    # tables written vs tables re-initialised
    fg = ctx.repo.func("pandapower.results:get_relevant_elements")
    rel = {}
    for node in ast.walk(fg.node):
        if isinstance(node, ast.If):
            modes = [fold(c.comparators[0]) for c in ast.walk(node.test) if isinstance(c, ast.Compare)]
            for st in node.body:
                if isinstance(st, ast.Return):
                    v = fold(st.value)
                    if v is not NOFOLD:
                        for m in modes:
                            rel[m] = set(v)
    if not {"pf", "opf", "sc", "pf_3ph"} <= set(rel):
        ctx.fail(f"get_relevant_elements: mode lists not recognised ({sorted(rel)})")
    extract = [("pf", "pandapower.results:_extract_results", {"mode": "pf", "ac": True}, ""),
               ("opf", "pandapower.results:_extract_results", {"mode": "opf", "ac": True}, ""),
               ("pf_3ph", "pandapower.results:_extract_results_3ph", {"mode": "pf_3ph", "ac": True}, "_3ph"),
               ("sc", "pandapower.shortcircuit.results:_extract_results", {"mode": "sc"}, "_sc")]
    ALLOWED_EXTRA = {"res_cost": "scalar objective value, deleted by _remove_costs / reset_results",
                     "res_gen_3ph": "no such table in the network structure: a three-phase run with an in-service gen fails with a "
                                    "KeyError (unsupported), no stale rows are possible",
                     "res_bus": "the 3ph extractor only touches res_bus through shared helpers of mode pf"}
    for mode, fq, opts, suf in extract:
        try:
            it, fr = facts.analyse(ctx.repo, fq, options=opts, schema_cols=True, max_depth=9)
        except Exception as e:  # pragma: no cover
            ctx.fail(f"{fq}: abstract interpretation failed ({e})")
        tabs = set()
        for s in it.stores:
            p = s.path or ""
            if p.startswith("net.res_"):
                tabs.add(p.split(".")[1])
        want = {f"res_{e}{suf}" for e in rel[mode]}
        if len(tabs) < 4:
            ctx.fail(f"{fq}: only {sorted(tabs)} result tables seen written (mode {mode})")
        for t in sorted(tabs):
            if t in ALLOWED_EXTRA and t not in want:
                continue
            ok = t in want
            ctx.ob(R, f"pandapower.results::get_relevant_elements::{mode}:{t}", ok,
                   f"{t} is written by the {mode} extractor and re-initialised for mode '{mode}'" if ok else
                   f"{t} is written in place by the {mode} extractor but is not in get_relevant_elements('{mode}'): it keeps the rows of "
                   "an earlier calculation", fg.loc())
    ctx.require_min(R, 40)


def _res_taint_check(fi):
    """May-taint analysis inside one function.  Source: an expression that reads net['res_...'] / net.res_* / net[<name bound
    to a 'res_' string>].  A NaN replacement (x[isnan(x)] = c, np.where(isnan(x), ..), nan_to_num, fillna) cleanses.  Branches
    join by union.  Sinks: `return e` and `ppc[...] = e` where e mentions a name that was ever tainted (or reads a result
    table directly).  Returns [(stmt, ok)]."""
    res_names = set()
    for st in ast.walk(fi.node):
        if isinstance(st, ast.Assign) and len(st.targets) == 1 and isinstance(st.targets[0], ast.Name):
            v = st.value
            if "res_" in ast.unparse(v) and not any(isinstance(n, ast.Name) and n.id == "net" for n in ast.walk(v)):
                res_names.add(st.targets[0].id)

    def reads(e):
        for n in ast.walk(e):
            if isinstance(n, ast.Subscript) and isinstance(n.value, ast.Name) and n.value.id == "net":
                if "res_" in ast.unparse(n.slice) or (isinstance(n.slice, ast.Name) and n.slice.id in res_names):
                    return True
            if isinstance(n, ast.Attribute) and isinstance(n.value, ast.Name) and n.value.id == "net" and n.attr.startswith("res_"):
                return True
        return False

    def guarded(e):
        t = norm(e, 4000)
        if "isnan(" in t or "fillna(" in t:
            return True
        # nan_to_num without an explicit nan= replacement turns a missing voltage magnitude into 0.0 pu - not a usable start value
        for c in ast.walk(e):
            if isinstance(c, ast.Call) and (call_name(c) or "").endswith("nan_to_num") and any(k.arg == "nan" for k in c.keywords):
                return True
        return False

    ever = set()
    sinks = []

    def mentions(e, names):
        return any(isinstance(n, ast.Name) and n.id in names for n in ast.walk(e))

    def walk(body, tainted):
        tainted = set(tainted)
        for st in body:
            if isinstance(st, ast.If):
                a = walk(st.body, tainted)
                b = walk(st.orelse, tainted)
                tainted = a | b
                continue
            if isinstance(st, (ast.For, ast.While)):
                a = walk(st.body, tainted)
                a = walk(st.body, tainted | a)
                tainted = tainted | a
                continue
            if isinstance(st, (ast.With, ast.Try)):
                tainted = walk(st.body, tainted)
                for h in getattr(st, "handlers", []):
                    tainted |= walk(h.body, tainted)
                tainted = walk(getattr(st, "finalbody", []) or [], tainted)
                continue
            if isinstance(st, ast.Assign) and len(st.targets) == 1:
                t, v = st.targets[0], st.value
                if isinstance(t, ast.Name):
                    if guarded(v):
                        tainted.discard(t.id)
                        if reads(v) or mentions(v, ever):
                            ever.add(t.id)
                    elif reads(v) or mentions(v, tainted):
                        tainted.add(t.id)
                        ever.add(t.id)
                    else:
                        tainted.discard(t.id)
                    continue
                if isinstance(t, ast.Subscript) and isinstance(t.value, ast.Name) and t.value.id in ever and guarded(t.slice):
                    tainted.discard(t.value.id)
                    continue
                if isinstance(t, ast.Subscript) and "ppc" in ast.unparse(t.value):
                    if reads(v) or mentions(v, ever):
                        bad = (reads(v) or mentions(v, tainted)) and not guarded(v)
                        sinks.append((st, not bad))
                    continue
            if isinstance(st, ast.Return) and st.value is not None:
                v = st.value
                if reads(v) or mentions(v, ever):
                    bad = (reads(v) or mentions(v, tainted)) and not guarded(v)
                    sinks.append((st, not bad))
        return tainted

    walk(fi.node.body, set())
    return sinks


def rule_init_nan(ctx):
    R = "INIT-NAN"
    ctx.rule(R, "a start voltage taken from a result table (init from results) is NaN for elements that were unsupplied in the "
                "previous calculation; every such value must pass a NaN replacement (isnan mask / np.where(isnan) / nan_to_num) "
                "before it is returned or stored into ppc[...][.., VM|VA]")
    sites = [("pandapower.build_bus:get_voltage_init_vector", 4),
             ("pandapower.build_bus:_fill_auxiliary_buses", 2),
             ("pandapower.build_branch:_switch_branches", 1)]
    for fq, minimum in sites:
        fi = ctx.repo.func(fq)
        sinks = _res_taint_check(fi)
        if len(sinks) < minimum:
            ctx.fail(f"{fq}: {len(sinks)} uses of result-table values found, {minimum} confirmed by reading")
        for st, ok in sinks:
            ctx.ob(R, f"{fi.module.name}::{fi.qualname}::{norm(st, 60)}", ok,
                   "result values are NaN-replaced before use" if ok else
                   f"a value read from a result table reaches '{norm(st, 60)}' without a NaN replacement: after a calculation with "
                   "unsupplied buses the next power flow starts from NaN and cannot converge", fi.loc(st))
    # three-phase start: a flat start is 1 pu in the positive sequence and 0 in the zero / negative sequence, so a non-zero
    # replacement of a missing magnitude must depend on `sequence`
    fi = ctx.repo.func("pandapower.build_bus:get_voltage_init_vector")
    blk = [n for n in ast.walk(fi.node) if isinstance(n, ast.If) and "res_bus_3ph" in norm(n.test) and isinstance(n.test, ast.Compare)]
    if not blk:
        ctx.fail("get_voltage_init_vector: three-phase branch not found")
    pm = {c: p_ for p_ in ast.walk(blk[0]) for c in ast.iter_child_nodes(p_)}
    n3 = 0
    for st in (x for b_ in blk[0].body for x in ast.walk(b_)):
        if isinstance(st, ast.Assign) and isinstance(st.targets[0], ast.Subscript) and "isnan(" in norm(st.targets[0].slice):
            n3 += 1
            v = st.value
            nonzero_const = isinstance(v, ast.Constant) and isinstance(v.value, (int, float)) and v.value != 0
            seq = "sequence" in names_in(v)
            cur = st
            while cur in pm and not seq:
                cur = pm[cur]
                if isinstance(cur, ast.If) and cur is not blk[0] and "sequence" in names_in(cur.test):
                    seq = True
            ok = seq or not nonzero_const
            ctx.ob(R, f"pandapower.build_bus::get_voltage_init_vector::3ph:{norm(st, 60)}", ok,
                   "the replacement of a missing three-phase start value depends on the sequence" if ok else
                   f"`{norm(st, 70)}` puts {norm(v)} into every sequence: the zero and negative sequence start at 1 pu for buses without a "
                   "previous result and the three-phase power flow diverges or returns NaN", fi.loc(st))
    if n3 < 1:
        ctx.fail("get_voltage_init_vector: NaN replacement of the three-phase start vector not found")
    ctx.require_min(R, 8)


def rule_no_memo(ctx):
    R = "NO-MEMO"
    ctx.rule(R, "no function reachable from the calculation entry points is memoised (functools.lru_cache / cache) and none "
                "stores into a module-level mutable object or rebinds a module-level name: such state survives between calls")
    sw = _walker(ctx.repo)
    for fq in ENTRIES:
        fi = ctx.repo.func(fq)
        sw.run(fi, consts={"recycle": None} if "recycle" in fi.params else None)
    n = 0
    MUT = {"append", "update", "add", "extend", "setdefault", "pop", "clear", "insert", "remove", "popitem"}
    for fq in sorted(sw.visited):
        mod, qn = fq.split(":")
        fi = ctx.repo.module(mod).functions.get(qn)
        if fi is None:
            continue
        n += 1
        m = fi.module
        bad = None
        for d in getattr(fi.node, "decorator_list", []):
            t = ast.unparse(d)
            if "lru_cache" in t or t.split("(")[0].split(".")[-1] in ("cache", "cached_property", "memoize"):
                bad = (d, f"decorated with {t}")
        local = {a.arg for a in fi.node.args.args + fi.node.args.kwonlyargs + fi.node.args.posonlyargs}
        if fi.node.args.vararg:
            local.add(fi.node.args.vararg.arg)
        if fi.node.args.kwarg:
            local.add(fi.node.args.kwarg.arg)
        globs = set()
        for node in walk_no_nested(fi.node):
            if isinstance(node, ast.Global):
                globs |= set(node.names)
            if isinstance(node, ast.Name) and isinstance(node.ctx, ast.Store) and node.id not in globs:
                local.add(node.id)
        for node in walk_no_nested(fi.node):
            if isinstance(node, ast.Name) and isinstance(node.ctx, ast.Store) and node.id in globs:
                bad = (node, f"rebinds the module-level name {node.id}")
            tgt = None
            if isinstance(node, (ast.Assign, ast.AugAssign)):
                ts = node.targets if isinstance(node, ast.Assign) else [node.target]
                for t in ts:
                    if isinstance(t, ast.Subscript) and isinstance(t.value, ast.Name):
                        tgt = t.value.id
                    if isinstance(t, ast.Attribute) and isinstance(t.value, ast.Name) and t.value.id in m.imports and \
                            m.imports[t.value.id][1] is None and t.value.id not in local:
                        pass
            if isinstance(node, ast.Call) and isinstance(node.func, ast.Attribute) and node.func.attr in MUT \
                    and isinstance(node.func.value, ast.Name):
                tgt = node.func.value.id
            if tgt and tgt not in local and tgt in m.assigns and isinstance(
                    m.assigns[tgt], (ast.Dict, ast.List, ast.Set, ast.Call, ast.ListComp, ast.DictComp)):
                if isinstance(m.assigns[tgt], ast.Call) and call_name(m.assigns[tgt]) not in ("dict", "list", "set", "defaultdict", "OrderedDict"):
                    continue
                bad = (node, f"stores into the module-level object {tgt}")
        ctx.ob(R, f"{fi.module.name}::{fi.qualname}::memo", bad is None,
               "no memoisation / module-level store" if bad is None else
               f"{fi.qualname} {bad[1]}: values computed for one calculation are reused by the next", fi.loc(bad[0]) if bad else fi.loc(),
               nontrivial=False)
    ctx.require_min(R, 150)


def run(ctx):
    ctx.assume("decides the typestate of the cached per-network state and the re-initialisation of result tables, not the "
               "convergence of a power flow started from previous results")
    rule_stale(ctx)
    rule_options_reset(ctx)
    rule_recycle_guard(ctx)
    rule_result_init(ctx)
    rule_init_nan(ctx)
    rule_no_memo(ctx)
    rule_leftover_and_recycle(ctx)
    rule_init_scope(ctx)


INIT_KEYS = {"init_results", "init_vm_pu", "init_va_degree"}
INIT_READERS = {
    ("pandapower.build_bus", "_build_bus_ppc"): "writes the start vector into ppc['bus'][:, VM/VA]",
    ("pandapower.build_bus", "_build_bus_dc_ppc"): "start vector of the dc buses",
    ("pandapower.build_bus", "_fill_auxiliary_buses"): "start values of auxiliary buses",
    ("pandapower.build_branch", "_switch_branches"): "start values of the auxiliary buses of open switches",
    ("pandapower.powerflow", "_powerflow"): "verifies the result tables before they are used as start vector",
    ("pandapower.powerflow", "_recycled_powerflow"): "recycled run starts from the stored voltages",
    ("pandapower.optimal_powerflow", "_optimal_powerflow"): "verifies the result tables before they are used as start vector",
    ("pandapower.results", "verify_results"): "falls back to a flat start when the result tables do not fit",
    ("pandapower.pf.run_newton_raphson_pf", "_run_newton_raphson_pf"): "dc start of the angles",
    ("pandapower.pf.runpf_pypower", "_get_options"): "dc start of the angles (pypower algorithms)",
    ("pandapower.timeseries.ts_runpp", "TimeSeriesRunpp.init_timeseries_newton"): "sets the options of the time-series loop",
}


def rule_init_scope(ctx):
    """previous results may enter a calculation only as the start vector: the options that select 'start from results' are consulted by
    the start-vector code only (who-may-read rule, instances confirmed by reading)"""
    R = "INIT-SCOPE"
    ctx.rule(R, "the options init_results / init_vm_pu / init_va_degree are read only by the functions that build, verify or select the "
                "start vector; any other conversion step that branches on them makes converted data (set-points, limits, topology) depend "
                "on whether a previous result exists")
    n = 0
    for mn in ctx.repo.module_names():
        if ".test" in mn or mn.startswith("pandapower.converter"):
            continue
        for fi in ctx.repo.module(mn).functions.values():
            hit = None
            for x in ast.walk(fi.node):
                if isinstance(x, ast.Subscript) and isinstance(x.slice, ast.Constant) and x.slice.value in INIT_KEYS and "options" in ast.unparse(x.value):
                    hit = x
                if isinstance(x, ast.Call) and isinstance(x.func, ast.Attribute) and x.func.attr == "get" and x.args and isinstance(x.args[0], ast.Constant) \
                        and x.args[0].value in INIT_KEYS and "options" in ast.unparse(x.func.value):
                    hit = x
            if hit is None:
                continue
            n += 1
            why = INIT_READERS.get((mn, fi.qualname))
            ctx.ob(R, f"{mn}::{fi.qualname}::reads-init-option", why is not None,
                   f"start-vector code ({why})" if why else
                   f"`{norm(hit, 60)}` is consulted outside the start-vector code: what this function converts now depends on the presence of "
                   "previous results", fi.loc(hit))
    if n < 8:
        ctx.fail(f"INIT-SCOPE: only {n} readers of the init options found (confirmed: 11)")


def rule_leftover_and_recycle(ctx):
    """two ways in which an earlier calculation reaches a later one besides the cached keys: auxiliary rows left in the user's tables
    (the next conversion converts them again) and a recycled run that does not re-run the builder of a changed element"""
    from rules import C08, C12
    R = "NO-LEFTOVER"
    ctx.rule(R, "every calculation entry point that adds the auxiliary dcline generators / b2b VSCs removes them on every normal and "
                "exceptional path (shared with C08 PAIR-AUX): a leftover row is converted again by the next calculation and counted twice")
    n = C08.rule_pair(ctx, "auxiliary dcline generators / b2b VSCs", C08.AUX_ACQ, C08.AUX_REL, C08.ENTRIES + C08.EXTRA_PAIR_ENTRIES + C08.OWNER_ENTRIES, R)
    if n < 8:
        ctx.fail(f"NO-LEFTOVER: only {n} entry points reach the acquire/release functions (confirmed: 11)")
    C12.flag_builders(ctx)   # declares and decides RECYCLE-RERUN
    C08.rule_pair_count(ctx)  # PAIR-COUNT: as many auxiliary generators removed as added


def variants(repo):
    V = Variant
    pf = "pandapower/powerflow.py"
    _opf = "pandapower/optimal_powerflow.py"
    pd = "pandapower/pd2ppc.py"
    au = "pandapower/auxiliary.py"
    bb = "pandapower/build_bus.py"
    br = "pandapower/build_branch.py"
    rs = "pandapower/results.py"
    run_ = "pandapower/run.py"
    return [
        V("OPF clean-up only for one exception type", _opf, replace_once("    except BaseException:\n        # remove the auxiliary elements also when the OPF fails or does not converge", "    except KeyError:\n        # remove the auxiliary elements when a lookup fails"), "NO-LEFTOVER"),
        V("slack voltage written only without results start", "pandapower/build_gen.py", replace_once('    if ppc.get("sequence", 1) == 1:\n        if calculate_voltage_angles:\n            ppc["bus"][eg_buses, VA]', '    if ppc.get("sequence", 1) == 1 and not net["_options"].get("init_results", False):\n        if calculate_voltage_angles:\n            ppc["bus"][eg_buses, VA]'), "INIT-SCOPE"),
        V("clean-up counts only in-service dclines", au, in_function("_clean_up", lambda s: s.replace("dc_gens = net.gen.index[(len(net.gen) - len(net.dcline) * 2):]", "dc_gens = net.gen.index[(len(net.gen) - net.dcline.in_service.sum() * 2):]", 1)), "PAIR-COUNT"),
        V("recycled run refreshes trafo3w only without trafo", pf, replace_once('        if "trafo3w" in lookup:', '        elif "trafo3w" in lookup:'), "RECYCLE-RERUN"),
        V("lookups not reset in conversion", pd, lambda s: _drop_lookup_reset(s, "pd2ppc"), "STALE-READ",
          note="powerflow.py keeps its own reset, so runopp/calc_sc/runpp_3ph fire"),
        V("final masks only with connectivity check", pd, replace_once('        net["_is_elements_final"] = net["_is_elements"]\n', ""), "_is_elements_final"),
        V("options not reset in runpp", au, in_function("_init_runpp_options", replace_once("    net._options = {}\n", "")), "OPTIONS-RESET"),
        V("options not reset in rundcpp (stale read)", au, in_function("_init_rundcpp_options", replace_once("    net._options = {}\n", "")), "STALE-READ"),
        V("recycle without guard", run_, in_function("runpp", replace_once('    if isinstance(kwargs.get("recycle", None), dict) and _internal_stored(net):', '    if kwargs.get("recycle", None):')), "RECYCLE-GUARD"),
        V("pd2ppc_recycle ignores flag", pd, in_function("_pd2ppc_recycle", replace_once("    if not recycle or not net.get(key, None):", "    if not net.get(key, None):")), "_pd2ppc_recycle::recycle="),
        V("is_elements cached", pd, in_function("_pd2ppc", replace_once('    net["_is_elements"] = _select_is_elements_numba(net, sequence=sequence)', '    if "_is_elements" not in net or net["_is_elements"] is None:\n        net["_is_elements"] = _select_is_elements_numba(net, sequence=sequence)')), "_is_elements"),
        V("results not initialised", pf, in_function("_powerflow", replace_once("            init_results(net)\n", "            pass\n")), "init-before-conversion"),
        V("verify for every call", pf, in_function("_powerflow", replace_once('        if not ac or net["_options"]["init_results"]:', "        if True:")), "verify-only-when-init-results"),
        V("result table dropped from the pf list", rs, in_function("get_relevant_elements", replace_once('"load", "load_dc", "motor",', '"load", "load_dc",')), "pf:res_motor"),
        V("bus NaN start", bb, in_function("get_voltage_init_vector", replace_once("                    vm_pu[np.isnan(vm_pu)] = 1.\n", "")), "INIT-NAN"),
        V("aux NaN start", bb, in_function("_fill_auxiliary_buses", replace_once("np.where(np.isnan(vm_res), ppc[bus_table][element_bus_idx, vm], vm_res)", "vm_res")), "INIT-NAN"),
        V("switch aux NaN start", br, in_function("_switch_branches", replace_once("                    init_values = np.where(np.isnan(init_values), 1. if col == VM else 0., init_values)\n", "")), "INIT-NAN"),
        V("switch aux start with nan_to_num (zero magnitude)", br, in_function("_switch_branches", lambda s: s.replace("                    init_values = np.where(np.isnan(init_values), 1. if col == VM else 0., init_values)\n", "                    init_values = np.nan_to_num(init_values)\n", 1)), "INIT-NAN"),
        V("3ph start replaced per magnitude for every sequence", bb, in_function("get_voltage_init_vector", lambda s: s.replace("                voltage_vector[np.isnan(voltage_vector)] = 1. if sequence == 1 else 0.\n", "", 1).replace("                    return np.abs(voltage_vector)\n", "                    vm_pu = np.abs(voltage_vector)\n                    vm_pu[np.isnan(vm_pu)] = 1.\n                    return vm_pu\n", 1).replace("                    return np.angle(voltage_vector) * 180 / np.pi\n", "                    va_degree = np.angle(voltage_vector) * 180 / np.pi\n                    va_degree[np.isnan(va_degree)] = 0.\n                    return va_degree\n", 1)), "3ph:"),
        V("memoised lookup", bb, replace_once("def create_consecutive_bus_lookup(", "_LOOKUP_CACHE = {}\n\n\ndef create_consecutive_bus_lookup("), None,
          note="an unused module-level dict alone is silent"),
        V("memoised conversion", bb, _memo_variant, "NO-MEMO"),
        V("lru_cache on init vector", bb, replace_once("def get_voltage_init_vector(", "import functools\n\n\n@functools.lru_cache(maxsize=None)\ndef get_voltage_init_vector("), "NO-MEMO"),
        # twins
        V("twin: lookups reset only in conversion", pf, lambda s: _drop_lookup_reset_pf(s, None), None,
          note="the reset in _pd2ppc alone is sufficient"),
        V("twin: reset through helper", au, in_function("_init_rundcpp_options", replace_once("    net._options = {}\n", "    net[\"_options\"] = dict()\n")), None),
    ]


def _drop_lookup_reset_pf(src, _):
    i = src.find("        net._pd2ppc_lookups = {")
    if i < 0:
        from ppsa.loader import AnalysisError
        raise AnalysisError("self-test anchor: lookups reset in _powerflow not found")
    j = src.find("}\n", i) + 2
    return src[:i] + src[j:]


def _drop_lookup_reset(src, which):
    if which == "pd2ppc":
        # variant is applied to pd2ppc.py only; powerflow.py keeps its own reset, so runopp/calc_sc/runpp_3ph must fire
        i = src.find('    net["_pd2ppc_lookups"] = {')
        if i < 0:
            from ppsa.loader import AnalysisError
            raise AnalysisError("self-test anchor: lookups reset in _pd2ppc not found")
        j = src.find("}\n", i) + 2
        return src[:i] + src[j:]
    return src


def _memo_variant(src):
    old = "def create_consecutive_bus_lookup(bus_index: np.ndarray):\n"
    if old not in src:
        from ppsa.loader import AnalysisError
        raise AnalysisError("self-test anchor: create_consecutive_bus_lookup not found")
    return src.replace(old, "_LOOKUP_CACHE = {}\n\n\n" + old, 1).replace(
        "def create_bus_lookup(net, bus_index, bus_is_idx, numba):\n",
        "def create_bus_lookup(net, bus_index, bus_is_idx, numba):\n    _LOOKUP_CACHE[len(bus_index)] = bus_is_idx\n", 1)
