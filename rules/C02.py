"""C02 - documented element equivalent circuits: monomial-shape obligations.

Decides, for every per-unit conversion and result formula of the element models, that the
value reaching the sink has the required physical unit, decimal scale, base-power degree and
parallel degree, and depends on the documented parameters.  Does not decide numerical equality
with an independent model.
"""
import ast

from ppsa import facts
from ppsa.obligations import run_cases
from ppsa.selftest import Variant, replace_once, in_function
from ppsa.astutil import calls_in, call_name
from rules._branch_cases import builder_cases, result_cases


def rule_tpi(ctx):
    R = "T-PI"
    ctx.rule(R, "_wye_delta (T->pi conversion) is applied exactly when trafo_model == 't', and 'pi' returns "
                "zero asymmetric shunt parts")
    fi = ctx.repo.func("pandapower.build_branch:_calc_r_x_y_from_dataframe")
    found = False
    for n in ast.walk(fi.node):
        if isinstance(n, ast.If) and isinstance(n.test, ast.Compare) and isinstance(n.test.left, ast.Name) \
                and n.test.left.id == "trafo_model":
            cmpv = n.test.comparators[0]
            if isinstance(cmpv, ast.Constant) and cmpv.value == "pi":
                found = True
                body_calls = {call_name(c) for st in n.body for c in calls_in(st)}
                ctx.ob(R, "pandapower.build_branch::_calc_r_x_y_from_dataframe::pi-branch", "_wye_delta" not in body_calls,
                       "pi branch does not apply the wye-delta conversion", fi.loc(n))
                t_ok = False
                for e in n.orelse:
                    if isinstance(e, ast.If) and isinstance(e.test, ast.Compare) and isinstance(e.test.comparators[0], ast.Constant) \
                            and e.test.comparators[0].value == "t":
                        t_ok = any(call_name(c) == "_wye_delta" for st in e.body for c in calls_in(st))
                ctx.ob(R, "pandapower.build_branch::_calc_r_x_y_from_dataframe::t-branch", t_ok,
                       "t branch returns the result of _wye_delta", fi.loc(n))
    if not found:
        ctx.fail("_calc_r_x_y_from_dataframe: trafo_model dispatch not found")


def run(ctx):
    ctx.assume("shapes: unit dimensions from the column naming convention (_ohm_per_km, _kv, _mva, _percent, ...); "
               "a literal that is an exact power of ten is a unit conversion, every other literal a pure number")
    ctx.assume("decides dimensional / scaling / dependence shape of the element models, not numerical equality")
    R = "MODEL-SHAPE"
    ctx.rule(R, "the value stored in each per-unit ppc column / result column has the required unit dimension, "
                "decimal scale, base-power degree, parallel degree and depends on the documented parameters "
                "(doc/elements/*_par.rst)")
    run_cases(ctx, R, builder_cases() + result_cases(),
              aspects=("units", "base", "par", "vm", "dec", "needs"))
    ctx.require_min(R, 110)
    rule_tpi(ctx)


def variants(repo):
    bb = "pandapower/build_branch.py"
    rb = "pandapower/results_branch.py"
    bu = "pandapower/build_bus.py"
    V = Variant
    return [
        V("line c scale", bb, replace_once('line["c_nf_per_km"].values * 1e-9', 'line["c_nf_per_km"].values * 1e-6'), "line:store:ppc.branch.BR_B"),
        V("line g scale", bb, replace_once('line["g_us_per_km"].values * 1e-6', 'line["g_us_per_km"].values * 1e-9'), "line:store:ppc.branch.BR_G"),
        V("line r parallel", bb, replace_once('line["r_ohm_per_km"].values * length_km / baseR / parallel', 'line["r_ohm_per_km"].values * length_km / baseR'), "line:store:ppc.branch.BR_R"),
        V("line x length", bb, replace_once('line["x_ohm_per_km"].values * length_km / baseR / parallel', 'line["x_ohm_per_km"].values / baseR / parallel'), "line:store:ppc.branch.BR_X"),
        V("line b parallel inverse", bb, replace_once("* 1e-9 * baseR * length_km * parallel", "* 1e-9 * baseR * length_km / parallel"), "line:store:ppc.branch.BR_B"),
        V("baseR kv not squared", bb, in_function("_calc_line_parameter", replace_once("np.square(\n        base_kv) / net.sn_mva", "base_kv / net.sn_mva")), "line:store:ppc.branch.BR_R"),
        V("trafo vk percent", bb, in_function("_calc_r_x_from_dataframe", replace_once("z_sc = vk_percent / 100. / sn_trafo_mva * tap_lv", "z_sc = vk_percent / sn_trafo_mva * tap_lv")), "store:ppc.branch.BR_X"),
        V("trafo r parallel", bb, in_function("_calc_r_x_from_dataframe", replace_once("return r_sc / parallel, x_sc / parallel", "return r_sc, x_sc / parallel")), "store:ppc.branch.BR_R"),
        V("trafo pfe kw->mw", bb, in_function("_calc_y_from_dataframe", replace_once('else get_trafo_values(trafo_df, "pfe_kw") * 1e-3', 'else get_trafo_values(trafo_df, "pfe_kw")')), "y-from-df:ret:0"),
        V("trafo i0 percent", bb, in_function("_calc_y_from_dataframe", replace_once("ym_mva = i0 / 100 * trafo_sn_mva", "ym_mva = i0 * trafo_sn_mva")), "y-from-df:ret:1"),
        V("trafo y base", bb, in_function("_calc_y_from_dataframe", replace_once("g_pu = g_mva / vnl_squared * baseZ * parallel", "g_pu = g_mva / vnl_squared / baseZ * parallel")), "y-from-df:ret:0"),
        V("trafo rating parallel", bb, in_function("_calc_trafo_parameter", replace_once("max_load / 100. * sn_mva * df * parallel", "max_load / 100. * sn_mva * df")), "store:ppc.branch.RATE_A"),
        V("trafo tap ignores lv side ratio", bb, in_function("_calc_nominal_ratio_from_dataframe", replace_once("tap_rat = vn_hv_kv / vn_lv_kv", "tap_rat = vn_hv_kv")), "nominal-ratio:ret"),
        V("xward base", bb, in_function("_calc_xward_parameter", lambda s: s.replace('np.square(get_values(ppc["bus"][:, BASE_KV]', '(get_values(ppc["bus"][:, BASE_KV]', 1)), "xward:store:ppc.branch.BR_R"),
        V("impedance base inverse", bb, in_function("_calc_impedance_parameters_from_dataframe", replace_once("r_f = (rij * sn_factor) / sn_impedance * sn_net", "r_f = (rij * sn_factor) * sn_impedance / sn_net")), "impedance:store:ppc.branch.BR_R"),
        V("impedance shunt base", bb, in_function("_calc_impedance_parameters_from_dataframe", replace_once("b_t = 2 * (bj * sn_factor) * sn_impedance / sn_net", "b_t = 2 * (bj * sn_factor) / sn_impedance * sn_net")), "impedance:store:ppc.branch.BR_B_ASYM"),
        V("line loading no percent", rb, in_function("_get_line_results", lambda s: s.replace("* 100", "", 1)), "line-res:store:net.res_line.loading_percent"),
        V("branch flow sqrt3", rb, in_function("_get_branch_flows", replace_once("i_ft = s_ft / vm_ft / np.sqrt(3)", "i_ft = s_ft * vm_ft / np.sqrt(3)")), "branch-flows:ret:0"),
        V("shunt vratio not squared", bu, in_function("_calc_shunts_and_add_on_ppc", replace_once('s["vn_kv"].values) ** 2 * base_multiplier', 's["vn_kv"].values) * base_multiplier')), None),
        V("trafo3w pfe scale", bu, in_function("_calc_shunts_and_add_on_ppc", replace_once('pfe_mw = trafo3w["pfe_kw"].values * 1e-3', 'pfe_mw = trafo3w["pfe_kw"].values * 1e-6')), "shunt:store:ppc.bus.GS"),
        V("t model not applied", bb, in_function("_calc_r_x_y_from_dataframe", replace_once("return _wye_delta(r, x, g, b, r_ratio, x_ratio)", "return r, x, g, b, 0, 0")), "T-PI"),
        V("twin: reorder factors", bb, replace_once('line["r_ohm_per_km"].values * length_km / baseR / parallel', 'length_km * line["r_ohm_per_km"].values / parallel / baseR'), None),
        V("twin: helper variable", bb, in_function("_calc_r_x_from_dataframe", replace_once("z_sc = vk_percent / 100. / sn_trafo_mva * tap_lv", "vk_rel = vk_percent / 100.\n    z_sc = vk_rel / sn_trafo_mva * tap_lv")), None),
    ]
