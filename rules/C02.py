"""C02 - documented element equivalent circuits: monomial-shape obligations.

Decides, for every per-unit conversion and result formula of the element models, that the
value reaching the sink has the required physical unit, decimal scale, base-power degree and
parallel degree, and depends on the documented parameters.  Does not decide numerical equality
with an independent model.
"""
import ast

from ppsa import facts
from ppsa.obligations import run_cases
from ppsa.selftest import Variant, replace_once, in_function
from ppsa.astutil import calls_in, call_name
from rules._branch_cases import builder_cases, result_cases


def rule_tpi(ctx):
    R = "T-PI"
    ctx.rule(R, "_wye_delta (T->pi conversion) is applied exactly when trafo_model == 't', and 'pi' returns "
                "zero asymmetric shunt parts")
    fi = ctx.repo.func("pandapower.build_branch:_calc_r_x_y_from_dataframe")
    found = False
    for n in ast.walk(fi.node):
        if isinstance(n, ast.If) and isinstance(n.test, ast.Compare) and isinstance(n.test.left, ast.Name) \
                and n.test.left.id == "trafo_model":
            cmpv = n.test.comparators[0]
            if isinstance(cmpv, ast.Constant) and cmpv.value == "pi":
                found = True
                body_calls = {call_name(c) for st in n.body for c in calls_in(st)}
                ctx.ob(R, "pandapower.build_branch::_calc_r_x_y_from_dataframe::pi-branch", "_wye_delta" not in body_calls,
                       "pi branch does not apply the wye-delta conversion", fi.loc(n))
                t_ok = False
                for e in n.orelse:
                    if isinstance(e, ast.If) and isinstance(e.test, ast.Compare) and isinstance(e.test.comparators[0], ast.Constant) \
                            and e.test.comparators[0].value == "t":
                        t_ok = any(call_name(c) == "_wye_delta" for st in e.body for c in calls_in(st))
                ctx.ob(R, "pandapower.build_branch::_calc_r_x_y_from_dataframe::t-branch", t_ok,
                       "t branch returns the result of _wye_delta", fi.loc(n))
    if not found:
        ctx.fail("_calc_r_x_y_from_dataframe: trafo_model dispatch not found")
    # the T->pi conversion divides by the magnetising admittance g + jb: the rows it converts are those where g or b is not zero
    fw = ctx.repo.func("pandapower.build_branch:_wye_delta")
    tid = [n for n in ast.walk(fw.node) if isinstance(n, ast.Assign) and isinstance(n.targets[0], ast.Name) and n.targets[0].id == "tidx"]
    if len(tid) != 1:
        ctx.fail("_wye_delta: row mask tidx not found")
    nm = {x.id for x in ast.walk(tid[0].value) if isinstance(x, ast.Name)}
    ok = {"g", "b"} <= nm and any(isinstance(x, ast.BinOp) and isinstance(x.op, ast.BitOr) for x in ast.walk(tid[0].value))
    ctx.ob(R, "pandapower.build_branch::_wye_delta::converted-rows", ok,
           "rows with g != 0 or b != 0 are converted" if ok else
           f"`tidx = {ast.unparse(tid[0].value)}`: transformers whose magnetising branch has only a conductance (or only a susceptance) keep "
           "the T-model values in the pi-model columns", fw.loc(tid[0]))


def rule_shift_direction(ctx):
    """tap changers on the lv side turn the phase the other way: inside the loops `for side, vn, direction in [("hv", vnh, 1),
    ("lv", vnl, -1)]` every contribution to the phase shift carries the factor `direction` (sibling agreement of the two
    alternatives of the ideal phase shifter and of the two generations of the code)"""
    R = "SHIFT-DIRECTION"
    ctx.rule(R, "every term added to trafo_shift inside a loop over (side, vn, direction) contains the factor `direction` - in both "
                "alternatives of an np.where as well")
    fi = ctx.repo.func("pandapower.build_branch:_calc_tap_from_dataframe")
    n = 0
    for loop in ast.walk(fi.node):
        if not (isinstance(loop, ast.For) and isinstance(loop.target, ast.Tuple) and any(isinstance(e, ast.Name) and e.id == "direction" for e in loop.target.elts)):
            continue
        pairs = None
        try:
            pairs = [(ast.literal_eval(t.elts[0]), ast.literal_eval(t.elts[2])) for t in loop.iter.elts]
        except Exception:
            pass
        ok_pairs = pairs is not None and dict(pairs) == {"hv": 1, "lv": -1}
        ctx.ob(R, f"pandapower.build_branch::_calc_tap_from_dataframe::loop{n}:pairs", ok_pairs,
               "hv taps count +1, lv taps -1" if ok_pairs else f"side/direction pairs are {pairs}", fi.loc(loop))
        for st in ast.walk(loop):
            if isinstance(st, ast.AugAssign) and "trafo_shift" in ast.unparse(st.target):
                v = st.value
                alts = [v]
                if isinstance(v, ast.Call) and isinstance(v.func, ast.Attribute) and v.func.attr == "where" and len(v.args) == 3:
                    alts = [v.args[1], v.args[2]]
                for k, a in enumerate(alts):
                    n += 1
                    has = any(isinstance(x, ast.Name) and x.id == "direction" for x in ast.walk(a))
                    if not has and isinstance(a, ast.Name):
                        # a value prepared in both branches of `if direction == 1: ... else: ...` (or a test on `side`)
                        for cond in ast.walk(loop):
                            if isinstance(cond, ast.If) and {"direction", "side"} & {x.id for x in ast.walk(cond.test) if isinstance(x, ast.Name)} and cond.orelse:
                                in_then = any(isinstance(y, ast.Assign) and any(isinstance(t, ast.Name) and t.id == a.id for t in y.targets) for b in cond.body for y in ast.walk(b))
                                in_else = any(isinstance(y, ast.Assign) and any(isinstance(t, ast.Name) and t.id == a.id for t in y.targets) for b in cond.orelse for y in ast.walk(b))
                                if in_then and in_else:
                                    has = True
                    ctx.ob(R, f"pandapower.build_branch::_calc_tap_from_dataframe::{ast.unparse(st.target)[:40]}:{n}", has,
                           "the shift contribution carries the side direction" if has else
                           f"`{ast.unparse(a)[:90]}` is added to the phase shift without the factor `direction`: a tap changer on the lv side "
                           "turns the phase the wrong way", fi.loc(st))
    if n < 6:
        ctx.fail(f"SHIFT-DIRECTION: only {n} shift contributions found inside direction loops (confirmed: 6)")


def run(ctx):
    ctx.assume("shapes: unit dimensions from the column naming convention (_ohm_per_km, _kv, _mva, _percent, ...); "
               "a literal that is an exact power of ten is a unit conversion, every other literal a pure number")
    ctx.assume("decides dimensional / scaling / dependence shape of the element models, not numerical equality")
    R = "MODEL-SHAPE"
    ctx.rule(R, "the value stored in each per-unit ppc column / result column has the required unit dimension, "
                "decimal scale, base-power degree, parallel degree and depends on the documented parameters "
                "(doc/elements/*_par.rst)")
    run_cases(ctx, R, builder_cases() + result_cases(),
              aspects=("units", "base", "par", "vm", "dec", "needs"))
    ctx.require_min(R, 110)
    rule_tpi(ctx)
    rule_shift_direction(ctx)
    rule_t3w_side_base(ctx)
    rule_tap_types(ctx)
    from rules.C03 import rule_shortcut_guard
    rule_shortcut_guard(ctx)
    from rules import _lints
    _lints.dup_sweep(ctx, "DUP-OPERAND", ["pandapower.pypower.makeYbus", "pandapower.pf.makeYbus_numba", "pandapower.build_branch",
                                         "pandapower.results_branch", "pandapower.pypower.makeBdc"], minimum=10)
    RDC = "DC-CACHE"
    ctx.rule(RDC, "recycled DC power flow: when the phase shift changed, every cached key that the unchanged-shift branch reads (Pbusinj, "
                  "Pfinj) and the compared key (shift) are refreshed; the full build stores all keys")
    _lints.dc_cache_refresh(ctx, RDC)


def rule_t3w_side_base(ctx):
    """three-winding transformer: the side-based short-circuit voltages vk_hv (hv-mv), vk_mv (mv-lv), vk_lv (lv-hv) are related to the
    smaller rated power of the two windings involved before the star conversion"""
    import ast
    from ppsa.astutil import norm
    R = "T3W-SIDE-BASE"
    ctx.rule(R, "build_branch.z_br_to_bus_vector divides row k of the side-based impedances by min over the two windings of pair k - "
                "(hv,mv), (mv,lv), (hv,lv) - and multiplies by the hv rating: three instances of one formula")
    fi = ctx.repo.func("pandapower.build_branch:z_br_to_bus_vector")
    ret = next((x.value for x in ast.walk(fi.node) if isinstance(x, ast.Return)), None)
    arr = next((x for x in ast.walk(ret) if isinstance(x, ast.Call) and norm(x.func, 20).endswith("array") and x.args and isinstance(x.args[0], (ast.List, ast.Tuple))), None) if ret is not None else None
    if arr is None or len(arr.args[0].elts) != 3:
        ctx.fail("z_br_to_bus_vector: np.array([...three rows...]) not found")
    want = {0: "0,1", 1: "1,2", 2: "0,2"}
    for k, e in enumerate(arr.args[0].elts):
        t = norm(e, 120).replace(" ", "")
        ok = False
        if isinstance(e, ast.BinOp) and isinstance(e.op, ast.Div):
            num, den = norm(e.left, 40).replace(" ", ""), e.right
            idx = {c.value for c in ast.walk(den) if isinstance(c, ast.Constant) and isinstance(c.value, int)} - ({0} if "axis=0" in norm(den, 80).replace(" ", "") and want[k] != "0,1" and want[k] != "0,2" else set())
            # integer constants of the divisor: the two winding rows (axis=0 contributes a literal 0 which is also a winding row for pairs with hv)
            pair = {int(x) for x in want[k].split(",")}
            ok = num.startswith(f"z[{k},") and "min" in norm(den, 80) and "sn" in norm(den, 80) and (idx == pair or idx == pair | {0})
        ctx.ob(R, f"pandapower.build_branch::z_br_to_bus_vector::row{k}", ok,
               f"row {k}: {t}" if ok else f"row {k} is `{t}`, expected z[{k},:] / min(sn of windings {want[k]}): a winding pair whose first rating is "
               "not the smaller one gets the wrong base", fi.loc(e))
    t = norm(ret, 400).replace(" ", "")
    ctx.ob(R, "pandapower.build_branch::z_br_to_bus_vector::hv-base", t.startswith("sn[0,:]*np.array("), "result related to the hv rating sn[0]", fi.loc())


def rule_tap_types(ctx):
    """every tap changer type of the schema domain is handled by the ratio / angle computation"""
    import ast
    from ppsa import facts
    R = "TAP-TYPES"
    ctx.rule(R, "every value of the schema domain of trafo.tap_changer_type ('Ratio', 'Symmetrical', 'Ideal'; 'Tabular' is handled through "
                "tap_dependency_table) is compared with tap_changer_type in _calc_tap_from_dataframe: a type that no mask matches is "
                "calculated at the neutral ratio and angle")
    schema = facts.schema_of(ctx.repo)
    dom = schema.columns["trafo"]["tap_changer_type"].isin or []
    if len(dom) < 3:
        ctx.fail(f"schema domain of trafo.tap_changer_type not readable ({dom})")
    fi = ctx.repo.func("pandapower.build_branch:_calc_tap_from_dataframe")
    seen = set()
    for c in ast.walk(fi.node):
        if isinstance(c, ast.Compare) and isinstance(c.left, ast.Name) and c.left.id == "tap_changer_type":
            for k in c.comparators:
                if isinstance(k, ast.Constant) and isinstance(k.value, str):
                    seen.add(k.value)
    for t in dom:
        if t == "Tabular":
            continue
        ctx.ob(R, f"pandapower.build_branch::_calc_tap_from_dataframe::{t}", t in seen,
               f"tap changer type {t!r} is matched by a mask" if t in seen else
               f"tap changer type {t!r} of the schema domain is matched by no mask: such transformers keep the neutral ratio and angle", fi.loc())


def variants(repo):
    bb = "pandapower/build_branch.py"
    rb = "pandapower/results_branch.py"
    bu = "pandapower/build_bus.py"
    V = Variant
    return [
        V("recycled dc run keeps the old branch injection", "pandapower/pf/run_dc_pf.py", replace_once("            ppci['internal']['Pfinj'] = Pfinj\n    else:", "    else:"), "DC-CACHE"),
        V("recycled dc run forgets the compared shift", "pandapower/pf/run_dc_pf.py", replace_once("            ppci['internal']['shift'] = branch[:, SHIFT]\n            ppci['internal']['Pbusinj'] = Pbusinj\n            ppci['internal']['Pfinj'] = Pfinj\n", "            ppci['internal'].update(Pbusinj=Pbusinj, Pfinj=Pfinj)\n"), "DC-CACHE"),
        V("twin: cache refreshed through update()", "pandapower/pf/run_dc_pf.py", replace_once("            ppci['internal']['shift'] = branch[:, SHIFT]\n            ppci['internal']['Pbusinj'] = Pbusinj\n            ppci['internal']['Pfinj'] = Pfinj\n", "            ppci['internal'].update(shift=branch[:, SHIFT], Pbusinj=Pbusinj, Pfinj=Pfinj)\n"), None),
        V("trafo3w side base assumes hv is the largest winding", bb, replace_once("z[0, :] / sn[[0, 1], :].min(axis=0)", "z[0, :] / sn[1, :]"), "T3W-SIDE-BASE"),
        V("trafo3w lv-hv pair uses mv", bb, replace_once("z[2, :] / sn[[0, 2], :].min(axis=0)", "z[2, :] / sn[[1, 2], :].min(axis=0)"), "T3W-SIDE-BASE"),
        V("twin: side base with np.minimum", bb, replace_once("z[1, :] /\n                                sn[[1, 2], :].min(axis=0)", "z[1, :] /\n                                np.minimum(sn[1, :], sn[2, :])"), None),
        V("symmetrical tap changers not regulated", bb, replace_once('tap_complex = np.logical_and(np.logical_or(tap_changer_type == "Ratio",\n                                                           tap_changer_type == "Symmetrical"), tap_no_table)', 'tap_complex = np.logical_and(tap_changer_type == "Ratio", tap_no_table)'), "TAP-TYPES"),
        V("fast slack result path with conductance shunts", "pandapower/pf/run_newton_raphson_pf.py", replace_once('shunt_in_net = any(ppci["bus"][:, BS]) or any(ppci["bus"][:, GS])', 'shunt_in_net = any(ppci["bus"][:, BS])'), "SHORTCUT-GUARD"),
        V("magnetising branch ignores the lv tap ratio", bb, in_function("_calc_y_from_dataframe", lambda s: s.replace(" / np.square(vn_trafo_lv / vn_lv_kv)", "")), "y-from-df"),
        V("ideal phase shifter percent form without direction", bb, in_function("_calc_tap_from_dataframe", replace_once("(direction * 2 * np.rad2deg(np.arcsin(tap_diff[mask_ideal] *", "(2 * np.rad2deg(np.arcsin(tap_diff[mask_ideal] *")), "SHIFT-DIRECTION"),
        V("wye delta only for rows with susceptance", bb, in_function("_wye_delta", replace_once("tidx = (g != 0) | (b != 0)", "tidx = b != 0")), "converted-rows"),
        V("asymmetry guard tests r twice", "pandapower/pypower/makeYbus.py", replace_once("if any(branch[:, BR_R_ASYM]) or any(branch[:, BR_X_ASYM]):", "if any(branch[:, BR_R_ASYM]) or any(branch[:, BR_R_ASYM]):"), "DUP-OPERAND"),
        V("line c scale", bb, replace_once('line["c_nf_per_km"].values * 1e-9', 'line["c_nf_per_km"].values * 1e-6'), "line:store:ppc.branch.BR_B"),
        V("line g scale", bb, replace_once('line["g_us_per_km"].values * 1e-6', 'line["g_us_per_km"].values * 1e-9'), "line:store:ppc.branch.BR_G"),
        V("line r parallel", bb, replace_once('line["r_ohm_per_km"].values * length_km / baseR / parallel', 'line["r_ohm_per_km"].values * length_km / baseR'), "line:store:ppc.branch.BR_R"),
        V("line x length", bb, replace_once('line["x_ohm_per_km"].values * length_km / baseR / parallel', 'line["x_ohm_per_km"].values / baseR / parallel'), "line:store:ppc.branch.BR_X"),
        V("line b parallel inverse", bb, replace_once("* 1e-9 * baseR * length_km * parallel", "* 1e-9 * baseR * length_km / parallel"), "line:store:ppc.branch.BR_B"),
        V("baseR kv not squared", bb, in_function("_calc_line_parameter", replace_once("np.square(\n        base_kv) / net.sn_mva", "base_kv / net.sn_mva")), "line:store:ppc.branch.BR_R"),
        V("trafo vk percent", bb, in_function("_calc_r_x_from_dataframe", replace_once("z_sc = vk_percent / 100. / sn_trafo_mva * tap_lv", "z_sc = vk_percent / sn_trafo_mva * tap_lv")), "store:ppc.branch.BR_X"),
        V("trafo r parallel", bb, in_function("_calc_r_x_from_dataframe", replace_once("return r_sc / parallel, x_sc / parallel", "return r_sc, x_sc / parallel")), "store:ppc.branch.BR_R"),
        V("trafo pfe kw->mw", bb, in_function("_calc_y_from_dataframe", replace_once('else get_trafo_values(trafo_df, "pfe_kw") * 1e-3', 'else get_trafo_values(trafo_df, "pfe_kw")')), "y-from-df:ret:0"),
        V("trafo i0 percent", bb, in_function("_calc_y_from_dataframe", replace_once("ym_mva = i0 / 100 * trafo_sn_mva", "ym_mva = i0 * trafo_sn_mva")), "y-from-df:ret:1"),
        V("trafo y base", bb, in_function("_calc_y_from_dataframe", replace_once("g_pu = g_mva / vnl_squared * baseZ * parallel", "g_pu = g_mva / vnl_squared / baseZ * parallel")), "y-from-df:ret:0"),
        V("trafo rating parallel", bb, in_function("_calc_trafo_parameter", replace_once("max_load / 100. * sn_mva * df * parallel", "max_load / 100. * sn_mva * df")), "store:ppc.branch.RATE_A"),
        V("trafo tap ignores lv side ratio", bb, in_function("_calc_nominal_ratio_from_dataframe", replace_once("tap_rat = vn_hv_kv / vn_lv_kv", "tap_rat = vn_hv_kv")), "nominal-ratio:ret"),
        V("xward base", bb, in_function("_calc_xward_parameter", lambda s: s.replace('np.square(get_values(ppc["bus"][:, BASE_KV]', '(get_values(ppc["bus"][:, BASE_KV]', 1)), "xward:store:ppc.branch.BR_R"),
        V("impedance base inverse", bb, in_function("_calc_impedance_parameters_from_dataframe", replace_once("r_f = (rij * sn_factor) / sn_impedance * sn_net", "r_f = (rij * sn_factor) * sn_impedance / sn_net")), "impedance:store:ppc.branch.BR_R"),
        V("impedance shunt base", bb, in_function("_calc_impedance_parameters_from_dataframe", replace_once("b_t = 2 * (bj * sn_factor) * sn_impedance / sn_net", "b_t = 2 * (bj * sn_factor) / sn_impedance * sn_net")), "impedance:store:ppc.branch.BR_B_ASYM"),
        V("line loading no percent", rb, in_function("_get_line_results", lambda s: s.replace("* 100", "", 1)), "line-res:store:net.res_line.loading_percent"),
        V("branch flow sqrt3", rb, in_function("_get_branch_flows", replace_once("i_ft = s_ft / vm_ft / np.sqrt(3)", "i_ft = s_ft * vm_ft / np.sqrt(3)")), "branch-flows:ret:0"),
        V("shunt vratio not squared", bu, in_function("_calc_shunts_and_add_on_ppc", replace_once('s["vn_kv"].values) ** 2 * base_multiplier', 's["vn_kv"].values) * base_multiplier')), None),
        V("trafo3w pfe scale", bu, in_function("_calc_shunts_and_add_on_ppc", replace_once('pfe_mw = trafo3w["pfe_kw"].values * 1e-3', 'pfe_mw = trafo3w["pfe_kw"].values * 1e-6')), "shunt:store:ppc.bus.GS"),
        V("t model not applied", bb, in_function("_calc_r_x_y_from_dataframe", replace_once("return _wye_delta(r, x, g, b, r_ratio, x_ratio)", "return r, x, g, b, 0, 0")), "T-PI"),
        V("twin: reorder factors", bb, replace_once('line["r_ohm_per_km"].values * length_km / baseR / parallel', 'length_km * line["r_ohm_per_km"].values / parallel / baseR'), None),
        V("twin: helper variable", bb, in_function("_calc_r_x_from_dataframe", replace_once("z_sc = vk_percent / 100. / sn_trafo_mva * tap_lv", "vk_rel = vk_percent / 100.\n    z_sc = vk_rel / sn_trafo_mva * tap_lv")), None),
    ]
