"""Structural clauses shared by C14 (sequential) and C15 (parallel) contingency analysis."""
import ast
import re

from ppsa.astutil import norm, names_in, calls_in, call_name, stmts_in_order, kwarg


def _is_inservice_store(st, value):
    return (isinstance(st, ast.Assign) and isinstance(st.value, ast.Constant) and st.value.value is value
            and "in_service" in ast.unparse(st.targets[0]) and ".at[" in ast.unparse(st.targets[0]))


def rule_restore(ctx, R, fi):
    """every `net[element].at[i, 'in_service'] = False` is immediately followed by a try whose finally sets it True"""
    n = 0
    for node in ast.walk(fi.node):
        body = getattr(node, "body", None)
        if not isinstance(body, list):
            continue
        for blk in (body, getattr(node, "orelse", [])):
            for i, st in enumerate(blk):
                if not _is_inservice_store(st, False):
                    continue
                if "net_copy" in ast.unparse(st.targets[0]):
                    continue
                n += 1
                nxt = blk[i + 1] if i + 1 < len(blk) else None
                ok = isinstance(nxt, ast.Try) and any(_is_inservice_store(s, True) and
                                                      ast.unparse(s.targets[0]) == ast.unparse(st.targets[0]) for s in nxt.finalbody)
                ctx.ob(R, f"{fi.module.name}::{fi.qualname}::restore:{norm(st.targets[0], 60)}", ok,
                       "outage is restored in the finally block of the directly following try" if ok else
                       "in_service = False is not followed by try/finally restoring the same cell", fi.loc(st))
    return n


def rule_order(ctx, R, fi, update_name):
    """the N-0 evaluation and update(nminus1=False) come after every N-1 update; write_to_net never overwrites"""
    sts = list(stmts_in_order(fi.node.body))
    pos_n1, pos_n0 = [], []
    for i, st in enumerate(sts):
        if isinstance(st, (ast.For, ast.If, ast.With, ast.Try, ast.While)):
            continue
        for c in calls_in(st):
            if call_name(c) == update_name:
                k = kwarg(c, "nminus1")
                if isinstance(k, ast.Constant):
                    (pos_n1 if k.value else pos_n0).append(i)
    ok = bool(pos_n1) and len(pos_n0) == 1 and max(pos_n1) < pos_n0[0]
    ctx.ob(R, f"{fi.module.name}::{fi.qualname}::n0-after-n1", ok,
           f"{len(pos_n1)} N-1 update site(s) precede the single N-0 update" if ok else
           f"N-0 update is not the last update (N-1 sites {pos_n1}, N-0 sites {pos_n0})", fi.loc())
    # the evaluation call directly before the N-0 update uses pf_options (not the N-1 options)
    if pos_n0:
        prev = sts[pos_n0[0] - 1]
        t = ast.unparse(prev)
        ok = "contingency_evaluation_function(net" in t and "pf_options_nminus1" not in t and "pf_options" in t
        ctx.ob(R, f"{fi.module.name}::{fi.qualname}::n0-evaluation", ok,
               "N-0 update is preceded by an evaluation of the intact net with pf_options" if ok else
               f"statement before the N-0 update is '{norm(prev, 70)}'", fi.loc(prev))
    # write_to_net guard
    guard = False
    for node in ast.walk(fi.node):
        if isinstance(node, ast.For) and "element_results.items()" in ast.unparse(node.iter):
            first = node.body[0] if node.body else None
            if isinstance(first, ast.If) and any(isinstance(x, ast.Continue) for x in first.body):
                t = ast.unparse(first.test)
                guard = "columns" in t and "var" in t
    ctx.ob(R, f"{fi.module.name}::{fi.qualname}::write-guard", guard,
           "write_to_net skips variables that already are result columns (N-0 values are never overwritten)" if guard else
           "write_to_net loop has no 'already a column' guard", fi.loc())


def _effective_texts(fn, var, assume_parallel):
    """possible defining expressions of `var` at the end of the innermost block that assigns it, with earlier values of `var`
    substituted, following `if ... parallel_results ...` tests under the assumption (True/False); unknown tests take both sides"""
    def decide(test):
        t = ast.unparse(test)
        if "parallel_results" not in t:
            return None
        if isinstance(test, ast.Name):
            return assume_parallel
        if isinstance(test, ast.UnaryOp) and isinstance(test.op, ast.Not) and isinstance(test.operand, ast.Name):
            return not assume_parallel
        if isinstance(test, ast.BoolOp) and isinstance(test.op, ast.And) and any(isinstance(v, ast.Name) and v.id == "parallel_results" for v in test.values):
            return False if not assume_parallel else None
        return None

    def walk(body, texts):
        for st in body:
            if isinstance(st, ast.Assign) and any(isinstance(t, ast.Name) and t.id == var for t in st.targets):
                v = st.value
                if isinstance(v, ast.IfExp) and decide(v.test) is not None:
                    v = v.body if decide(v.test) else v.orelse
                src = ast.unparse(v)
                new = set()
                for prev in (texts or {""}):
                    new.add(re.sub(rf"\b{var}\b", f"({prev})" if prev else var, src))
                texts = new
            elif isinstance(st, ast.If):
                d = decide(st.test)
                if d is True:
                    texts = walk(st.body, texts)
                elif d is False:
                    texts = walk(st.orelse, texts)
                else:
                    texts = walk(st.body, set(texts)) | walk(st.orelse, set(texts))
            elif isinstance(st, (ast.For, ast.While, ast.With, ast.Try)):
                texts = walk(st.body, texts)
        return texts
    return walk(fn.body, set())


def rule_update(ctx, R, fu, parallel=False):
    """masks of the min/max update, NaN-safe cause attribution, overload attribution"""
    mod, qn = fu.module.name, fu.qualname
    # --- where mask
    where = None
    for c in calls_in(fu.node):
        w = kwarg(c, "where")
        if w is not None and kwarg(c, "out") is not None:
            where = (c, w)
    if where is None:
        ctx.fail(f"{qn}: min/max update call with where= not found")
    wtxt = ast.unparse(where[1])
    wnames = set(names_in(where[1]))
    # resolve local names used in the where expression
    defs = {}
    for n in ast.walk(fu.node):
        if isinstance(n, ast.Assign) and len(n.targets) == 1 and isinstance(n.targets[0], ast.Name):
            defs.setdefault(n.targets[0].id, []).append(n.value)
    full = wtxt
    for nm in list(wnames):
        for d in defs.get(nm, []):
            full += " | " + ast.unparse(d)
    ok_nan = "isnan(val)" in full.replace("np.", "")
    ctx.ob(R, f"{mod}::{qn}::where-nan", ok_nan, "min/max update excludes NaN results" if ok_nan else f"where mask '{wtxt}' does not exclude NaN", fu.loc(where[0]))
    if not parallel:
        ok = "in_service" in full
        ctx.ob(R, f"{mod}::{qn}::where-own-outage", ok,
               "min/max update excludes out-of-service elements (the element's own outage)" if ok else
               f"where mask '{wtxt}' does not depend on in_service", fu.loc(where[0]))
    else:
        # sibling agreement: both alternatives of the mask must exclude the outaged element
        seq_txt, par_txt = [], []
        for n in ast.walk(fu.node):
            if isinstance(n, ast.Assign) and any(isinstance(t, ast.Name) and t.id == "where_mask" for t in n.targets):
                if isinstance(n.value, ast.IfExp) and "parallel_results" in ast.unparse(n.value.test):
                    neg = isinstance(n.value.test, ast.UnaryOp)
                    seq_txt.append(ast.unparse(n.value.body if neg else n.value.orelse))
                    par_txt.append(ast.unparse(n.value.orelse if neg else n.value.body))
        for n in ast.walk(fu.node):
            if isinstance(n, ast.If) and "parallel_results" in ast.unparse(n.test):
                for st in n.body:
                    for a_ in ast.walk(st):
                        if isinstance(a_, ast.Assign) and any(isinstance(t, ast.Name) and t.id == "where_mask" for t in a_.targets):
                            par_txt.append(ast.unparse(a_.value) + " ## " + ast.unparse(n.test))
        cond_nodes = {id(a_) for n in ast.walk(fu.node) if isinstance(n, ast.If) for st in n.body + n.orelse for a_ in ast.walk(st)}
        for n in ast.walk(fu.node):
            if isinstance(n, ast.Assign) and any(isinstance(t, ast.Name) and t.id == "where_mask" for t in n.targets) \
                    and not isinstance(n.value, ast.IfExp):
                # assignments not nested under a parallel_results test are the common / sequential base
                under_par = any(isinstance(m, ast.If) and "parallel_results" in ast.unparse(m.test) and
                                any(n is x for st in m.body for x in ast.walk(st)) for m in ast.walk(fu.node))
                if not under_par:
                    seq_txt.append(ast.unparse(n.value))
        if not seq_txt and not par_txt:
            ctx.fail(f"{qn}: assignments of where_mask not found")
        ok = any("in_service" in t for t in seq_txt)
        ctx.ob(R, f"{mod}::{qn}::where-own-outage:sequential", ok,
               "sequential branch excludes the outaged element (in_service mask of the mutated net)" if ok else
               f"sequential mask {seq_txt} does not depend on in_service", fu.loc(where[0]))
        # permanently out-of-service elements have no valid result in either mode: both paths keep the in_service mask
        for assume, label in ((True, "parallel"), (False, "sequential")):
            eff = _effective_texts(fu.node, "where_mask", assume)
            okm = bool(eff) and all("in_service" in t for t in eff)
            ctx.ob(R, f"{mod}::{qn}::where-in-service:{label}", okm,
                   f"the min/max mask of the {label} path keeps net[element].in_service" if okm else
                   f"on the {label} path the min/max mask can be {sorted(eff)[:2]}: elements that are out of service in the base net enter "
                   "the extremes with their 0 / stale values (sequential and parallel results differ)", fu.loc(where[0]))
        ok = any("cause_index" in t for t in par_txt)
        ctx.ob(R, f"{mod}::{qn}::where-own-outage:parallel", ok,
               "parallel branch excludes the outaged element (index != cause_index)" if ok else
               f"parallel-result branch mask {par_txt or seq_txt} does not exclude the outaged element: the outage was applied to the "
               "worker's copy, so its own zero/absent loading enters the minimum", fu.loc(where[0]))
    # --- NaN-safe cause attribution
    mm = [n for n in ast.walk(fu.node) if isinstance(n, ast.Assign) and any(isinstance(t, ast.Name) and t.id == "max_mask" for t in n.targets)]
    if not mm:
        ctx.fail(f"{qn}: max_mask assignment not found")
    def expand(node, depth=0):
        t = ast.unparse(node)
        if depth < 2:
            for nm in names_in(node):
                for d in defs.get(nm, []):
                    t += " | " + expand(d, depth + 1)
        return t

    for m_ in mm:
        cmps = [c for c in ast.walk(m_.value) if isinstance(c, ast.Compare) and isinstance(c.ops[0], (ast.Gt, ast.GtE))
                and ast.unparse(c.left) == "val"]
        if not cmps:
            ctx.fail(f"{qn}: comparison of val with the running maximum not found in max_mask")
        whole = expand(m_.value)
        safe = True
        for c in cmps:
            x = expand(c.comparators[0])
            xn = [n for n in names_in(c.comparators[0])]
            guarded = any(f"isnan({n})" in whole.replace("np.", "") for n in xn)
            if not ("nan_to_num" in x or "fmax(" in x or "where(" in x or guarded):
                safe = False
        valid = "in_service" in whole or "cause_index" in whole
        ctx.ob(R, f"{mod}::{qn}::cause-nan-safe", safe,
               "comparison with the running maximum is NaN-safe" if safe else
               "cause attribution compares val with the running maximum, which is NaN until an element has had a valid result "
               "and stays NaN for excluded entries: 'val > nan' is never true, the cause of later maxima is not recorded", fu.loc(m_))
        ctx.ob(R, f"{mod}::{qn}::cause-valid-only", valid,
               "cause attribution is restricted to valid (in service / not the outaged element) entries" if valid else
               "cause attribution is not restricted to valid entries: an element's own outage can be recorded as its cause", fu.loc(m_))
    # --- overload attribution
    ok = False
    for n in ast.walk(fu.node):
        if isinstance(n, ast.If) and "cause_mask" in ast.unparse(n.test):
            b = " ".join(ast.unparse(s) for s in n.body)
            ok = "causes_overloading" in b and "cause_element" in b and "cause_index" in b
    lim = any(isinstance(n, ast.Assign) and "loading_limit" in ast.unparse(n.targets[0]) and "net[element]" in ast.unparse(n.value)
              for n in ast.walk(fu.node))
    ctx.ob(R, f"{mod}::{qn}::causes-overloading", ok and lim,
           "causes_overloading is set for (cause_element, cause_index) iff some value exceeds the limit column of the affected table"
           if ok and lim else "causes_overloading attribution not recognised", fu.loc())
    # the N-1 limit column is tested on the table it is read from
    from rules import _lints
    n_g = _lints.same_table_guard(ctx, R, fu, "max_loading_percent_nminus1")
    if n_g < 1:
        ctx.fail(f"{qn}: guarded read of max_loading_percent_nminus1 not found")
    # N-0 branch writes plain values
    ok = any(isinstance(n, ast.Assign) and ast.unparse(n.targets[0]) == "contingency_results[element][var]" and ast.unparse(n.value) == "val"
             for n in ast.walk(fu.node))
    ctx.ob(R, f"{mod}::{qn}::n0-plain", ok, "N-0 branch stores the plain result values under the un-prefixed key", fu.loc())


def rule_options(ctx, R, fi, worker=None):
    """N-1 cases are evaluated with pf_options_nminus1, the base case with pf_options; a filtering comprehension that rebinds one of
    the two dictionaries iterates over that same dictionary; every case list skips elements that are out of service already."""
    import ast
    from ppsa.astutil import norm
    mod = fi.module.name
    # 1. self-sourced filtering
    for st in ast.walk(fi.node):
        if isinstance(st, ast.Assign) and len(st.targets) == 1 and isinstance(st.targets[0], ast.Name) and st.targets[0].id in ("pf_options", "pf_options_nminus1") \
                and isinstance(st.value, ast.DictComp):
            src = norm(st.value.generators[0].iter, 60).replace(" ", "")
            ok = src == f"{st.targets[0].id}.items()"
            ctx.ob(R, f"{mod}::{fi.qualname}::filter:{st.targets[0].id}", ok,
                   f"{st.targets[0].id} filtered from itself" if ok else
                   f"`{st.targets[0].id} = {{... for ... in {src}}}`: the options of the other case class are used", fi.loc(st))
    # 2. evaluation calls
    def star_names(call):
        return [norm(k.value, 40) for k in call.keywords if k.arg is None]
    n = 0
    for node in ast.walk(fi.node):
        if isinstance(node, ast.Try):
            for c in ast.walk(node):
                if isinstance(c, ast.Call) and norm(c.func, 60) == "contingency_evaluation_function":
                    n += 1
                    ok = "pf_options_nminus1" in star_names(c) and "pf_options" not in star_names(c)
                    ctx.ob(R, f"{mod}::{fi.qualname}::nminus1-call#{n}", ok, f"outage evaluated with **{star_names(c)}", fi.loc(c))
    tries = {id(c) for t in ast.walk(fi.node) if isinstance(t, ast.Try) for c in ast.walk(t)}
    for c in ast.walk(fi.node):
        if isinstance(c, ast.Call) and norm(c.func, 60) == "contingency_evaluation_function" and id(c) not in tries:
            n += 1
            ok = "pf_options" in star_names(c) and "pf_options_nminus1" not in star_names(c)
            ctx.ob(R, f"{mod}::{fi.qualname}::base-call#{n}", ok, f"base case evaluated with **{star_names(c)}", fi.loc(c))
    if worker is not None:
        for c in ast.walk(worker.node):
            if isinstance(c, ast.Call) and norm(c.func, 60) == "contingency_evaluation_function":
                n += 1
                ok = star_names(c)[:1] == ["pf_options_nminus1"]
                ctx.ob(R, f"{mod}::{worker.qualname}::worker-call", ok, f"worker evaluates with **{star_names(c)}", worker.loc(c))
        for c in ast.walk(fi.node):
            if isinstance(c, ast.Call) and norm(c.func, 20) == "partial" and c.args and norm(c.args[0], 40) == worker.qualname:
                kw = {k.arg: norm(k.value, 40) for k in c.keywords if k.arg}
                ok = kw.get("pf_options_nminus1") == "pf_options_nminus1" and "pf_options" not in kw
                ctx.ob(R, f"{mod}::{fi.qualname}::worker-binding", ok, f"partial binds {kw}", fi.loc(c))
    # 3. every loop over the cases skips elements that are already out of service
    k = 0
    for lp in ast.walk(fi.node):
        if isinstance(lp, ast.For) and norm(lp.iter, 40).replace(" ", "").replace('"', "'") == "val['index']":
            k += 1
            guard = [x for x in lp.body if isinstance(x, ast.If) and "in_service" in norm(x.test, 80)]
            ctx.ob(R, f"{mod}::{fi.qualname}::case-filter#{k}", bool(guard),
                   "cases of elements that are out of service are skipped" if guard else
                   "the loop over the cases does not test in_service: a switched-off element is evaluated as an outage (its N-0 values enter "
                   "the N-1 extremes)", fi.loc(lp))
    for x in ast.walk(fi.node):
        if isinstance(x, ast.Assign) and norm(x.targets[0], 10) == "tasks" and isinstance(x.value, ast.ListComp):
            k += 1
            ok = any("in_service" in norm(i, 80) for g in x.value.generators for i in g.ifs)
            ctx.ob(R, f"{mod}::{fi.qualname}::case-filter#{k}", ok, "task list built by a comprehension " + ("with" if ok else "without") + " the in_service filter", fi.loc(x))
    if k < 1:
        ctx.fail(f"{fi.qualname}: no loop over the N-1 cases found")
    return n


def rule_cause_index(ctx, R, fu):
    """cause_index is a label of the outaged table: wherever it is compared with an index array, that array is the index of
    contingency_results[cause_element] - or of contingency_results[element] under the condition element == cause_element"""
    pm = {}
    for p in ast.walk(fu.node):
        for c in ast.iter_child_nodes(p):
            pm[c] = p
    n = 0
    for cmp_ in ast.walk(fu.node):
        if not (isinstance(cmp_, ast.Compare) and len(cmp_.ops) == 1 and isinstance(cmp_.ops[0], (ast.Eq, ast.NotEq))):
            continue
        sides = [cmp_.left, cmp_.comparators[0]]
        if not any(isinstance(s, ast.Name) and s.id == "cause_index" for s in sides):
            continue
        other = next(s for s in sides if not (isinstance(s, ast.Name) and s.id == "cause_index"))
        m = re.match(r"contingency_results\[(\w+)\]\[['\"]index['\"]\]$", ast.unparse(other))
        if not m:
            continue
        n += 1
        tab = m.group(1)
        guarded = False
        node = cmp_
        while node in pm:
            par = pm[node]
            if isinstance(par, ast.If) and node in par.body and re.search(r"\belement == cause_element\b|\bcause_element == element\b", ast.unparse(par.test)):
                guarded = True
            node = par
        ok = tab == "cause_element" or (tab == "element" and guarded)
        ctx.ob(R, f"{fu.module.name}::{fu.qualname}::cause-index@{norm(cmp_, 50)}#{n}", ok,
               f"`{norm(cmp_, 70)}` compares the outage label with the index of its own table" if ok else
               f"`{norm(cmp_, 90)}` compares the label of the outaged {'{cause_element}'} with the index of the table `{tab}`"
               + ("" if tab == "cause_element" else " without the condition element == cause_element") +
               ": an element of another type that happens to carry the same index label is treated as the outaged one", fu.loc(cmp_))
    return n


def rule_setup(ctx, R, fi):
    """result set-up of run_contingency(_parallel): recycle forced off, object dtype for the cause names, all tables written"""
    fn = fi.node
    rec = [st for st in ast.walk(fn) if isinstance(st, (ast.Assign, ast.Expr, ast.Delete)) and "recycle" in ast.unparse(st)]
    forced = any((isinstance(st, ast.Assign) and re.fullmatch(r"kwargs\[['\"]recycle['\"]\]", ast.unparse(st.targets[0])) and
                  isinstance(st.value, ast.Constant) and not st.value.value) or
                 (isinstance(st, ast.Expr) and re.match(r"kwargs\.pop\(['\"]recycle['\"]", ast.unparse(st.value))) or
                 isinstance(st, ast.Delete) for st in rec)
    soft = [st for st in rec if isinstance(st, ast.Expr) and "setdefault" in ast.unparse(st)]
    ok = forced and not soft
    ctx.ob(R, f"{fi.module.name}::{fi.qualname}::recycle-off", ok,
           "a recycle option of the caller is overwritten with False" if ok else
           ("`" + norm(soft[0], 70) + "` keeps a recycle option passed by the caller" if soft else "no statement forces recycle off") +
           ": with recycle the power flow re-uses the stored model and never sees the outage, every N-1 case repeats the base case",
           fi.loc(soft[0] if soft else (rec[0] if rec else None)))
    for d in ast.walk(fn):
        if isinstance(d, ast.Dict):
            for k, v in zip(d.keys, d.values):
                if isinstance(k, ast.Constant) and k.value == "cause_element" and isinstance(v, ast.Call):
                    dt = kwarg(v, "dtype")
                    txt = ast.unparse(dt) if dt is not None else ""
                    ok = txt in ("object", "'object'", '"object"', "'O'", '"O"', "np.object_")
                    ctx.ob(R, f"{fi.module.name}::{fi.qualname}::cause-element-dtype", ok,
                           "cause names are stored in an object array" if ok else
                           f"cause_element is created with dtype={txt or '<inferred>'}: a fixed-width or numeric array truncates or rejects "
                           "element type names ('trafo3w' becomes 'trafo')", fi.loc(v))
    wr = next((n for n in ast.walk(fn) if isinstance(n, ast.If) and ast.unparse(n.test) == "write_to_net"), None)
    if wr is not None:
        skips = [x for x in ast.walk(wr) if isinstance(x, ast.If) and any(isinstance(y, (ast.Continue, ast.Break)) for y in x.body)
                 and "nminus1_cases" in ast.unparse(x.test)]
        ctx.ob(R, f"{fi.module.name}::{fi.qualname}::write-all-tables", not skips,
               "results of every monitored table are written" if not skips else
               f"`{norm(skips[0].test, 70)}` skips tables without an outage in the case list: their elements are monitored (and can be the most "
               "loaded ones) but get no result columns", fi.loc(skips[0]) if skips else fi.loc(wr))


def rule_dup_keyword(ctx, R, fi):
    """a call `f(..., K=x, **kwargs)` raises TypeError when kwargs still holds K: an option that the function reads with
    kwargs.get("K") / kwargs["K"] (and does not pop or delete) may not be passed again as an explicit keyword next to **kwargs"""
    fn = fi.node
    kept, removed = set(), set()
    for c in ast.walk(fn):
        if isinstance(c, ast.Call) and isinstance(c.func, ast.Attribute) and ast.unparse(c.func.value) == "kwargs" and c.args \
                and isinstance(c.args[0], ast.Constant) and isinstance(c.args[0].value, str):
            (removed if c.func.attr == "pop" else kept if c.func.attr == "get" else set()).add(c.args[0].value)
        if isinstance(c, ast.Subscript) and ast.unparse(c.value) == "kwargs" and isinstance(c.slice, ast.Constant):
            (removed if isinstance(c.ctx, ast.Del) else kept).add(c.slice.value)
    maybe = kept - removed
    n = 0
    for c in ast.walk(fn):
        if not (isinstance(c, ast.Call) and any(k.arg is None and ast.unparse(k.value) == "kwargs" for k in c.keywords)):
            continue
        n += 1
        dup = sorted(k.arg for k in c.keywords if k.arg in maybe)
        ctx.ob(R, f"{fi.module.name}::{fi.qualname}::dup-keyword@{norm(c.func, 40)}#{n}", not dup,
               f"`{norm(c.func, 40)}(..., **kwargs)` passes no option twice" if not dup else
               f"`{norm(c.func, 40)}(..., {dup[0]}={dup[0]}, **kwargs)`: {dup} is read with kwargs.get and stays in kwargs, so the call "
               f"raises TypeError (multiple values for keyword argument) whenever the caller passes {dup[0]}; the other execution path "
               "accepts the option", fi.loc(c))
    return n
