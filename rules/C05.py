"""C05 - invariance under equivalent re-representation: structural clauses.

Decided:
 * base-power homogeneity: every per-unit ppc column has the base-power degree of its kind
   (impedance +1, admittance -1, power/kV/kA/percent 0) and every result column degree 0, so
   the physical results cannot depend on net.sn_mva through a mis-placed factor;
 * parallel homogeneity: series ~ parallel^-1, shunt ~ parallel^+1, rating ~ parallel^+1,
   loading ~ parallel^-1  (parallel=n  ==  n identical elements);
 * renumbering completeness: every ppc column that holds a bus number is re-mapped from ppc to
   ppci numbering in _ppc2ppci (out-of-service / fused buses shift the numbering);
 * results are fetched through the element's own lookup range.
Not decided: from/to swap, load splitting, bus fusing (numerical).
"""
import ast
import re

from ppsa import facts
from ppsa.obligations import run_cases, Case, Sink
from ppsa.selftest import Variant, replace_once, in_function
from rules._branch_cases import builder_cases, result_cases

NOT_BUS_NUMBER = {
    "BUS_TYPE": "bus type code", "BUS_AREA": "area number", "BUS_I": "the numbering itself (rewritten with arange)",
    "DC_BUS_TYPE": "bus type code", "DC_BUS_AREA": "area number", "DC_BUS_I": "the numbering itself",
    "SL_FAC_BUS": "summed slack weight per bus, not a bus number",
    "VSC_DIFF_REF_BUS": "reference bus of the vm_pu_diff DC modes: outside the schema domain of control_mode_dc "
                        "and marked 'currently not working' in auxiliary._add_auxiliary_elements",
}


def rule_renumber(ctx):
    R = "RENUMBER"
    ctx.rule(R, "every ppc column whose idx_* name designates a bus number and that a builder reachable from "
                "_pd2ppc writes through the bus lookup is re-mapped through e2i / e2i_dc in pd2ppc._ppc2ppci")
    it, fr = facts.analyse(ctx.repo, "pandapower.pd2ppc:_pd2ppc", options={"mode": "pf"}, schema_cols=True, max_depth=9)
    written = {}
    for s in it.stores:
        if not s.path.startswith("ppc."):
            continue
        _, matrix, col = s.path.split(".", 2)
        if "BUS" not in col or col in NOT_BUS_NUMBER:
            continue
        if s.fn is not None and s.fn.name == "_ppc2ppci":
            continue
        if any(d.startswith(("lookup.bus", "lookup.aux")) for d in s.value.deps):
            written.setdefault((matrix, col), s)
    if len(written) < 12:
        ctx.fail(f"only {len(written)} bus-number columns found among the builders' stores (confirmed: 15)")
    it2, fr2 = facts.analyse(ctx.repo, "pandapower.pd2ppc:_ppc2ppci", schema_cols=True, max_depth=2)
    remapped = {}
    for s in it2.stores:
        if not s.path.startswith("ppc.") or s.fn.name != "_ppc2ppci":
            continue
        _, matrix, col = s.path.split(".", 2)
        # value must be an index into the e2i arrays, which derive from the BUS_I column
        d = s.value.deps
        if f"ppc.{matrix}.{col}" in d and ("ppc.bus.BUS_I" in d or "ppc.bus_dc.DC_BUS_I" in d):
            kind = "dc" if ("ppc.bus_dc.DC_BUS_I" in d and "ppc.bus.BUS_I" not in d) else "ac"
            remapped[(matrix, col)] = kind
    for (matrix, col), st in sorted(written.items()):
        dc = any(d.startswith(("lookup.bus_dc", "lookup.aux_dc")) for d in st.value.deps) and not any(
            d == "lookup.bus" or d.startswith("lookup.aux.") or d == "lookup.aux" for d in st.value.deps)
        got = remapped.get((matrix, col))
        ok = got is not None and (got == ("dc" if dc else "ac"))
        ctx.ob(R, f"pandapower.pd2ppc::_ppc2ppci::{matrix}.{col}", ok,
               f"ppc['{matrix}'][:, {col}] (written by {st.fn.name}) " + (
                   f"is re-mapped through {'e2i_dc' if got == 'dc' else 'e2i'}" if ok else
                   ("is not re-mapped to ppci numbering" if got is None else f"is re-mapped through the wrong lookup ({got})")),
               st.fn.loc(st.node))
    for col, why in NOT_BUS_NUMBER.items():
        ctx.info(f"RENUMBER exception {col}: {why}")
    ctx.require_min(R, 12)


def lookup_cases():
    RBR = "pandapower.results_branch"
    from ppsa.obligations import ka, mva
    ro = {"ac": True, "mode": "pf", "tdpf": False, "trafo_loading": "current"}
    args = {"i_ft": ka("i_ft"), "s_ft": mva("s_ft")}
    out = []
    for el, fn, cols in (("line", "_get_line_results", ["p_from_mw", "q_to_mvar", "i_ka", "loading_percent"]),
                         ("trafo", "_get_trafo_results", ["p_hv_mw", "q_lv_mvar", "i_hv_ka", "loading_percent"]),
                         ("trafo3w", "_get_trafo3w_results", ["p_hv_mw", "p_mv_mw", "p_lv_mw", "i_mv_ka"]),
                         ("impedance", "_get_impedance_results", ["p_from_mw", "q_to_mvar", "i_from_ka"])):
        out.append(Case(f"lookup-{el}", f"{RBR}:{fn}", [
            Sink(f"store:net.res_{el}.{c}", {}, None, [f"lookup.branch.{el}"]) for c in cols
        ], args=args, options=ro))
    return out


def run(ctx):
    ctx.assume("B is the symbol of the system base power (net.sn_mva / ppc['baseMVA']); a result or ppc column "
               "whose monomials all have the required degree in B is invariant under a change of base")
    R = "BASE-HOMOGENEITY"
    ctx.rule(R, "base-power degree and parallel degree of every ppc writer and result reader: impedance_pu B^+1 "
                "par^-1, admittance_pu B^-1 par^+1, ratings par^+1, loading par^-1, all result columns B^0")
    run_cases(ctx, R, builder_cases() + result_cases(), aspects=("base", "par"))
    ctx.require_min(R, 110)
    rule_renumber(ctx)
    R3 = "OWN-LOOKUP"
    ctx.rule(R3, "branch result writers read the ppc rows of their element through net._pd2ppc_lookups['branch'][element] "
                 "(index based, not positional)")
    run_cases(ctx, R3, lookup_cases(), aspects=("needs",))
    ctx.require_min(R3, 12)
    from rules import _lints
    _lints.both_switch_ends(ctx, "FUSE-BOTH-ENDS")
    from rules import C31
    RK = "TABLE-ORDER"
    ctx.rule(RK, "permuting the rows of trafo_characteristic_table (or of the transformer table) changes nothing: columns of the merged "
                 "characteristic frame reach the transformers only through a lookup keyed by (id, step), never positionally")
    C31.rule_keyed_assignment(ctx, RK)
    _lints.ref_gens(ctx, "REF-GENS")      # relabelling net.gen: slack generators addressed by label
    RV = "RESULT-INDEX"
    ctx.rule(RV, "results.verify_results keeps a result table only if its index EQUALS the index of the element table (Index.equals: same "
                 "labels in the same order): result extraction writes values positionally, so a permuted element table needs a re-initialised "
                 "result table")
    fv = ctx.repo.func("pandapower.results:verify_results")
    st = next((x for x in ast.walk(fv.node) if isinstance(x, ast.Assign) and ast.unparse(x.targets[0]) == "index_equal"), None)
    t = ast.unparse(st.value).replace(" ", "") if st is not None else ""
    ok = "net[element].index.equals(net[res_element].index)" in t or "net[res_element].index.equals(net[element].index)" in t
    ctx.ob(RV, "pandapower.results::verify_results::index-equals", ok,
           "result table kept only when Index.equals holds" if ok else
           f"`index_equal = {t[:110]}` accepts a result table with the same labels in another order: the values written positionally end up under "
           "the labels of other elements", fv.loc(st) if st is not None else fv.loc())
    R5 = "IS-FACTOR"
    ctx.rule(R5, "adding an out-of-service element changes nothing: every term _calc_shunts_and_add_on_ppc accumulates inside an "
                 "element block is multiplied by that element's in-service mask")
    if _lints.in_service_factor(ctx, R5, ctx.repo.func("pandapower.build_bus:_calc_shunts_and_add_on_ppc")) < 10:
        ctx.fail("IS-FACTOR: fewer than 10 accumulated terms found in _calc_shunts_and_add_on_ppc")
    _lints.dup_sweep(ctx, "DUP-OPERAND", ["pandapower.build_bus", "pandapower.pd2ppc", "pandapower.build_branch", "pandapower.build_gen",
                                         "pandapower.pypower.makeYbus"])


def variants(repo):
    _bbu = "pandapower/build_bus.py"
    pd = "pandapower/pd2ppc.py"
    bb = "pandapower/build_branch.py"
    rb = "pandapower/results_branch.py"
    V = Variant
    return [
        V("slack gens looked up by position", pd, replace_once('slack_gens = np.array(net.gen.index)[net._is_elements["gen"]\n                                             & net.gen["slack"].values]', 'slack_gens = np.flatnonzero(net._is_elements["gen"] & net.gen["slack"].values)'), "slack-gens-by-label"),
        V("result table kept for a permuted element table", "pandapower/results.py", replace_once("net[element].index.equals(net[res_element].index)", "(len(net[res_element].index) == len(net[element].index) and net[element].index.isin(net[res_element].index).all())"), "RESULT-INDEX"),
        V("vk taken in table order", bb, in_function("_get_vk_values_from_table", lambda s: s.replace("            vk_new = [vk_mapping.get(key, 1) for key in zip(cleaned_id_characteristic, cleaned_step)]\n", "            vk_new = filtered_df[vk_var].values\n", 1)), "TABLE-ORDER"),
        V("table shunt without in-service mask", _bbu, replace_once('p = p + s["p_mw_table"].fillna(0).to_numpy() * v_ratio * vl', 'p = p + s["p_mw_table"].fillna(0).to_numpy() * v_ratio'), "IS-FACTOR"),
        V("dc line resistance without parallel", bb, replace_once('branch_dc[f:t, DC_BR_R] = line_dc["r_ohm_per_km"].values * length_km / baseR / parallel', 'branch_dc[f:t, DC_BR_R] = line_dc["r_ohm_per_km"].values * length_km / baseR'), "line-dc"),
        V("tcsc to-bus not remapped", pd, lambda s: re.sub(r'\n    ppc\["tcsc"\]\[:, TCSC_T_BUS\] = e2i\[[^\n]*\n', "\n", s, count=1), "tcsc.TCSC_T_BUS"),
        V("vsc dc bus remapped with ac lookup", pd, replace_once("ppc['vsc'][:, VSC_BUS_DC] = e2i_dc[", "ppc['vsc'][:, VSC_BUS_DC] = e2i["), "vsc.VSC_BUS_DC"),
        V("ssc internal bus dropped", pd, lambda s: re.sub(r"\n    ppc\['ssc'\]\[:, SSC_INTERNAL_BUS\] = e2i\[[^\n]*\n", "\n", s, count=1), "ssc.SSC_INTERNAL_BUS"),
        V("xward base power squared", bb, in_function("_calc_xward_parameter", replace_once('net["xward"]["r_ohm"] / baseR', 'net["xward"]["r_ohm"] / baseR * net.sn_mva')), "xward:store:ppc.branch.BR_R"),
        V("line b wrong base", bb, replace_once("* 1e-9 * baseR * length_km * parallel", "* 1e-9 / baseR * length_km * parallel"), "line:store:ppc.branch.BR_B"),
        V("trafo loading ignores parallel", rb, in_function("_get_trafo_results", lambda s: s.replace('* trafo_df["parallel"].values', "", 1) if '* trafo_df["parallel"].values' in s else s.replace("parallel", "1", 1)), "res_trafo.loading_percent"),
        V("line result positional", rb, in_function("_get_line_results", replace_once('f, t = net._pd2ppc_lookups["branch"]["line"]', 'f, t = 0, len(net["line"])')), "OWN-LOOKUP"),
        V("twin: e2i alias", pd, replace_once('ppc["branch"][:, F_BUS] = e2i[np.real(ppc["branch"][:, F_BUS]).astype(np.int64)].copy()',
                                            'fb_old = np.real(ppc["branch"][:, F_BUS]).astype(np.int64)\n    ppc["branch"][:, F_BUS] = e2i[fb_old].copy()'), None),
    ]
