#!/venv/bin/python
"""Copy confirmed sub-agent candidates into /verif/seeded/<Cxx>-<k>/ and write meta.json.

usage: seeded_import.py <scratch root> <verify.log> <batchtest.json> [subdir=out] [id infix]

A candidate <root>/<Cxx>/out/<k>/ is kept only when
  * verify.log has "demo clean=0 mutated=1" for it (tools/seeded_verify.sh: the demonstration exits 0 on a scratch
    worktree of /repo HEAD and 1 on the same worktree with patch.diff applied), and
  * batchtest.json records that the repository's whole test-suite passed with the patch applied
    (tools/seeded_batchtest.py).
meta.json: property, title, summary (what was changed), clause (what it breaks), needs (what it needs to manifest),
ran (the two confirmations above, verbatim).  Disposition (which check reports it) is added by tools/seeded_eval.py.
"""
import json
import os
import re
import shutil
import sys

OUT = os.path.join(os.path.dirname(os.path.dirname(os.path.abspath(__file__))), "seeded")
HEAD = re.compile(r"^(?:#{2,}\s*(?P<h>.+?)\s*$|\*\*(?P<b>[^*]+?):?\*\*:?\s*(?P<rest>.*)$)")


def sections(text):
    out, cur, buf = [], "title", []
    for line in text.splitlines():
        m = HEAD.match(line)
        if m:
            out.append((cur, "\n".join(buf).strip()))
            cur = (m.group("h") or m.group("b")).strip()
            buf = [m.group("rest")] if m.group("rest") else []
        else:
            buf.append(line)
    out.append((cur, "\n".join(buf).strip()))
    return out


def pick(secs, pattern, limit=1500):
    for h, body in secs:
        if re.search(pattern, h, re.I) and body:
            return body[:limit]
    return ""


def main():
    root, vlog, bjson = sys.argv[1:4]
    sub = sys.argv[4] if len(sys.argv) > 4 else "out"
    infix = sys.argv[5] if len(sys.argv) > 5 else ""
    ver = {}
    for line in open(vlog):
        d, _, rest = line.partition(" ")
        ver[d] = rest.strip()
    bt = json.load(open(bjson))
    kept, dropped = [], []
    for prop in sorted(os.listdir(root)):
        if not re.fullmatch(r"C\d\d", prop):
            continue
        outd = os.path.join(root, prop, sub)
        for k in sorted(os.listdir(outd)) if os.path.isdir(outd) else []:
            d = os.path.join(outd, k)
            if not (os.path.isdir(d) and os.path.exists(os.path.join(d, "patch.diff"))):
                continue
            v = ver.get(d, "")
            t = bt.get(d, {})
            if "demo clean=0 mutated=1" not in v or not t or t.get("failed") or "passed" not in t.get("tests", ""):
                dropped.append((d, v[:60], t))
                continue
            notes = open(os.path.join(d, "notes.md")).read()
            secs = sections(notes)
            title = notes.splitlines()[0].lstrip("# ").strip()
            dst = os.path.join(OUT, f"{prop}-{infix}{k}")
            os.makedirs(dst, exist_ok=True)
            for f in ("patch.diff", "demo.py", "notes.md"):
                shutil.copy(os.path.join(d, f), os.path.join(dst, f))
            files = sorted(set(re.findall(r"^\+\+\+ b/(\S+)", open(os.path.join(d, "patch.diff")).read(), re.M)))
            meta = {
                "property": prop,
                "title": title,
                "files_changed": files,
                "summary": pick(secs, r"^(change|site)") or secs[0][1][:1500],
                "clause_broken": pick(secs, r"clause"),
                "needs": pick(secs, r"need|manifest"),
                "ran": {
                    "demonstration": "tools/seeded_verify.sh: scratch worktree of /repo HEAD, `python demo.py` exit 0; same "
                                     "worktree with patch.diff applied, exit 1.  " + v[:600],
                    "tests": t.get("tests", ""),
                },
            }
            json.dump(meta, open(os.path.join(dst, "meta.json"), "w"), indent=1)
            kept.append(dst)
    print(f"kept {len(kept)}, dropped {len(dropped)}")
    for d in dropped:
        print("DROPPED", d)


if __name__ == "__main__":
    main()
