#!/bin/bash
# run every built check at the given tier (default quick), in parallel; print one line per property
tier=${1:-quick}
cd "$(dirname "$0")/.."
ls rules | grep -E '^C[0-9]+\.py$' | sed 's/\.py//' | xargs -P ${JOBS:-8} -I{} sh -c './check {} --tier '"$tier"' > /tmp/ppsa_run_{}.log 2>&1; echo "{} exit=$? $(grep -c KNOWN-FINDING /tmp/ppsa_run_{}.log) known; $(grep -E "^VIOLATION|ANALYSIS-ERROR" /tmp/ppsa_run_{}.log | head -3 | tr "\n" " ")"' | sort
