"""Per-property claim texts for MANIFEST.json (see DESIGN.md section 3 for the full clause lists)."""

NOTE = ("Trusted base: Python's ast parser, the ppsa analyser in /verif/ppsa, the frozen instance tables in "
        "/verif/rules (each instance confirmed by reading). Decides the named structural clauses only; the "
        "numerical behaviour is not decided. Unresolvable (dynamic) callees are assumed to have no effect on "
        "user tables and to be able to raise.")


def C(text, technique, note=NOTE, ref=None):
    d = {"text": text, "technique": technique, "note": note}
    if ref:
        d["ref"] = ref
    return d


CLAIMS = {
    "C01": C("Necessary structural conditions of nodal balance: the element types aggregated into the bus demand "
             "equal those whose results are summed back, with the same sign table; each contribution depends on "
             "power, scaling and in-service mask; ZIP voltage law has the same shape in the mismatch and in the "
             "result writer; branch types built equal branch types reported; accumulations into a bus vector with repeated "
             "indices use an unbuffered/unique-index form; the ZIP split has the same sibling form for loads and "
             "asymmetric loads; the result shortcut is guarded by the flag that makes it valid. Also: in-service factor on every shunt term, total shared at a reference bus, refresh of the recycled DC cache. Round 3: xward slack share from the solved bus demand; generator results rewritten whenever the table has rows.",
             "ast table-agreement + dependence + monomial-shape analysis"),
    "C02": C("Monomial-shape abstract interpretation (base-power degree, physical unit, decimal scale, parallel "
             "degree) of every per-unit conversion and result formula of the documented element models; T/pi "
             "clause by dependence. A mis-scaled factor, dropped /parallel or wrong base exponent is reported; the "
             "phase shift enters with the sign of the tapped side in every branch of the shift computation; no "
             "binary operation in the branch builders has two identical operands (copy/paste contradiction lint). Also: trafo3w side base min(sn) per winding pair, magnetising branch on the tap-adjusted LV voltage, refresh of the recycled DC cache. Round 3: every tap changer type of the schema domain is matched; fast slack path guarded by GS and BS.",
             "abstract interpretation (monomial-shape domain) over ast"),
    "C03": C("In every branch result writer pl/ql is the positive sum of exactly the terminal power columns (AC) "
             "and zero-like (DC); slack power depends on demand and losses; slack power split over several slack "
             "elements at one bus divides by the element count of that bus. Also: total shared among reference machines (bus power minus other set-points), agreement of the numba and pypower pfsoln twins. Round 4: slack generators always reference machines, addressed by label; xward share over sgen/load/ward/xward/storage.",
             "ast def-use / dependence analysis of result writers"),
    "C04": C("Setpoint columns flow into the ppc columns that fix them and results read back the element's own "
             "row; ZIP and shunt laws have the documented voltage degree; the Q-limit loop pins a violating "
             "generator at the limit it violated; stepped shunts multiply power and step together. Also: Q-limit demand adjustment from the generator row, ordinary generators at a reference bus keep their set-point. Round 3: the all-reference bypass hands the complex set-point vector to pfsoln. Round 4: per-load ZIP results with scaling (shared ZIP-LAW); set-point conflicts checked over all generator rows.",
             "dependence + monomial-shape analysis"),
    "C05": C("Base-power homogeneity and parallel-count homogeneity of every ppc writer and result reader; every "
             "ppc column that holds a bus number is re-mapped in _ppc2ppci; result writers index through lookups; "
             "bus fusing tests both ends of a switch. Also: in-service factor on every shunt term; dc line resistance divided by parallel. Round 4: slack generators addressed by label; result tables kept only under Index.equals.",
             "monomial-shape abstract interpretation + table agreement"),
    "C07": C("Element types giving connectivity in the power flow agree with those giving edges in the topology "
             "graph used by unsupplied_buses; slack definitions agree; NaN is written exactly for isolated buses "
             "before results are read; every element type's in-service mask combines its own flag with its bus's; "
             "isolated-node detection covers both numba and numpy siblings. Also: loops over literal element-type lists in the builders never exit early. Round 4: the line at an out-of-service bus is addressed by its position in the whole line table.",
             "table agreement + ordering (dominators) on ast"),
    "C08": C("Pairing of auxiliary-element acquire/release on every normal and exceptional path of every calculation "
             "entry point; no reachable function stores into a schema column of a user table or drops/adds rows "
             "unless restored (including the contingency outage flag); no in-place write through a view of a user table. Also: the release removes as many auxiliary rows as the acquire added (all dcline rows, two each). Round 3: auxiliary b2b VSC names from index labels on both sides; list cells of user tables not mutated.",
             "call graph + statement CFG with exceptional edges (PAIR), effect analysis, alias/view analysis"),
    "C09": C("Typestate of the cached per-network state: on every path of every calculation entry point no cached key "
             "(net._options, _pd2ppc_lookups[...], _is_elements(_final), _ppc*, _isolated_buses ...) is read before it has "
             "been rewritten in the same call (explicit recycle excepted and guarded); result tables re-initialised before "
             "the conversion and every written result table is one the mode re-initialises; start voltages taken from "
             "result tables pass a NaN replacement; no memoisation on the calculation path. Also: auxiliary rows removed on every path, recycled run re-runs every flagged builder, init_* options read by the start-vector code only. Round 3: as many auxiliary generators removed as added.",
             "interprocedural must-definedness (typestate) walk with constant propagation + taint analysis on ast"),
    "C10": C("Only the bookkeeping of slack weights is claimed: every table with a slack_weight column is written to SL_FAC "
             "with its in-service mask; weights and buses are paired by position through order-preserving steps; per-island "
             "normalisation divides by the sum over the island's rows and stores grouped bus weights; the split at shared "
             "buses uses one row set; the mismatch carries + weights*slack over the ref rows and both Jacobian siblings get "
             "the weights; weighted buses/gens join ref/ref_gens; xward results add the variable power to the rows of the bus "
             "only, with scalar total weight and the demand as aggregated. The equal weighted deviation of the converged "
             "solution is not decided. Round 3: in-service neighbours only and sign table {sgen} in the xward share; all further reference buses become PV; no bypass with distributed slack. Round 5: normalisation depends on distributed_slack only; xward bus loop without early exit.",
             "ast dependence / provenance (order-preserving) / sibling-agreement analysis"),
    "C11": C("Only the bookkeeping of the three-phase power flow is claimed: element types mapped into the per-phase bus powers "
             "equal those reported in res_bus_3ph; symmetric elements contribute a third per phase with scaling, in-service "
             "mask and sign (-1 for *sgen) on the input and on the result side; phase letters / matrix rows / bus_pq columns "
             "agree between writers and readers; Tabc.T012 = I by constant folding and the transforms use their own matrix. "
             "Agreement with the symmetric power flow is not decided. Round 3: bus lookup before grouping of the phase powers; ext-grid admittances returned as stored. Round 5: line parameters use the mode dependent baseR; zero-sequence line status written in every mode.",
             "ast table / sibling agreement + constant folding"),
    "C12": C("Writer/reader table agreement: every (element, variable) ConstControl marks recyclable is read by a "
             "builder that the raised flag re-runs; every variable accepted for batch reading is provided by "
             "get_batch_outputs; stored Ybus/Sbus reused only when the corresponding flags are clear; a recycled run "
             "re-runs the builders of every flagged table; a diverged run does not leave a ppc marked successful. Also: batch readers use the regular rating expressions; OutputWriter's positional fast path only under index equality. Round 4: batch power loading from the larger terminal power; integer profiles scaled.",
             "literal-table extraction + transitive read-set analysis over the call graph"),
    "C13": C("Controllers ordered ascending by (level, order), in-service only; every control step is followed by an "
             "evaluation of the net before the loop test; loop bound and not-converged raise are complementary; tap "
             "steps are guarded by the tap limits in the same mask, the continuous tap passes np.clip before the write; "
             "the convergence test of each tap controller accepts exactly the limit that blocks the needed step "
             "(sibling agreement of control_step and is_converged). Also: initialize_control re-reads the tap limits; is_converged compares the magnitude of the deviation. Round 4: only in-service ext_grids exempt a transformer from control.",
             "ordering / guard / sibling cross-check on ast"),
    "C14": C("in_service restored in finally for every N-1 case; N-0 evaluation after the N-1 loop; min/max masks "
             "exclude own outage and NaN; cause attribution is NaN-safe; the N-1 limit column is read from the table "
             "whose loading is compared. Also: N-1 cases run with pf_options_nminus1, the base case with pf_options; out-of-service cases skipped. Round 5: recycle forced off, object dtype of cause names, all tables written, cause_index compared with the outaged table only.",
             "CFG pairing + dependence analysis"),
    "C15": C("Sibling agreement between the sequential and the parallel update function (same masks, own outage "
             "excluded in both, in-service mask applied in both); results consumed in task order (no unordered map); "
             "workers write only to copies. Also: worker and sequential fallback run N-1 cases with pf_options_nminus1; task list skips out-of-service elements; pool size n_procs. Round 5: same set-up clauses as C14, cause_index guard in both masks, pool chunk size >= 1, no option passed twice next to **kwargs.",
             "sibling cross-check + effect analysis on ast"),
    "C16": C("Every declared OPF constraint column is read on the OPF conversion path into the matching ppc limit "
             "column with the load-like inversion pair; paired fancy-index masks agree (MASKPAIR); if/else limit "
             "assignments cover both bounds; DC line limits are written on the side they constrain. Also: branch rating depends on df; controllable NaN filled before the bool cast; Q-limit loop restores PD and QD. Round 4: DC OPF nodal balance contains PD and GS.",
             "dependence analysis + contradiction lint"),
    "C17": C("Sign parity of cost coefficients: the element sign may multiply odd-degree coefficients only; "
             "res_cost flows from the objective of the same gencost; signs are aligned with the filtered cost rows; "
             "polynomial coefficients are scaled per unit by degree. Also: dcline cost mapped to its own auxiliary generator (index expression evaluated); no stale per-row quantity in makeAy. Round 4: polynomial gencost rows addressed through ipol; pwl break points per unit.",
             "monomial-shape (sign parity) analysis"),
    "C18": C("Unit, decimal scale and base-power degree 0 of every closed-form short-circuit result (ikss, skss, ip, "
             "rk/xk) and of the short-circuit admittances; literal factors (1/sqrt3, 1/2, sqrt3, sqrt2; 2ph = sqrt3/2 of "
             "3ph; 1ph z = 2 z1 + z0); kappa range by interval evaluation; per-bus locality of the formulas; agreement "
             "of the inverse_y branches. Also: min-case temperature correction independent of the load-flow alpha; shared corrected network independent of the faulted-bus set. Round 3: converter-current angle before the fault impedance in both solver branches; factorisation of the ppci's own matrix; fault impedance if r or x.",
             "monomial-shape abstract interpretation + literal-factor and interval evaluation of closed forms + sibling cross-check"),
    "C19": C("Every numpy/scipy attribute chain evaluated on the state-estimation path exists in the installed "
             "library namespace (a missing name makes estimation fail for every input); the ten measurement blocks of z, "
             "covariance, index map, non-NaN masks, h(x) and Jacobian rows are the same kinds in the same order, each "
             "selected with its own mask and the matching real/imag part. Also: duplicates merged by the weighted average before summation; no dead local stores in the estimation package. Also: current measurements related to the bus nominal voltage.",
             "ast attribute-chain resolution against installed stub files + sibling order/mask agreement Round 5: branch lookup keyed by index labels; observability bound strict.",
             note="Trusted base: ast parser, the installed numpy/scipy .pyi/.py files as the namespace oracle. Decides API "
                  "existence and block agreement only, not the estimate."),
    "C20": C("Writer/reader agreement of the serialisers: every metadata key an encoder emits is consumed by its "
             "decoder, every emitted class signature has a decoder, encryption is paired, Excel/SQLite column "
             "coding sets agree; a stored std-type parameter takes precedence in the documented order. Also: NaN/inf written as JSON extensions, pickle keeps dtype objects, include_* switches not overridden. Round 5: double_precision=15 in every pandas writer; exact suffix removal in the Excel/SQLite reader; string literals written by an encoder are parsed (not bool()-ed) by its decoder; sniffed JSON strings parsed under try; label conversions of all readers tolerate ValueError.",
             "literal-table extraction and agreement on ast"),
    "C22": C("Foreign keys declared in network_schema are covered by the toolbox tables; every type code of a "
             "referencing table is handled by reindex_elements; every row drop in the toolbox is preceded by group "
             "detach and followed by result/reference cascade; re-indexing covers result tables; element-type codes are "
             "compared exactly and mapped to the table they name. Also: all reference rewrites select by old_indices; cost rows dropped for every dropped element. Also: drop_trafos gets the table its index came from. Round 4: generic drop dispatches trafo3w through drop_trafos; fuse_buses keeps its target; result index rewritten whenever rows exist.",
             "schema-vs-toolbox table agreement + ordering on ast"),
    "C23": C("Only the replacement family is claimed: every parameter of an element created by a replace_* function of the "
             "toolbox (line<->impedance, ward/xward -> internal elements or ward, ext_grid<->gen, gen<->sgen, load/sgen/"
             "storage conversions) has the unit, decimal scale, base-power degree, parallel degree and sign of its column "
             "and flows from the corresponding parameter of the replaced element. Re-indexing, merging, sub-net selection, "
             "dropping and fusing are not decided. Also: asymmetry test of impedance->line, f_hz handed to sub-networks, characteristic id offset when merging. Round 5: merge_parallel_line writes back what it reads; other-end idiom; characteristic rows of trafo and trafo3w in select_subnet.",
             "monomial-shape abstract interpretation (rows of itertuples/iterrows as table rows, create_* inlined)"),
    "C24": C("Sibling agreement of single and batch creators: std-type keys consumed, columns written, existence and "
             "index checks called, duplicate-cost predicate structure incl. the power_type filter. Also: index checks dominate the return, optional columns decided over all types, explicit arguments override the type. Also: index check and row write of every creator name the same table. Round 4: default shunt voltage by label in the order given; defaults filled before the dtype cast.",
             "sibling cross-check of literal tables on ast"),
    "C25": C("Electrical keys of the built-in standard-type libraries are consumed by the creators; change_std_type "
             "iterates over the type's parameters and applies them unconditionally, replacing the std_type cell; list-valued "
             "optional parameters are optional in both creators; no caller mutates the dict returned by load_std_type. Also: single and batch creators consume the same std-type keys; fuse curves pair x_k with t_k. Round 5: copy/create_std_types forward overwrite; guarded key follows the tap-changer loop variable.",
             "table agreement + alias/mutation analysis"),
    "C26": C("Per edge-producing block of create_nxgraph: in_service dependence, switch mask dependence on closed/et, "
             "out-of-service bus removal, nogobuses/notravbuses handling; connected_components removes each "
             "component from the work set; multigraph distances take the minimum over parallel edges; each include_* "
             "option gates the block of its own element type. Also: untouched buses added from the counted index; trafo3w open switches matched as (index, bus) pairs. Round 4: out-of-service buses removed by label; searches forward shared options to create_nxgraph.",
             "dependence analysis on ast"),
    "C27": C("Cascade clauses: detach-before-drop in every drop function; reindexing rewrites group element_index; "
             "group row removed exactly when member list becomes empty; group cells are not mutated through aliases shared "
             "between groups; index None checks precede use. Also: parallel group lists not re-bound before zip; reference-column uniqueness tested on the whole column. Round 5: emptiness test on every path of the group loop; detach/drop index agreement.",
             "ordering + dependence analysis on ast"),
    "C28": C("get_equivalent rebinds net to a deep copy before the first write and no reachable function writes "
             "to an object aliasing the caller's net. Also: list cells shared with the caller's net not mutated in place; no discarded drop() results in grid_equivalents.",
             "effect analysis with parameter aliasing over the call graph"),
    "C29": C("Only the structure of the trip decision of Fuse and OCRelay is claimed: the current is read from "
             "res_switch_sc.ikss_ka / res_switch.i_ka at the device's own switch and reported unchanged; threshold chains test "
             "the stages from the most to the least severe with strict comparisons, set tripped and the time of the same "
             "stage, and end in not-tripped / infinite time; the inverse-time expression agrees between IDMT and IDTOC and is "
             "guarded by i > I_s; the fuse works in ampere throughout; __str__/__repr__ of protection devices store nothing. "
             "Monotonicity of run-time characteristic data is not decided. Round 5: one pick-up formula per current across relay types; manual time settings copied under their names.",
             "ast branch-chain / sibling-agreement / effect analysis"),
    "C30": C("No module-level mutable escapes by reference into instance state that is mutated in place; each "
             "diagnostic function that writes its parameter's tables (directly or through a callee) restores them on every "
             "normally returning path; results are returned in fresh containers. Also: no mutable class attribute shared between Diagnostic instances, no memoised function in the package. Round 5: no read of call state before this call wrote it; logger filters / level restored, no edit while iterating.",
             "shared-mutable escape analysis + CFG restore pairing"),
    "C31": C("A lookup built from a frame merged on (id, step) must be keyed on both keys; no in-place write through "
             "a view of net.trafo; written values depend on tap_pos and id_characteristic_table of the same rows. Also: formula masks exclude table transformers, table angle signed by the tapped side, vk lookup mask independent of the tap position. Round 4: table lookup independent of the tap changer type; star-point flip independent of the table flag.",
             "key-collapse dependence analysis + alias/view analysis"),
    "C32": C("Only argument order, transform pairing and serialisation bookkeeping of the characteristic classes are claimed: "
             "abscissae before ordinates from the object's own support points in np.interp / interp1d / PchipInterpolator, "
             "forwarding of kind / bounds_error / fill_value, from_points / from_gradient pairing; LogSplineCharacteristic "
             "stores log10 of x and y in the matching attributes and calls 10**interpolator(log10(x)); the cached scipy object "
             "is excluded from JSON and rebuilt from attributes assigned in __init__. The interpolation property of scipy's "
             "objects on run-time data is not decided. Round 5: no read-modify-write through a transforming property setter.",
             "ast call-binding / sibling-pairing analysis"),
    "C33": C("Only the structure of the saturation of the DER controller's target is claimed: every masked assignment reads the "
             "per-element vectors with its own mask; q is clamped with column 0 below and column 1 above of the area's "
             "flexibility (the columns in_area compares with); apparent-power saturation selects p^2+q^2 > s^2 with "
             "s = saturate_sn_mva/sn_mva, clips the prioritised quantity into +-s and derives the other as "
             "sqrt(s^2 - clipped^2) afterwards; saturation follows the P/Q steps and precedes the sn_mva conversion; the targets "
             "are written to the controller's own rows. Containment in run-time polygons and the damping are not decided. Round 3: clamp entered when not all elements are inside; single exit of the apparent-power step. Round 5: both priority modes clip and assign both quantities; area constructor parameters all used; bus voltage by label.",
             "ast mask-agreement / ordering / bound-pairing analysis"),
    "C34": C("Information-flow argument: 'was the argument passed' must be computed from information that differs "
             "between runpp(net) and runpp(net, algorithm='nr'); checks signature defaults, the passed-parameter "
             "test and overrule list agreement; the kwargs handed to the passed-parameter test are the caller's own; every "
             "stored-option reader goes through the priority function. Also: exact inequality in the passed test, overrule_options not extended after filtering, run_control branch hands every parameter on. Round 5: no local named like an option before the locals() snapshot.",
             "information-flow argument on signature/ast"),
}

NOT_APPLICABLE = {
    "C06": "agreement of five iterative solvers and two back-ends is equality of numerical fixed points; no shape-of-code clause is a necessary condition of it (DESIGN.md section 5)",
    "C21": "round-trip equality of power-flow results through ppc/mpc is numerical; a column-coverage proxy would fire on legitimate converter scope changes (DESIGN.md section 5)",
}
