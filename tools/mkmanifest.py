#!/venv/bin/python
"""Regenerates /verif/MANIFEST.json from the claims table below (kept valid at all times)."""
import json
import os
import sys

HERE = os.path.dirname(os.path.dirname(os.path.abspath(__file__)))
sys.path.insert(0, HERE)
from tools.claims import CLAIMS, NOT_APPLICABLE  # noqa: E402

BASE = ("cd /repo && /venv/bin/python -m pytest -ra -q -p no:cacheprovider --timeout=900 "
        "--continue-on-collection-errors")


def main():
    checks = []
    for pid in sorted(CLAIMS):
        c = CLAIMS[pid]
        if not os.path.exists(os.path.join(HERE, "rules", f"{pid}.py")):
            continue
        checks.append({
            "property_id": pid,
            "quick_cmd": f"./check {pid} --tier quick",
            "thorough_cmd": f"./check {pid} --tier thorough",
            "evidence_file": f"/verif/evidence/{pid}.json",
            "replay_cmd_template": f"./check {pid} --replay {{path}}",
            "engine": "ppsa",
            "level_claimed": {"category": "other", "text": c["text"], "design_ref": c.get("ref", f"DESIGN.md section 3, {pid}")},
            "level_note": c["note"],
            "technique": c["technique"],
        })
    claimed = {c["property_id"] for c in checks}
    na = [{"property_id": p, "reason": r} for p, r in sorted(NOT_APPLICABLE.items())]
    for pid in sorted(CLAIMS):
        if pid not in claimed:
            na.append({"property_id": pid, "reason": "check not built yet in this revision (static clauses are designed in DESIGN.md section 3)"})
    man = {
        "version": 1,
        "setup_cmd": "/venv/bin/python -c \"import ast, json, sys; sys.exit(0)\"",
        "hooks": {
            "guard": "E2NIEE_PANDAPOWER_VERIF",
            "enable": "none needed: static analysis reads /repo's working tree as it is; no hook commits exist",
            "baseline_off_cmd": BASE,
            "source_commits": [],
            "add_only": True,
        },
        "engines": [{
            "name": "ppsa",
            "path": "/verif/ppsa",
            "serves_properties": sorted(claimed),
            "kind_free_text": "repository-specific static analyser over Python ast (loader with import/class "
                              "resolution and in-memory overlays, call graph, statement CFG with exceptional "
                              "edges, access-path/effect analysis for net tables and ppc matrices, dependence "
                              "analysis, monomial-shape abstract interpretation, literal-table extraction, "
                              "third-party stub reader); never imports or runs pandapower",
        }],
        "checks": checks,
        "not_applicable": sorted(na, key=lambda d: d["property_id"]),
        "notes": "Static analysis only. Each check decides the structural clauses named in its level text "
                 "(necessary conditions of the property), not the numerical behaviour. Exit 2 + ANALYSIS-ERROR "
                 "means the checker could not decide (vanished anchor, instance count below the confirmed "
                 "minimum). Known genuine defects are listed in /verif/known_findings.json.",
    }
    with open(os.path.join(HERE, "MANIFEST.json"), "w") as f:
        json.dump(man, f, indent=1)
    print(f"MANIFEST.json: {len(checks)} checks, {len(na)} not_applicable")


if __name__ == "__main__":
    main()
