#!/venv/bin/python
"""Print the markdown table of DESIGN.md section 8 from seeded/results.json, seeded/*/meta.json and seeded/dispositions.json."""
import json
import os
import re

HERE = os.path.dirname(os.path.dirname(os.path.abspath(__file__)))
S = os.path.join(HERE, "seeded")
res = json.load(open(os.path.join(S, "results.json")))
disp = json.load(open(os.path.join(S, "dispositions.json"))) if os.path.exists(os.path.join(S, "dispositions.json")) else {}


def short(t, n):
    t = " ".join(str(t).split()).replace("|", "/")
    return t if len(t) <= n else t[:n - 1] + "…"


print("| seeded change | site | what the property's check reports |")
print("|---|---|---|")
caught = 0
for sid in sorted(res, key=lambda x: (x.split("-")[0], "r2" in x, x)):
    e = res[sid]
    meta = json.load(open(os.path.join(S, sid, "meta.json")))
    title = re.sub(r"^#*\s*C\d\d\s*/?\s*(r2\s*/?\s*)?(seeded\s*)?(change|mutation|defect)?\s*\d*\s*[-:–]?\s*", "", meta.get("title", ""), flags=re.I)
    site = ", ".join(os.path.basename(f) for f in meta.get("files_changed", []))
    if e["verdict"] == "CAUGHT":
        caught += 1
        rules = sorted({k.split("::")[0] for k in e["reported"]})
        last = e["reported"][0].split("::")[-1]
        rep = f"**{', '.join(rules)}** ({short(last, 50)})"
    else:
        rep = "*missed* — " + short(disp.get(sid, "").replace("missed - accepted: ", ""), 260)
    print(f"| {sid}: {short(title, 110)} | {site} | {rep} |")
print()
print(f"{caught} of {len(res)} seeded changes are reported by the check of the property they were written against.")
