#!/bin/bash
# usage: tools/seeded_rebase_patch.sh <dir with patch.diff>
# Re-creates patch.diff against /repo HEAD when it only fails because of line endings (files restored to CRLF):
# applies it with --ignore-whitespace in a scratch worktree, normalises the touched files to the line ending of HEAD, re-diffs.
set -u
d=$1
WT=/tmp/ppsa_rebasewt_$$
git -C /repo worktree add -q --detach $WT HEAD || exit 9
trap 'git -C /repo worktree remove --force $WT >/dev/null 2>&1' EXIT
cd $WT
if git apply --check $d/patch.diff 2>/dev/null; then echo "applies as is: $d"; exit 0; fi
git apply --ignore-whitespace $d/patch.diff || { echo "DOES NOT APPLY: $d"; exit 8; }
for f in $(git diff --name-only); do
  if git show HEAD:$f | head -1 | grep -q $'\r'; then
    /venv/bin/python - "$f" <<'P'
import sys
p=sys.argv[1]
b=open(p,'rb').read().replace(b'\r\n',b'\n').replace(b'\n',b'\r\n')
open(p,'wb').write(b)
P
  fi
done
git diff -- pandapower > $d/patch.diff.new
git checkout -- .
git apply --check $d/patch.diff.new && mv $d/patch.diff.new $d/patch.diff && echo "rebased: $d ($(grep -c '^[-+][^-+]' $d/patch.diff) changed lines)"
