#!/venv/bin/python
"""Confirm that seeded changes pass the existing test-suite, several at a time.

usage: seeded_batchtest.py <out.json> <candidate dir> ...
Candidates touching disjoint files are applied together to one scratch worktree of /repo HEAD and the whole suite is run once
per group (-n 16).  When a group has failures, the failing test files are re-run for every member alone to attribute them.
"""
import json
import os
import re
import subprocess
import sys

PY = "/venv/bin/python"


def sh(*a, **k):
    return subprocess.run(a, capture_output=True, text=True, **k)


def files_of(patch):
    return set(re.findall(r"^\+\+\+ b/(\S+)", open(patch).read(), re.M))


def make_wt(path):
    sh("git", "-C", "/repo", "worktree", "remove", "--force", path)
    r = sh("git", "-C", "/repo", "worktree", "add", "--detach", path, "HEAD")
    if r.returncode:
        raise SystemExit(r.stderr)


def run_tests(wt, paths, timeout=3600):
    cmd = [PY, "-m", "pytest", "-q", "-p", "no:cacheprovider", "--timeout=1800", "--continue-on-collection-errors", "-n", "16",
           "-o", "junit_family=xunit1", "--junitxml", os.path.join(wt, "_junit.xml")] + paths
    env = dict(os.environ, PYTHONPATH=wt)
    try:
        r = subprocess.run(cmd, cwd=wt, env=env, capture_output=True, text=True, timeout=timeout)
        out = r.stdout
    except subprocess.TimeoutExpired as e:
        out = (e.stdout or b"").decode() if isinstance(e.stdout, bytes) else (e.stdout or "")
        out += "\nTIMEOUT"
    failed = sorted(set(re.findall(r"^(?:FAILED|ERROR) (\S+)", out, re.M)))
    tail = out.strip().splitlines()[-1] if out.strip() else ""
    return failed, tail


def main():
    outp = sys.argv[1]
    cands = [c.rstrip("/") for c in sys.argv[2:]]
    groups = []
    for c in cands:
        fs = files_of(os.path.join(c, "patch.diff"))
        for g in groups:
            if not (fs & g["files"]):
                g["members"].append(c)
                g["files"] |= fs
                break
        else:
            groups.append({"members": [c], "files": set(fs)})
    res = json.load(open(outp)) if os.path.exists(outp) else {}
    print(f"{len(cands)} candidates in {len(groups)} groups")
    for gi, g in enumerate(groups):
        todo = [m for m in g["members"] if m not in res]
        if not todo:
            continue
        wt = f"/tmp/ppsa_batchwt_{gi}"
        make_wt(wt)
        ok_members = []
        for m in g["members"]:
            r = sh("git", "-C", wt, "apply", os.path.join(m, "patch.diff"))
            if r.returncode:
                res[m] = {"tests": "patch does not apply on HEAD", "failed": []}
            else:
                ok_members.append(m)
        failed, tail = run_tests(wt, ["pandapower/test"])
        print(f"group {gi}: {len(ok_members)} patches, suite: {tail}; failed: {failed[:6]}", flush=True)
        if not failed:
            for m in ok_members:
                res[m] = {"tests": "full suite passed in a group of %d disjoint patches: %s" % (len(ok_members), tail), "failed": []}
        else:
            ffiles = sorted({f.split("::")[0] for f in failed})
            # failures under machine load are usually pytest-timeouts of the slow tests: re-run the failing files once for the whole group
            f1, t1 = run_tests(wt, ffiles, timeout=3000)
            print(f"    re-run of {len(ffiles)} failing files with the whole group applied: {t1}; failed: {f1[:4]}", flush=True)
            if not f1:
                for m in ok_members:
                    res[m] = {"tests": "full suite in a group of %d disjoint patches: %s; the %d failing test files (%s) passed when re-run with the "
                                       "same patches applied: %s" % (len(ok_members), tail, len(ffiles), ", ".join(os.path.basename(x) for x in ffiles[:4]), t1), "failed": []}
                json.dump(res, open(outp, "w"), indent=1)
                sh("git", "-C", "/repo", "worktree", "remove", "--force", wt)
                continue
            for m in ok_members:
                sh("git", "-C", wt, "checkout", "--", "pandapower")
                sh("git", "-C", wt, "apply", os.path.join(m, "patch.diff"))
                f2, t2 = run_tests(wt, ffiles, timeout=2400)
                res[m] = {"tests": f"group of {len(ok_members)} had failures {failed[:4]}; alone on those files: {t2}", "failed": f2}
                print("   ", m, t2, f2[:4], flush=True)
            # the clean tree on the same files (flaky / pre-existing failures)
            sh("git", "-C", wt, "checkout", "--", "pandapower")
            f0, t0 = run_tests(wt, ffiles, timeout=2400)
            res["__clean__" + str(gi)] = {"tests": t0, "failed": f0}
            print("    clean:", t0, f0[:4], flush=True)
        json.dump(res, open(outp, "w"), indent=1)
        sh("git", "-C", "/repo", "worktree", "remove", "--force", wt)
    json.dump(res, open(outp, "w"), indent=1)


if __name__ == "__main__":
    main()
