#!/venv/bin/python
"""Run the checks against every kept seeded change (seeded/<id>/patch.diff) and write seeded/INDEX.md.

Each patch is applied to a scratch git worktree of /repo (never to /repo itself), the check of the property it
breaks is run with --repo <worktree> and a scratch evidence directory, and the worktree is reset.
usage: tools/seeded_eval.py [--all-checks] [id ...]
"""
import json
import os
import subprocess
import sys
import tempfile

HERE = os.path.dirname(os.path.dirname(os.path.abspath(__file__)))
SEEDED = os.path.join(HERE, "seeded")
WT = "/tmp/ppsa_evalwt"


def sh(*a, **k):
    return subprocess.run(a, capture_output=True, text=True, **k)


def ensure_wt():
    if not os.path.isdir(WT):
        r = sh("git", "-C", "/repo", "worktree", "add", "--detach", WT, "HEAD")
        if r.returncode:
            raise SystemExit(r.stderr)
    sh("git", "-C", WT, "checkout", "--detach", "-q", sh("git", "-C", "/repo", "rev-parse", "HEAD").stdout.strip())
    sh("git", "-C", WT, "checkout", "--", "pandapower")


def run_check(pid, repo):
    env = dict(os.environ, PPSA_EVIDENCE_DIR=tempfile.mkdtemp(prefix="ppsa_ev_"))
    r = subprocess.run([os.path.join(HERE, "check"), pid, "--repo", repo], capture_output=True, text=True, env=env, cwd=HERE)
    keys = [l.split("key:", 1)[1].strip() for l in r.stdout.splitlines() if l.strip().startswith("key:")]
    err = [l for l in r.stdout.splitlines() if l.startswith("ANALYSIS-ERROR")]
    return r.returncode, keys, err


def main():
    args = [a for a in sys.argv[1:] if not a.startswith("--")]
    allc = "--all-checks" in sys.argv
    ids = sorted(d for d in os.listdir(SEEDED) if os.path.isfile(os.path.join(SEEDED, d, "patch.diff")))
    if args:
        ids = [i for i in ids if i in args]
    ensure_wt()
    pids = sorted(f[:-3] for f in os.listdir(os.path.join(HERE, "rules")) if f.startswith("C") and f[1:3].isdigit() and f.endswith(".py"))
    rows = []
    for sid in ids:
        d = os.path.join(SEEDED, sid)
        meta = json.load(open(os.path.join(d, "meta.json")))
        sh("git", "-C", WT, "checkout", "--", "pandapower")
        r = sh("git", "-C", WT, "apply", os.path.join(d, "patch.diff"))
        if r.returncode:
            rows.append((sid, meta, "patch does not apply: " + r.stderr.strip()[:80], [], {}))
            continue
        rc, keys, err = run_check(meta["property"], WT)
        others = {}
        if allc:
            for p in pids:
                if p != meta["property"]:
                    rc2, k2, e2 = run_check(p, WT)
                    if rc2:
                        others[p] = (rc2, k2[:2], e2[:1])
        sh("git", "-C", WT, "checkout", "--", "pandapower")
        verdict = "CAUGHT" if rc == 1 and keys else ("ANALYSIS-ERROR" if rc == 2 else "missed")
        rows.append((sid, meta, verdict, keys if rc == 1 else err, others))
        print(sid, meta["property"], verdict, (keys or err)[:2], {k: v[0] for k, v in others.items()})
    # merge with previous index (partial runs)
    idx = os.path.join(SEEDED, "results.json")
    prev = json.load(open(idx)) if os.path.exists(idx) else {}
    for sid, meta, verdict, keys, others in rows:
        prev[sid] = {"property": meta["property"], "summary": meta.get("summary", ""), "needs": meta.get("needs", ""),
                     "verdict": verdict, "reported": keys[:4], "other_checks": {k: v[1] or v[2] for k, v in others.items()},
                     "disposition": meta.get("disposition", "")}
    json.dump(prev, open(idx, "w"), indent=1, sort_keys=True)
    with open(os.path.join(SEEDED, "INDEX.md"), "w") as f:
        f.write("# Seeded changes and what the checks report on them\n\n")
        f.write("| id | property | change | needs | check verdict | reported construct / disposition |\n|---|---|---|---|---|---|\n")
        for sid in sorted(prev):
            e = prev[sid]
            rep = "; ".join(k.split("::", 1)[0] + " :: " + k.split("::")[-1][:60] for k in e["reported"][:2]) if e["reported"] else ""
            if e.get("disposition"):
                rep = (rep + " — " if rep else "") + e["disposition"]
            f.write(f"| {sid} | {e['property']} | {e['summary']} | {e['needs']} | {e['verdict']} | {rep} |\n")
        n = len(prev)
        c = sum(1 for e in prev.values() if e["verdict"] == "CAUGHT")
        f.write(f"\n{c} of {n} seeded changes are reported by the check of the property they break.\n")
    print(f"{sum(1 for r in rows if r[2] == 'CAUGHT')}/{len(rows)} caught in this run")


if __name__ == "__main__":
    main()
