#!/bin/bash
# usage: tools/seeded_verify.sh <candidate dir with patch.diff + demo.py> [pytest paths...]
# confirms: patch applies on a scratch worktree of /repo HEAD, demo exits 0 without and 1 with the change,
# and (if test paths are given) those tests pass with the change.  Never touches /repo.
set -u
d=$1; shift
WT=/tmp/ppsa_verifywt_$$
git -C /repo worktree add -q --detach $WT HEAD || exit 9
trap 'git -C /repo worktree remove --force $WT >/dev/null 2>&1' EXIT
cd $WT
PYTHONPATH=$WT timeout 600 /venv/bin/python $d/demo.py >/tmp/sv_clean_$$.log 2>&1; c0=$?
git apply $d/patch.diff || { echo "PATCH-FAILS"; exit 8; }
/venv/bin/python -m compileall -q $(git diff --name-only | grep '\.py$') >/dev/null || { echo "COMPILE-FAILS"; exit 7; }
PYTHONPATH=$WT timeout 600 /venv/bin/python $d/demo.py >/tmp/sv_mut_$$.log 2>&1; c1=$?
echo "demo clean=$c0 mutated=$c1  files: $(git diff --name-only | tr '\n' ' ')"
tail -2 /tmp/sv_mut_$$.log | grep -v WARNING
if [ $# -gt 0 ]; then
  PYTHONPATH=$WT /venv/bin/python -m pytest -q -p no:cacheprovider --timeout=900 -n ${JOBS:-8} "$@" 2>&1 | tail -3
fi
rm -f /tmp/sv_clean_$$.log /tmp/sv_mut_$$.log
[ $c0 -eq 0 ] && [ $c1 -eq 1 ]
