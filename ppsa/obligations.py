"""Shape obligations: run one anchor function under stated argument types / option presets and
require the abstract shape of named sinks (stores, return values) to have a given form."""
from __future__ import annotations

from fractions import Fraction
from typing import Dict, List, Optional, Sequence

from . import facts, shape as sh
from .absint import AV, E, deps_of, shape_of
from .loader import AnalysisError


class Sink:
    """where: 'store:<path>' | 'ret' | 'ret:<i>' | 'heap:<path>' | 'local:<var>.<col>'"""

    def __init__(self, where: str, exps: Optional[Dict[str, object]] = None, dec: Optional[int] = 0,
                 needs: Sequence[str] = (), fn: Optional[str] = None, sign: Optional[int] = None,
                 allow_zero: bool = False, forbids: Sequence[str] = (), note: str = "", deps_only: bool = False,
                 skip_top: bool = False, data_needs: Sequence[str] = (), data_forbids: Sequence[str] = (),
                 together: Sequence = ()):
        self.where = where
        self.exps = {k: (v if v == "any" else Fraction(v)) for k, v in (exps or {}).items()}
        self.dec = dec
        self.needs = tuple(needs)
        self.forbids = tuple(forbids)
        self.fn = fn
        self.sign = sign
        self.allow_zero = allow_zero
        self.note = note
        self.deps_only = deps_only
        self.data_needs = tuple(data_needs)      # atoms that must be factors of the value itself (not only control dependences)
        self.data_forbids = tuple(data_forbids)
        self.together = tuple(together)      # (a, b): every term that has factor a also has factor b
        self.skip_top = skip_top   # other stores of unknown shape into the same column (initialisation, generic copies) are ignored


class Case:
    def __init__(self, name: str, fq: str, sinks: List[Sink], args: Optional[Dict[str, AV]] = None,
                 options: Optional[Dict[str, object]] = None, schema_cols: bool = True, doc: str = ""):
        self.name = name
        self.fq = fq
        self.sinks = sinks
        self.args = args or {}
        self.options = options or {}
        self.schema_cols = schema_cols
        self.doc = doc


TRACKED = ("B", "par", "vm", "V", "A", "km", "s")


def kv(name, atoms=None):
    return facts.sym(name, {"V": 1}, 3, atoms)


def ka(name, atoms=None):
    return facts.sym(name, {"A": 1}, 3, atoms)


def mva(name, atoms=None):
    return facts.sym(name, {"V": 1, "A": 1}, 6, atoms)


def base_mva(atom="net.sn_mva"):
    return AV(frozenset([atom]), "val", None, sh.base_power(atom))


def pu_z(name):
    return facts.sym(name, {"B": 1})


def pu_y(name):
    return facts.sym(name, {"B": -1})


def pure(name):
    return facts.sym(name)


def table(name, tag="net"):
    return AV(E, "table", (tag, frozenset([name])), sh.TOP, E, frozenset([f"{tag}.{name}"]))


def _select(it, fr, sink: Sink):
    w = sink.where
    if w.startswith("store:"):
        path = w[6:]
        ss = [s for s in it.stores if s.path == path and (sink.fn is None or (s.fn is not None and s.fn.name == sink.fn))]
        # only stores whose value carries source atoms (default literals such as RATE_A = 100. are skipped)
        vals = []
        for s in ss:
            v = s.value
            if v.kind == "colormeth":
                v = v.with_(kind="val", data=None)
            vals.append((v, s))
        return vals
    if w == "ret" or w.startswith("ret:"):
        r = fr.ret
        if ":" in w:
            i = int(w.split(":")[1])
            if r.kind not in ("tuple", "list") or i >= len(r.data):
                return None
            r = r.data[i]
        return [(r, None)]
    if w.startswith("heap:"):
        v = it.heap.get(w[5:])
        return [(v, None)] if v is not None else []
    if w.startswith("local:"):
        path = "local." + w[6:]
        ss = [s for s in it.stores if s.path == path]
        return [(s.value, s) for s in ss]
    raise AnalysisError(f"bad sink selector {w}")


ASPECTS = {"units": ("V", "A", "km", "s"), "base": ("B",), "par": ("par",), "vm": ("vm",)}


def run_cases(ctx, rule: str, cases: List[Case], aspects=("units", "base", "par", "vm", "dec", "needs", "sign")):
    tracked = tuple(sym for a in aspects for sym in ASPECTS.get(a, ()))
    for case in cases:
        try:
            it, fr = facts.analyse(ctx.repo, case.fq, args=dict(case.args), options=dict(case.options),
                                   schema_cols=case.schema_cols, local_stores=True)
        except RecursionError:
            raise AnalysisError(f"{case.fq}: recursion limit")
        fi = ctx.repo.func(case.fq)
        mod, fn = case.fq.split(":")
        for sink in case.sinks:
            key = f"{mod}::{fn}::{case.name}:{sink.where}"
            got = _select(it, fr, sink)
            if not got:
                raise AnalysisError(f"{case.fq} [{case.name}]: sink {sink.where} not found (anchor moved)")
            problems = []
            loc = fi.loc()
            alldeps = set()
            n_mono = 0
            for v, st in got:
                if st is not None:
                    loc = st.fn.loc(st.node)
                s = shape_of(v)
                alldeps |= deps_of(v)
                if sink.deps_only:
                    n_mono += 1
                    continue
                if sh.is_bad(s):
                    problems.append(f"dimensionally inconsistent: {s.why}")
                    n_mono += 1
                    continue
                if s is sh.TOP:
                    # a store of a pure default literal next to the real one is tolerated only if it has no deps
                    if not deps_of(v) or sink.skip_top:
                        continue
                    raise AnalysisError(f"{case.fq} [{case.name}]: shape of {sink.where} became undecidable (TOP)")
                for m in s:
                    src = [a for a in m.facs if not a.startswith(("opt.", "lookup."))]
                    if not src:
                        continue  # literal-only term (defaults such as RATE_A = 100.)
                    if sink.where.startswith("store:") and set(src) <= {sink.where[6:]}:
                        continue  # the column's own previous content (dtype-preserving re-assignment of the table)
                    n_mono += 1
                    for sym in tracked:
                        if sink.exps.get(sym) == "any":
                            continue
                        want = sink.exps.get(sym, Fraction(0))
                        if m.exp(sym) != want:
                            problems.append(f"term {m!r}: {sym}^{m.exp(sym)} (required {sym}^{want})")
                            break
                    else:
                        if "dec" in aspects and sink.dec is not None and m.dec != sink.dec:
                            problems.append(f"term {m!r}: decimal scale 1e{m.dec} (required 1e{sink.dec})")
                        elif "sign" in aspects and sink.sign is not None and m.sign != sink.sign:
                            problems.append(f"term {m!r}: sign {m.sign} (required {sink.sign})")
            datafacs = set()
            for v, st in got:
                s_ = shape_of(v)
                if s_ is not sh.TOP and not sh.is_bad(s_):
                    for m in s_:
                        datafacs |= set(m.facs)
            for a_, b_ in sink.together:
                for v, st in got:
                    s_ = shape_of(v)
                    if s_ is sh.TOP or sh.is_bad(s_):
                        continue
                    for m in s_:
                        if a_ in m.facs and b_ not in m.facs:
                            problems.append(f"term {m!r} has the factor {a_} without {b_}")
            for need in sink.data_needs:
                if need not in datafacs:
                    problems.append(f"value is not computed from {need}")
            for fb in sink.data_forbids:
                if fb in datafacs:
                    problems.append(f"value is computed from {fb}")
            if n_mono == 0 and not sink.allow_zero:
                problems.append("no term with source atoms reaches the sink")
            for need in (sink.needs if "needs" in aspects else ()):
                if not any(need == d or (need.endswith("*") and d.startswith(need[:-1])) for d in alldeps):
                    problems.append(f"does not depend on {need}")
            for fb in sink.forbids:
                if any(fb == d for d in alldeps):
                    problems.append(f"depends on {fb}")
            want_txt = " ".join(f"{k}^{v}" for k, v in sorted(sink.exps.items()) if k in tracked and v != "any") or "degree 0 / dimensionless"
            ctx.ob(rule, key, not problems,
                   (f"{sink.where} has shape [{want_txt}" + (f", 1e{sink.dec}" if "dec" in aspects else "") + "]"
                    + (f" and depends on {list(sink.needs)}" if sink.needs and "needs" in aspects else ""))
                   if not problems else f"{sink.where}: " + "; ".join(problems[:3]),
                   loc, nontrivial=n_mono > 0, detail={"case": case.name, "doc": case.doc, "terms": n_mono})
