"""Generic intraprocedural path enumeration with exceptional control flow.

Statements are walked syntax-directed; a client supplies an immutable hashable `state` and a
transfer function for simple statements.  Every call is a potential raise point.  Outcomes are
(kind, state, site) with kind in {fall, return, raise}; states are deduplicated per kind.
"""
from __future__ import annotations

import ast
from typing import Callable, Hashable, List, Optional, Tuple

from .astutil import dotted

FALL, RET, RAISE, BRK, CONT = "fall", "return", "raise", "break", "continue"
Out = Tuple[str, Hashable, Optional[ast.AST]]


class PathEnum:
    def __init__(self, transfer: Callable[[ast.stmt, Hashable], Hashable],
                 may_raise: Optional[Callable[[ast.Call], bool]] = None, max_states: int = 256):
        self.transfer = transfer
        self.may_raise = may_raise or (lambda c: True)
        self.max_states = max_states

    def run(self, fn: ast.FunctionDef, init: Hashable) -> List[Out]:
        outs = self.block(fn.body, [(FALL, init, None)])
        res = []
        for k, s, site in outs:
            res.append((FALL if k in (BRK, CONT) else k, s, site))
        return self._dedup(res)

    def _dedup(self, outs: List[Out]) -> List[Out]:
        seen = {}
        for k, s, site in outs:
            seen.setdefault((k, s), (k, s, site))
        return list(seen.values())[: self.max_states]

    def block(self, body, ins: List[Out]) -> List[Out]:
        done: List[Out] = []
        cur = ins
        for st in body:
            if not cur:
                break
            outs = self.stmt(st, cur)
            cur = self._dedup([o for o in outs if o[0] == FALL])
            done += [o for o in outs if o[0] != FALL]
        return self._dedup(done + cur)

    def _calls_raise(self, exprs, ins: List[Out]) -> List[Out]:
        outs = list(ins)
        for e in exprs:
            if e is None:
                continue
            for n in ast.walk(e):
                if isinstance(n, ast.Call) and self.may_raise(n):
                    outs += [(RAISE, s, n) for k, s, _ in ins]
        return outs

    def stmt(self, st, ins: List[Out]) -> List[Out]:
        if isinstance(st, (ast.FunctionDef, ast.AsyncFunctionDef, ast.ClassDef, ast.Import, ast.ImportFrom, ast.Pass,
                           ast.Global, ast.Nonlocal)):
            return ins
        if isinstance(st, ast.Return):
            o = self._calls_raise([st.value], ins)
            return [(RET, s, st) if k == FALL else (k, s, site) for k, s, site in o]
        if isinstance(st, ast.Raise):
            return [(RAISE, s, st) for k, s, _ in ins]
        if isinstance(st, ast.Break):
            return [(BRK, s, st) for k, s, _ in ins]
        if isinstance(st, ast.Continue):
            return [(CONT, s, st) for k, s, _ in ins]
        if isinstance(st, ast.If):
            t = self._calls_raise([st.test], ins)
            falls = [o for o in t if o[0] == FALL]
            rest = [o for o in t if o[0] != FALL]
            return rest + self.block(st.body, falls) + (self.block(st.orelse, falls) if st.orelse else falls)
        if isinstance(st, (ast.For, ast.AsyncFor, ast.While)):
            hdr = [st.iter] if not isinstance(st, ast.While) else [st.test]
            t = self._calls_raise(hdr, ins)
            falls = [o for o in t if o[0] == FALL]
            rest = [o for o in t if o[0] != FALL]
            after = list(falls)
            cur = falls
            for _ in range(2):  # zero, one or two iterations
                body = self.block(st.body, cur)
                cur = []
                for k, s, site in body:
                    if k in (FALL, CONT):
                        cur.append((FALL, s, site))
                        after.append((FALL, s, site))
                    elif k == BRK:
                        after.append((FALL, s, site))
                    else:
                        rest.append((k, s, site))
                cur = self._dedup(cur)
            after = self._dedup(after)
            if st.orelse:
                return rest + self.block(st.orelse, after)
            return rest + after
        if isinstance(st, (ast.With, ast.AsyncWith)):
            t = self._calls_raise([i.context_expr for i in st.items], ins)
            falls = [o for o in t if o[0] == FALL]
            rest = [o for o in t if o[0] != FALL]
            return rest + self.block(st.body, falls)
        if isinstance(st, ast.Try):
            return self.try_stmt(st, ins)
        # simple statement
        exprs = [n for n in ast.iter_child_nodes(st) if isinstance(n, ast.expr)]
        t = self._calls_raise(exprs, ins)
        out = []
        for k, s, site in t:
            if k == FALL:
                out.append((FALL, self.transfer(st, s), site))
            else:
                out.append((k, s, site))
        return out

    def try_stmt(self, st, ins):
        body = self.block(st.body, ins)
        catch_all = any(h.type is None or dotted(h.type) in ("Exception", "BaseException") for h in st.handlers)
        outs: List[Out] = []
        raised = [o for o in body if o[0] == RAISE]
        normal = [o for o in body if o[0] != RAISE]
        if st.handlers:
            handled_in = self._dedup([(FALL, s, site) for k, s, site in raised])
            if not catch_all:
                outs += raised
            for h in st.handlers:
                outs += self.block(h.body, handled_in)
        else:
            outs += raised
        falls = [o for o in normal if o[0] == FALL]
        outs += [o for o in normal if o[0] != FALL]
        outs += self.block(st.orelse, falls) if st.orelse else falls
        if st.finalbody:
            res = []
            for k, s, site in self._dedup(outs):
                for fk, fs, fsite in self.block(st.finalbody, [(FALL, s, site)]):
                    res.append((k, fs, site) if fk == FALL else (fk, fs, fsite))
            return res
        return outs
