"""Exported-name tables of installed third-party packages, read from their .pyi/.py files as
text (ast) - the packages are never imported."""
from __future__ import annotations

import ast
import glob
import os
from typing import Dict, Optional, Set, Tuple

SITE = None


def site_packages() -> str:
    global SITE
    if SITE is None:
        cands = sorted(glob.glob("/venv/lib/python3*/site-packages"))
        if not cands:
            raise RuntimeError("site-packages of /venv not found")
        SITE = cands[-1]
    return SITE


class ModNames:
    """names: exported names; open: True when the namespace cannot be enumerated statically
    (module-level __getattr__ without a stub, star import from an unresolvable module)."""

    def __init__(self):
        self.names: Set[str] = set()
        self.submodules: Set[str] = set()
        self.open = False
        self.found = False
        self.source = ""


_cache: Dict[str, ModNames] = {}


def _module_file(dotted: str) -> Tuple[Optional[str], Optional[str]]:
    """(path of the file describing the namespace, package dir or None)."""
    sp = site_packages()
    parts = dotted.split(".")
    # stub-only distributions first (scipy-stubs, pandas-stubs)
    roots = [os.path.join(sp, parts[0]), os.path.join(sp, parts[0] + "-stubs")]
    best = (None, None)
    for root in roots:
        base = os.path.join(root, *parts[1:])
        if os.path.isdir(base):
            for fn in ("__init__.pyi", "__init__.py"):
                p = os.path.join(base, fn)
                if os.path.exists(p):
                    if best[0] is None or (p.endswith(".pyi") and not best[0].endswith(".pyi")):
                        best = (p, base)
                    break
        else:
            for ext in (".pyi", ".py"):
                p = base + ext
                if os.path.exists(p):
                    if best[0] is None or (p.endswith(".pyi") and not best[0].endswith(".pyi")):
                        best = (p, None)
                    break
    return best


def module_names(dotted: str) -> ModNames:
    if dotted in _cache:
        return _cache[dotted]
    mn = ModNames()
    _cache[dotted] = mn
    path, pkgdir = _module_file(dotted)
    sp = site_packages()
    parts = dotted.split(".")
    # submodules from every directory that represents the package (real + stubs)
    for root in (os.path.join(sp, parts[0]), os.path.join(sp, parts[0] + "-stubs")):
        d = os.path.join(root, *parts[1:])
        if os.path.isdir(d):
            for fn in os.listdir(d):
                full = os.path.join(d, fn)
                if os.path.isdir(full) and fn != "__pycache__" and fn != "tests":
                    mn.submodules.add(fn)
                else:
                    stem = fn.split(".")[0]
                    if fn.endswith((".py", ".pyi", ".so")) and stem != "__init__":
                        mn.submodules.add(stem)
    if path is None:
        # compiled module or missing: cannot enumerate
        mn.open = True
        return mn
    mn.found = True
    mn.source = path
    try:
        with open(path, encoding="utf-8", errors="replace") as f:
            tree = ast.parse(f.read())
    except SyntaxError:
        mn.open = True
        return mn
    is_stub = path.endswith(".pyi")

    def visit(body):
        for st in body:
            if isinstance(st, ast.Import):
                for al in st.names:
                    mn.names.add(al.asname or al.name.split(".")[0])
            elif isinstance(st, ast.ImportFrom):
                for al in st.names:
                    if al.name == "*":
                        # resolve star import from a sibling module if possible
                        if st.level >= 1:
                            base = parts if pkgdir else parts[:-1]
                            base = base[: len(base) - (st.level - 1)]
                            tgt = ".".join(base + ([st.module] if st.module else []))
                        else:
                            tgt = st.module or ""
                        sub = module_names(tgt) if tgt else None
                        if sub is None or sub.open or not sub.found:
                            mn.open = True
                        else:
                            mn.names |= {n for n in sub.names if not n.startswith("_")}
                    else:
                        mn.names.add(al.asname or al.name)
            elif isinstance(st, (ast.FunctionDef, ast.AsyncFunctionDef, ast.ClassDef)):
                mn.names.add(st.name)
                if st.name == "__getattr__" and not is_stub:
                    mn.open = True
            elif isinstance(st, ast.Assign):
                for t in st.targets:
                    for n in ast.walk(t):
                        if isinstance(n, ast.Name):
                            mn.names.add(n.id)
            elif isinstance(st, ast.AnnAssign) and isinstance(st.target, ast.Name):
                mn.names.add(st.target.id)
            elif hasattr(ast, "TypeAlias") and isinstance(st, ast.TypeAlias):
                mn.names.add(st.name.id)
            elif isinstance(st, (ast.If, ast.Try)):
                visit(st.body)
                visit(getattr(st, "orelse", []))
                for h in getattr(st, "handlers", []):
                    visit(h.body)
                visit(getattr(st, "finalbody", []))
            elif isinstance(st, ast.With):
                visit(st.body)
    visit(tree.body)
    return mn


def resolve_chain(root: str, attrs) -> Tuple[str, str]:
    """Walk root.attr1.attr2...  Returns (verdict, detail): verdict in
    'ok' (every step through module namespaces resolved, or reached a non-module object),
    'unknown' (namespace not enumerable), 'missing' (a name does not exist)."""
    cur = root
    mn = module_names(cur)
    if not mn.found and not mn.submodules:
        return "unknown", f"{cur} not installed"
    for i, a in enumerate(attrs):
        mn = module_names(cur)
        in_names = a in mn.names
        is_sub = a in mn.submodules
        if is_sub:
            cur = cur + "." + a
            continue
        if in_names:
            # a non-module object (function/class/constant) or a re-exported module we do not
            # follow: stop here, deeper attributes are object attributes
            return "ok", f"{cur}.{a}"
        if mn.open or not mn.found:
            return "unknown", f"{cur} namespace is open"
        return "missing", f"{cur} has no attribute '{a}' (namespace read from {mn.source})"
    return "ok", cur
