"""Small syntax-tree helpers shared by the rules."""
from __future__ import annotations

import ast
import re
from typing import Any, Dict, Iterable, Iterator, List, Optional, Sequence, Set, Tuple


def norm(node: ast.AST, limit: int = 160) -> str:
    """Normalised statement text: ast.unparse with whitespace removed (keys, never lines)."""
    try:
        s = ast.unparse(node)
    except Exception:  # pragma: no cover
        s = type(node).__name__
    s = re.sub(r"\s+", "", s)
    return s if len(s) <= limit else s[:limit] + "..."


def head(node: ast.AST, limit: int = 140) -> str:
    """First line of the unparsed statement (for compound statements only the header)."""
    if isinstance(node, (ast.If, ast.While)):
        s = f"{type(node).__name__.lower()} {ast.unparse(node.test)}:"
    elif isinstance(node, ast.For):
        s = f"for {ast.unparse(node.target)} in {ast.unparse(node.iter)}:"
    elif isinstance(node, ast.With):
        s = "with " + ", ".join(ast.unparse(i) for i in node.items) + ":"
    elif isinstance(node, ast.Try):
        s = "try:"
    elif isinstance(node, (ast.FunctionDef, ast.ClassDef)):
        s = f"def {node.name}"
    else:
        s = ast.unparse(node)
    s = " ".join(s.split())
    return s if len(s) <= limit else s[:limit] + "..."


def dotted(node: ast.AST) -> Optional[str]:
    """'a.b.c' for Name/Attribute chains, else None."""
    parts = []
    while isinstance(node, ast.Attribute):
        parts.append(node.attr)
        node = node.value
    if isinstance(node, ast.Name):
        parts.append(node.id)
        return ".".join(reversed(parts))
    return None


def call_name(call: ast.Call) -> Optional[str]:
    return dotted(call.func)


def last_attr(call: ast.Call) -> Optional[str]:
    f = call.func
    if isinstance(f, ast.Attribute):
        return f.attr
    if isinstance(f, ast.Name):
        return f.id
    return None


def calls_in(node: ast.AST) -> Iterator[ast.Call]:
    for n in ast.walk(node):
        if isinstance(n, ast.Call):
            yield n


def walk_no_nested(node: ast.AST) -> Iterator[ast.AST]:
    """ast.walk that does not descend into nested function/class definitions or lambdas'
    bodies (the root itself may be a FunctionDef)."""
    stack = [node]
    first = True
    while stack:
        n = stack.pop()
        if not first and isinstance(n, (ast.FunctionDef, ast.AsyncFunctionDef, ast.ClassDef)):
            continue
        first = False
        yield n
        stack.extend(reversed(list(ast.iter_child_nodes(n))))


def names_in(node: ast.AST) -> Set[str]:
    return {n.id for n in ast.walk(node) if isinstance(n, ast.Name)}


def const_str(node: ast.AST, env: Optional[Dict[str, Any]] = None) -> Optional[str]:
    """Fold a string expression: literals, +, %, f-strings and .format over constants/env."""
    v = fold(node, env)
    return v if isinstance(v, str) else None


class _NoFold(Exception):
    pass


def fold(node: ast.AST, env: Optional[Dict[str, Any]] = None) -> Any:
    """Constant-fold to python values (str/num/bool/None/list/tuple/set/dict) or return
    the sentinel NOFOLD."""
    try:
        return _fold(node, env or {})
    except _NoFold:
        return NOFOLD


class _NoFoldType:
    def __repr__(self):
        return "NOFOLD"

    def __bool__(self):
        return False


NOFOLD = _NoFoldType()


def _fold(node, env):
    if isinstance(node, ast.Constant):
        return node.value
    if isinstance(node, ast.Name):
        if node.id in env:
            return env[node.id]
        raise _NoFold
    if isinstance(node, (ast.List, ast.Tuple, ast.Set)):
        out = []
        for e in node.elts:
            if isinstance(e, ast.Starred):
                out.extend(_fold(e.value, env))
            else:
                out.append(_fold(e, env))
        if isinstance(node, ast.Tuple):
            return tuple(out)
        if isinstance(node, ast.Set):
            return set(out)
        return out
    if isinstance(node, ast.Dict):
        d = {}
        for k, v in zip(node.keys, node.values):
            if k is None:
                d.update(_fold(v, env))
            else:
                try:
                    d[_fold(k, env)] = _fold(v, env)
                except _NoFold:
                    d[_fold(k, env)] = NOFOLD
        return d
    if isinstance(node, ast.JoinedStr):
        s = ""
        for p in node.values:
            if isinstance(p, ast.Constant):
                s += str(p.value)
            elif isinstance(p, ast.FormattedValue):
                s += str(_fold(p.value, env))
            else:
                raise _NoFold
        return s
    if isinstance(node, ast.BinOp):
        l = _fold(node.left, env)
        r = _fold(node.right, env)
        try:
            if isinstance(node.op, ast.Add):
                return l + r
            if isinstance(node.op, ast.Mod):
                return l % r
            if isinstance(node.op, ast.Mult):
                return l * r
            if isinstance(node.op, ast.Sub):
                return l - r
            if isinstance(node.op, ast.Div):
                return l / r
            if isinstance(node.op, ast.Pow):
                return l ** r
            if isinstance(node.op, ast.BitOr) and isinstance(l, set):
                return l | r
        except Exception:
            raise _NoFold
        raise _NoFold
    if isinstance(node, ast.UnaryOp) and isinstance(node.op, ast.USub):
        v = _fold(node.operand, env)
        if isinstance(v, (int, float)):
            return -v
        raise _NoFold
    if isinstance(node, ast.Call):
        fn = node.func
        if isinstance(fn, ast.Attribute) and fn.attr == "format" and not node.keywords:
            base = _fold(fn.value, env)
            args = [_fold(a, env) for a in node.args]
            if isinstance(base, str):
                try:
                    return base.format(*args)
                except Exception:
                    raise _NoFold
        if isinstance(fn, ast.Name) and fn.id in ("list", "tuple", "set", "sorted") and len(node.args) == 1:
            v = _fold(node.args[0], env)
            if isinstance(v, dict):
                v = list(v)
            return {"list": list, "tuple": tuple, "set": set, "sorted": sorted}[fn.id](v)
        if isinstance(fn, ast.Name) and fn.id == "dict":
            d = {}
            for a in node.args:
                v = _fold(a, env)
                d.update(v)
            for kw in node.keywords:
                if kw.arg is None:
                    d.update(_fold(kw.value, env))
                else:
                    try:
                        d[kw.arg] = _fold(kw.value, env)
                    except _NoFold:
                        d[kw.arg] = NOFOLD
            return d
        if isinstance(fn, ast.Name) and fn.id == "str" and len(node.args) == 1:
            return str(_fold(node.args[0], env))
        raise _NoFold
    if isinstance(node, ast.Subscript):
        base = _fold(node.value, env)
        idx = _fold(node.slice, env)
        try:
            return base[idx]
        except Exception:
            raise _NoFold
    if isinstance(node, ast.IfExp):
        raise _NoFold
    raise _NoFold


def str_elements(node: ast.AST, env=None) -> Optional[List[str]]:
    """List of strings if node folds to a sequence/set/dict-keys of strings."""
    v = fold(node, env)
    if v is NOFOLD:
        return None
    if isinstance(v, dict):
        v = list(v)
    if isinstance(v, (list, tuple, set, frozenset)) and all(isinstance(x, str) for x in v):
        return list(v)
    if isinstance(v, str):
        return [v]
    return None


def find_assigns(fn: ast.AST, name: str) -> List[ast.Assign]:
    out = []
    for n in walk_no_nested(fn):
        if isinstance(n, ast.Assign):
            for t in n.targets:
                if isinstance(t, ast.Name) and t.id == name:
                    out.append(n)
                elif isinstance(t, (ast.Tuple, ast.List)) and any(
                        isinstance(e, ast.Name) and e.id == name for e in t.elts):
                    out.append(n)
    return out


def parent_map(root: ast.AST) -> Dict[ast.AST, ast.AST]:
    pm = {}
    for p in ast.walk(root):
        for c in ast.iter_child_nodes(p):
            pm[c] = p
    return pm


def enclosing_stmt(node: ast.AST, pm: Dict[ast.AST, ast.AST]) -> ast.AST:
    n = node
    while n in pm and not isinstance(n, ast.stmt):
        n = pm[n]
    return n


def kwarg(call: ast.Call, name: str) -> Optional[ast.AST]:
    for kw in call.keywords:
        if kw.arg == name:
            return kw.value
    return None


def arg_or_kw(call: ast.Call, pos: int, name: str) -> Optional[ast.AST]:
    if len(call.args) > pos and not any(isinstance(a, ast.Starred) for a in call.args[: pos + 1]):
        return call.args[pos]
    return kwarg(call, name)


def is_name(node, id_):
    return isinstance(node, ast.Name) and node.id == id_


def stmts_in_order(body: Sequence[ast.stmt]) -> Iterator[ast.stmt]:
    """All statements of a body in source order, descending into compound statements
    but not into nested defs."""
    for st in body:
        yield st
        if isinstance(st, (ast.FunctionDef, ast.AsyncFunctionDef, ast.ClassDef)):
            continue
        for f in ("body", "orelse", "finalbody"):
            b = getattr(st, f, None)
            if b and isinstance(b, list):
                yield from stmts_in_order(b)
        for h in getattr(st, "handlers", []) or []:
            yield from stmts_in_order(h.body)
        for c in getattr(st, "cases", []) or []:
            yield from stmts_in_order(c.body)


def inline_locals(fn: ast.AST, expr: ast.AST, depth: int = 4, keep: Sequence[str] = ()) -> ast.AST:
    """Copy of expr in which every Name that is bound exactly once in fn, by a plain `name = value` statement (never augmented,
    never a loop / with / parameter / tuple target), is replaced by that value - recursively up to `depth`.  Rules that compare
    normalised expression text use it so that introducing or removing a local alias does not change their verdict."""
    import copy
    binds: Dict[str, List[ast.AST]] = {}
    multi: Set[str] = set()
    for n in ast.walk(fn):
        if isinstance(n, ast.Assign):
            for t in n.targets:
                if isinstance(t, ast.Name):
                    binds.setdefault(t.id, []).append(n.value)
                else:
                    for x in ast.walk(t):
                        if isinstance(x, ast.Name) and isinstance(x.ctx, ast.Store):
                            multi.add(x.id)
        elif isinstance(n, (ast.AugAssign, ast.AnnAssign)):
            if isinstance(n.target, ast.Name):
                multi.add(n.target.id)
        elif isinstance(n, (ast.For, ast.comprehension)):
            for x in ast.walk(n.target):
                if isinstance(x, ast.Name):
                    multi.add(x.id)
        elif isinstance(n, ast.arg):
            multi.add(n.arg)
        elif isinstance(n, ast.NamedExpr) and isinstance(n.target, ast.Name):
            multi.add(n.target.id)
    single = {k: v[0] for k, v in binds.items() if len(v) == 1 and k not in multi and k not in keep}

    class T(ast.NodeTransformer):
        def __init__(self, d):
            self.d = d

        def visit_Name(self, node):
            if isinstance(node.ctx, ast.Load) and node.id in single and self.d > 0:
                return T(self.d - 1).visit(copy.deepcopy(single[node.id]))
            return node
    return T(depth).visit(copy.deepcopy(expr))
