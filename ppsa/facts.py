"""Convenience layer over the abstract interpreter for the rule modules."""
from __future__ import annotations

from typing import Dict, FrozenSet, Iterable, List, Optional, Set, Tuple

from . import shape as sh
from .absint import AV, E, Interp, Store, const, deps_of, join_all
from .loader import AnalysisError, Repo
from .schema import Schema

_schema_cache: Dict[int, Schema] = {}


def schema_of(repo: Repo) -> Schema:
    s = _schema_cache.get(id(repo))
    if s is None:
        s = Schema(repo)
        _schema_cache[id(repo)] = s
    return s


def matrix(name: str) -> AV:
    return AV(E, "matrix", name, sh.TOP)


def sym(name: str, exps=None, dec=0, atoms=None) -> AV:
    a = atoms or [name]
    return AV(frozenset(a), "val", None, sh.S(sh.Mono(exps or {}, sh.Fraction(dec), 1, a)))


def analyse(repo: Repo, fq: str, args: Optional[Dict[str, AV]] = None, options: Optional[Dict[str, object]] = None,
            max_depth: int = 7, local_stores: bool = False, defaults: bool = True, schema_cols: bool = False, memo: bool = False, **kw):
    it = Interp(repo, schema_of(repo), max_depth=max_depth, **kw)
    it.memo_calls = memo
    it.assume_schema_columns = schema_cols
    it.record_local_stores = local_stores
    it.bind_defaults_at_entry = defaults
    if options:
        it.options = {k: (v if isinstance(v, AV) else const(v)) for k, v in options.items()}
    fi = repo.func(fq)
    fr = it.run_function(fi, dict(args or {}))
    return it, fr


def stores(it: Interp, path: str, fn: Optional[str] = None) -> List[Store]:
    return [s for s in it.stores if s.path == path and (fn is None or (s.fn is not None and s.fn.name == fn))]


def joined_value(ss: List[Store]) -> AV:
    vals = []
    for s in ss:
        v = s.value
        if v.kind == "colormeth":
            v = v.with_(kind="val", data=None)
        vals.append(v)
    return join_all(vals)


def monos(shape) -> Optional[Set[Tuple[int, FrozenSet[str], Tuple]]]:
    """(sign, facs, exps) triples, None for TOP."""
    if shape is sh.TOP or sh.is_bad(shape):
        return None
    return {(m.sign, m.facs, m.exps, m.dec) for m in shape}


def sigs(shape, drop_prefixes=("lookup.", "param.", "rows.")) -> Optional[Set[Tuple[int, FrozenSet[str]]]]:
    if shape is sh.TOP or sh.is_bad(shape):
        return None
    out = set()
    for m in shape:
        f = frozenset(a for a in m.facs if not a.startswith(drop_prefixes))
        out.add((m.sign, f))
    return out


def fmt_sig(sig) -> str:
    s, f = sig[0], sig[1]
    return {1: "+", -1: "-", 0: "?"}[s] + "*".join(sorted(f))


def undecided(shape) -> bool:
    return shape is sh.TOP or sh.is_bad(shape)
