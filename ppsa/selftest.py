"""Self-test of a rule module: mutation variants analysed as in-memory overlays.

A rule module may define  variants(repo) -> list of Variant.  Each variant is an edit of the
*current* source of one anchor file (text substitution or ast-computed), must still compile, and
must make the rule report a new violation whose key contains `expect` (or, for a passing twin
with expect=None, must stay silent).  A self-test that does not behave is an ANALYSIS-ERROR.
"""
from __future__ import annotations

import concurrent.futures as cf
import importlib
import os
import re
from typing import Callable, Dict, List, Optional

from .loader import AnalysisError, Repo
from .report import Ctx


class Variant:
    def __init__(self, name: str, path: str, edit: Callable[[str], str], expect: Optional[str],
                 note: str = ""):
        self.name = name
        self.path = path  # relative to repo root
        self.edit = edit
        self.expect = expect
        self.note = note


def sub_once(pattern: str, repl: str, flags=0) -> Callable[[str], str]:
    """Edit that substitutes exactly one regex match; raises if the anchor text moved."""
    rx = re.compile(pattern, flags)

    def _e(src: str) -> str:
        ms = list(rx.finditer(src))
        if len(ms) < 1:
            raise AnalysisError(f"self-test edit anchor not found: {pattern!r}")
        new, n = rx.subn(repl, src, count=1)
        return new
    return _e


def replace_once(old: str, new: str, occurrence: int = 0) -> Callable[[str], str]:
    def _e(src: str) -> str:
        idx = -1
        for _ in range(occurrence + 1):
            idx = src.find(old, idx + 1)
            if idx < 0:
                raise AnalysisError(f"self-test edit anchor not found: {old!r}")
        return src[:idx] + new + src[idx + len(old):]
    return _e


def in_function(fname: str, inner: Callable[[str], str]) -> Callable[[str], str]:
    """Apply an edit only inside the source segment of top-level/class function `fname`."""
    import ast

    def _e(src: str) -> str:
        tree = ast.parse(src)
        target = None
        for n in ast.walk(tree):
            if isinstance(n, (ast.FunctionDef, ast.AsyncFunctionDef)) and n.name == fname:
                target = n
                break
        if target is None:
            raise AnalysisError(f"self-test: function {fname} not found")
        lines = src.splitlines(keepends=True)
        a, b = target.lineno - 1, target.end_lineno
        seg = "".join(lines[a:b])
        return "".join(lines[:a]) + inner(seg) + "".join(lines[b:])
    return _e


def _run_variant(args):
    pid, root, name, path, newsrc, expect, base_viol = args
    try:
        compile(newsrc, path, "exec")
    except SyntaxError as e:
        return name, False, f"variant does not compile: {e}"
    mod = importlib.import_module(f"rules.{pid}")
    repo = Repo(root, overlay={path: newsrc})
    ctx = Ctx(pid, repo, "quick")
    try:
        mod.run(ctx)
        ctx.check_minimums()
    except AnalysisError as e:
        # an analysis error on a variant counts as "noticed" for firing variants only when
        # the variant removes the anchor on purpose; otherwise it is a self-test failure
        if expect == "ANALYSIS-ERROR":
            return name, True, f"analysis error as expected: {e}"
        return name, False, f"analysis error on variant: {e}"
    new = sorted(v.key for v in ctx.violations() if v.key not in base_viol)
    if expect is None:
        return name, (not new), ("silent" if not new else f"twin raised: {new[:3]}")
    hit = [k for k in new if expect in k]
    return name, bool(hit), (f"fired: {hit[0]}" if hit else f"did not fire on '{expect}'; new={new[:3]}")


def run_selftest(pid: str, mod, root: str, base_ctx: Ctx) -> Dict:
    if not hasattr(mod, "variants"):
        return {"selftest_variants": 0}
    repo = base_ctx.repo
    vs: List[Variant] = mod.variants(repo)
    base_viol = {v.key for v in base_ctx.violations()}
    jobs = []
    for v in vs:
        src = repo.read(v.path)
        new = v.edit(src)
        if new == src:
            raise AnalysisError(f"self-test variant {v.name} did not change {v.path}")
        jobs.append((pid, root, v.name, v.path, new, v.expect, base_viol))
    results = []
    workers = min(16, max(1, len(jobs)))
    if len(jobs) <= 2:
        results = [_run_variant(j) for j in jobs]
    else:
        with cf.ProcessPoolExecutor(max_workers=workers) as ex:
            results = list(ex.map(_run_variant, jobs))
    bad = [(n, msg) for n, ok, msg in results if not ok]
    if bad:
        raise AnalysisError("self-test failed: " + "; ".join(f"{n}: {m}" for n, m in bad[:5]))
    return {
        "selftest_variants": len(results),
        "selftest_fired": sum(1 for v in vs if v.expect is not None),
        "selftest_silent_twins": sum(1 for v in vs if v.expect is None),
        "selftest_results": [f"{n}: {m}" for n, ok, m in results][:80],
    }
